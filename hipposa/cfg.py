"""hipposa.cfg - statement-level control-flow graph with exceptional edges.

Nodes are simple statements, branch tests, loop heads, `with` entries and handler entries.
Every node that may raise (contains a call / raise / assert / await; optionally a subscript
load) has exceptional successors: the entry of each enclosing handler that may catch it, and
- unless a catch-all handler encloses it - the function's RAISE exit.  `finally` bodies are
duplicated per continuation kind (normal, exception, return, break, continue).
Unsupported statement kinds raise AnalysisError.
"""
from __future__ import annotations

import ast
from dataclasses import dataclass, field
from typing import Callable, Dict, Iterable, List, Optional, Set, Tuple

from .core import AnalysisError, FUNC_TYPES, handler_catches_all, walk


@dataclass(eq=False)
class Node:
    id: int
    kind: str                       # entry exit raise stmt test loop with handler
    ast: Optional[ast.AST] = None
    succs: List["Node"] = field(default_factory=list)       # normal edges
    exc_succs: List["Node"] = field(default_factory=list)   # exceptional edges
    preds: List["Node"] = field(default_factory=list)
    label: str = ""

    def __repr__(self):
        ln = getattr(self.ast, "lineno", "-")
        return f"<{self.id}:{self.kind}@{ln}>"

    def all_succs(self):
        return self.succs + self.exc_succs


def may_raise(n: ast.AST, strict=False) -> bool:
    if isinstance(n, FUNC_TYPES + (ast.ClassDef,)):
        return False
    for x in walk(n):
        if isinstance(x, (ast.Call, ast.Raise, ast.Assert, ast.Await, ast.Yield, ast.YieldFrom)):
            return True
        if strict and isinstance(x, ast.Subscript) and isinstance(x.ctx, ast.Load):
            return True
    return False


class _Frame:
    def __init__(self, kind, **kw):
        self.kind = kind          # 'loop' | 'except' | 'finally'
        self.__dict__.update(kw)
        self.pending: Dict[str, List[Tuple[Node, bool]]] = {}


class CFG:
    def __init__(self, fn: ast.AST, strict=False):
        self.fn = fn
        self.strict = strict
        self.nodes: List[Node] = []
        self.entry = self._new("entry")
        self.exit = self._new("exit")
        self.raise_exit = self._new("raise")
        self._frames: List[_Frame] = []
        self.by_ast: Dict[int, List[Node]] = {}
        outs = self._block(fn.body, [self.entry])
        for o in outs:
            self._edge(o, self.exit)

    # ---- construction
    def _new(self, kind, a=None, label="") -> Node:
        n = Node(len(self.nodes), kind, a, label=label)
        self.nodes.append(n)
        if a is not None:
            self.by_ast.setdefault(id(a), []).append(n)
        return n

    def _edge(self, a: Node, b: Node, exc=False):
        lst = a.exc_succs if exc else a.succs
        if b not in lst:
            lst.append(b)
            b.preds.append(a)

    def _connect(self, preds: List[Node], n: Node):
        for p in preds:
            self._edge(p, n)

    def _jump(self, srcs: List[Tuple[Node, bool]], kind: str, frames: Optional[List[_Frame]] = None):
        """Route abrupt completion `kind` from (node, is_exceptional_edge) sources outward."""
        frames = self._frames if frames is None else frames
        for i in range(len(frames) - 1, -1, -1):
            fr = frames[i]
            if fr.kind == "finally":
                fr.pending.setdefault(kind, []).extend(srcs)
                return
            if kind == "exc" and fr.kind == "except":
                for s, is_exc in srcs:
                    self._edge(s, fr.dispatch, exc=is_exc)
                if fr.catch_all:
                    return
                # may not match any handler: continue outward from the dispatch node
                srcs = [(fr.dispatch, True)]
                continue
            if kind in ("break", "continue") and fr.kind == "loop":
                if kind == "break":
                    fr.breaks.extend(s for s, _ in srcs)
                else:
                    for s, is_exc in srcs:
                        self._edge(s, fr.head, exc=is_exc)
                return
        target = {"exc": self.raise_exit, "return": self.exit}.get(kind)
        if target is None:
            raise AnalysisError(f"{kind} outside loop")
        for s, is_exc in srcs:
            self._edge(s, target, exc=is_exc)

    def _stmt_node(self, st, preds, kind="stmt") -> Node:
        n = self._new(kind, st)
        self._connect(preds, n)
        if may_raise(st if kind == "stmt" else self._head_expr(st), self.strict):
            self._jump([(n, True)], "exc")
        return n

    @staticmethod
    def _head_expr(st):
        if isinstance(st, (ast.If, ast.While)):
            return st.test
        if isinstance(st, (ast.For, ast.AsyncFor)):
            return st.iter
        if isinstance(st, (ast.With, ast.AsyncWith)):
            return ast.Tuple(elts=[i.context_expr for i in st.items], ctx=ast.Load())
        return st

    def _block(self, stmts, preds: List[Node]) -> List[Node]:
        for st in stmts:
            preds = self._stmt(st, preds)
        return preds

    def _stmt(self, st, preds: List[Node]) -> List[Node]:
        if isinstance(st, ast.If):
            t = self._stmt_node(st, preds, "test")
            a = self._block(st.body, [t])
            b = self._block(st.orelse, [t]) if st.orelse else [t]
            return a + b
        if isinstance(st, (ast.While, ast.For, ast.AsyncFor)):
            head = self._new("loop", st)
            self._connect(preds, head)
            if may_raise(self._head_expr(st), self.strict) or isinstance(st, (ast.For, ast.AsyncFor)):
                # iteration protocol may raise
                if may_raise(self._head_expr(st), self.strict):
                    self._jump([(head, True)], "exc")
            fr = _Frame("loop", head=head, breaks=[])
            self._frames.append(fr)
            body_out = self._block(st.body, [head])
            self._frames.pop()
            self._connect(body_out, head)
            infinite = isinstance(st, ast.While) and isinstance(st.test, ast.Constant) and bool(st.test.value)
            outs = [] if infinite else [head]
            if st.orelse:
                outs = self._block(st.orelse, outs)
            return outs + fr.breaks
        if isinstance(st, (ast.With, ast.AsyncWith)):
            w = self._stmt_node(st, preds, "with")
            return self._block(st.body, [w])
        if isinstance(st, ast.Try) or type(st).__name__ == "TryStar":
            return self._try(st, preds)
        if isinstance(st, ast.Return):
            n = self._stmt_node(st, preds)
            self._jump([(n, False)], "return")
            return []
        if isinstance(st, ast.Raise):
            n = self._new("stmt", st)
            self._connect(preds, n)
            self._jump([(n, True)], "exc")
            return []
        if isinstance(st, ast.Break):
            n = self._stmt_node(st, preds)
            self._jump([(n, False)], "break")
            return []
        if isinstance(st, ast.Continue):
            n = self._stmt_node(st, preds)
            self._jump([(n, False)], "continue")
            return []
        if isinstance(st, ast.Match):
            raise AnalysisError("match statement not supported by the CFG builder")
        # simple statements (incl. nested defs)
        n = self._stmt_node(st, preds)
        return [n]

    def _try(self, st, preds):
        fin_frame = None
        if st.finalbody:
            fin_frame = _Frame("finally")
            self._frames.append(fin_frame)
        outs: List[Node] = []
        if st.handlers:
            dispatch = self._new("handler", st, label="dispatch")
            fr = _Frame("except", dispatch=dispatch,
                        catch_all=any(handler_catches_all(h) for h in st.handlers))
            self._frames.append(fr)
            body_out = self._block(st.body, preds)
            self._frames.pop()
            if st.orelse:
                body_out = self._block(st.orelse, body_out)
            outs.extend(body_out)
            for h in st.handlers:
                hn = self._new("handler", h)
                self._edge(dispatch, hn)
                outs.extend(self._block(h.body, [hn]))
        else:
            body_out = self._block(st.body, preds)
            if st.orelse:
                body_out = self._block(st.orelse, body_out)
            outs.extend(body_out)
        if fin_frame is not None:
            self._frames.pop()
            # normal completion
            outs = self._block(st.finalbody, outs) if outs else []
            for kind, srcs in fin_frame.pending.items():
                entry = self._new("stmt", None, label=f"finally[{kind}]")
                for s, is_exc in srcs:
                    self._edge(s, entry, exc=is_exc)
                f_out = self._block(st.finalbody, [entry])
                self._jump([(o, kind == "exc") for o in f_out], kind)
        return outs

    # ---- queries
    def nodes_for(self, a: ast.AST) -> List[Node]:
        return self.by_ast.get(id(a), [])

    def nodes_where(self, pred: Callable[[Node], bool]) -> List[Node]:
        return [n for n in self.nodes if pred(n)]

    def stmt_nodes_containing(self, sub: ast.AST) -> List[Node]:
        """CFG nodes whose evaluated expression contains `sub` (copies in finally included)."""
        out = []
        for n in self.nodes:
            if n.ast is None:
                continue
            head = n.ast if n.kind == "stmt" else self._head_expr(n.ast) if n.kind in ("test", "loop", "with") else None
            if head is None:
                continue
            if n.kind == "loop" and isinstance(n.ast, ast.While):
                head = n.ast.test
            for x in walk(head, into_defs=False):
                if x is sub:
                    out.append(n)
                    break
        return out

    def reachable(self, starts: Iterable[Node], avoid: Callable[[Node], bool] = lambda n: False,
                  exc=True, include_start=False) -> Set[Node]:
        """Nodes reachable from the successors of `starts` without passing through avoid-nodes
        (avoid nodes themselves are not entered)."""
        seen: Set[Node] = set()
        stack = []
        for s in starts:
            if include_start:
                stack.append(s)
            else:
                stack.extend(s.succs + (s.exc_succs if exc else []))
        while stack:
            n = stack.pop()
            if n in seen or avoid(n):
                continue
            seen.add(n)
            stack.extend(n.succs)
            if exc:
                stack.extend(n.exc_succs)
        return seen

    def path_exists(self, starts, target: Callable[[Node], bool], avoid=lambda n: False, exc=True) -> Optional[Node]:
        for n in self.reachable(starts, avoid, exc):
            if target(n):
                return n
        return None

    def witness_path(self, start: Node, target: Callable[[Node], bool], avoid=lambda n: False,
                     exc=True) -> Optional[List[Node]]:
        from collections import deque
        prev: Dict[Node, Optional[Node]] = {}
        dq = deque()
        for s in start.succs + (start.exc_succs if exc else []):
            if s not in prev and not avoid(s):
                prev[s] = start
                dq.append(s)
        while dq:
            n = dq.popleft()
            if target(n):
                path = [n]
                while prev.get(path[-1]) is not None and path[-1] is not start:
                    path.append(prev[path[-1]])
                return list(reversed(path))
            for s in n.succs + (n.exc_succs if exc else []):
                if s not in prev and not avoid(s):
                    prev[s] = n
                    dq.append(s)
        return None

    def describe_path(self, path: List[Node]) -> List[str]:
        out = []
        for n in path:
            if n.kind in ("exit", "raise", "entry"):
                out.append(n.kind.upper())
            else:
                ln = getattr(n.ast, "lineno", None)
                out.append(f"L{ln}:{n.kind}{('/' + n.label) if n.label else ''}")
        return out
