"""hipposa.consteval - evaluation of literal expressions and constant tables from source.

Evaluates ints/strings/bytes/tuples/dicts/sets/lists, arithmetic and bit operators, names
bound once at module level, enum class bodies (incl. enum.auto()), struct.Struct("fmt").
Unknown sub-expressions evaluate to Sym(text) (symbolic), never to a guess.
"""
from __future__ import annotations

import ast
import math
import struct
from dataclasses import dataclass
from typing import Any, Dict, List, Optional, Tuple

from .core import AnalysisError, ClassInfo, Module, Repo, ap, src


@dataclass(frozen=True)
class Sym:
    text: str

    def __repr__(self):
        return f"Sym({self.text})"


@dataclass(frozen=True)
class EnumVal:
    cls: str
    name: str
    value: Any

    def __repr__(self):
        return f"{self.cls}.{self.name}"


@dataclass(frozen=True)
class StructVal:
    fmt: str

    @property
    def size(self):
        return struct.calcsize(self.fmt)


@dataclass(frozen=True)
class CallVal:
    func: str
    args: tuple
    kwargs: tuple

    def __repr__(self):
        a = [repr(x) for x in self.args] + [f"{k}={v!r}" for k, v in self.kwargs]
        return f"{self.func}({', '.join(a)})"


@dataclass(frozen=True)
class RecordVal:
    """Value of a NamedTuple / dataclass construction whose arguments are all constants."""
    cls: str
    fields: tuple      # ((name, value), ...)

    def get(self, name, default=None):
        for k, v in self.fields:
            if k == name:
                return v
        return default

    def has(self, name):
        return any(k == name for k, _ in self.fields)

    def __repr__(self):
        return f"{self.cls}({', '.join(f'{k}={v!r}' for k, v in self.fields)})"


def record_fields(repo: Repo, ci: ClassInfo) -> Optional[List[str]]:
    """field names, in order, of a NamedTuple / dataclass defined in the repo; None for other classes"""
    if not any(b.split(".")[-1] in ("NamedTuple",) for b in ci.base_names) and \
            not any("dataclass" in ast.unparse(d) for d in ci.node.decorator_list):
        return None
    return [st.target.id for st in ci.node.body if isinstance(st, ast.AnnAssign) and isinstance(st.target, ast.Name)
            and "ClassVar" not in ast.unparse(st.annotation)]


ENUM_BASES = {"Enum", "IntEnum", "IntFlag", "Flag", "LookupIntEnum", "StrEnum"}


def is_enum_class(repo: Repo, ci: ClassInfo) -> bool:
    for c in repo.mro(ci):
        for b in c.base_names:
            if b.split(".")[-1] in ENUM_BASES:
                return True
    return False


def enum_members(repo: Repo, ci: ClassInfo) -> Dict[str, Any]:
    """name -> value for an enum class body (own members only; enum.auto() handled)."""
    ev = ConstEval(repo, ci.module)
    is_flag = any(b.split(".")[-1] in ("IntFlag", "Flag") for c in repo.mro(ci) for b in c.base_names)
    out: Dict[str, Any] = {}
    last = None
    for st in ci.node.body:
        if isinstance(st, ast.Assign) and len(st.targets) == 1 and isinstance(st.targets[0], ast.Name):
            name = st.targets[0].id
            if name.startswith("_"):
                continue
            v = st.value
            if isinstance(v, ast.Call) and (ap(v.func) or "").split(".")[-1] == "auto":
                if is_flag:
                    if last is None or not isinstance(last, int) or last == 0:
                        val = 1
                    else:
                        val = 1 << last.bit_length()
                else:
                    val = (last + 1) if isinstance(last, int) else 1
            else:
                local = dict(out)
                val = ev.ev(v, local)
            out[name] = val
            if isinstance(val, int):
                last = val
    return out


class ConstEval:
    def __init__(self, repo: Repo, mod: Module):
        self.repo = repo
        self.mod = mod
        self._depth = 0

    def ev(self, node: ast.AST, local: Optional[Dict[str, Any]] = None) -> Any:
        self._depth += 1
        try:
            if self._depth > 60:
                return Sym(src(node))
            return self._ev(node, local or {})
        finally:
            self._depth -= 1

    def _ev(self, n, local):
        if isinstance(n, ast.Constant):
            return n.value
        if isinstance(n, ast.Tuple):
            return tuple(self.ev(e, local) for e in n.elts)
        if isinstance(n, ast.List):
            return [self.ev(e, local) for e in n.elts]
        if isinstance(n, ast.Set):
            vals = [self.ev(e, local) for e in n.elts]
            try:
                return frozenset(vals)
            except TypeError:
                return tuple(vals)
        if isinstance(n, ast.Dict):
            out = {}
            for k, v in zip(n.keys, n.values):
                if k is None:
                    sub = self.ev(v, local)
                    if isinstance(sub, dict):
                        out.update(sub)
                    else:
                        out[Sym("**" + src(v))] = sub
                    continue
                kk = self.ev(k, local)
                try:
                    out[kk] = self.ev(v, local)
                except TypeError:
                    out[Sym(src(k))] = self.ev(v, local)
            return out
        if isinstance(n, ast.UnaryOp):
            v = self.ev(n.operand, local)
            if isinstance(v, (Sym, CallVal)):
                return Sym(src(n))
            try:
                if isinstance(n.op, ast.USub):
                    return -_num(v)
                if isinstance(n.op, ast.UAdd):
                    return +_num(v)
                if isinstance(n.op, ast.Invert):
                    return ~_num(v)
                if isinstance(n.op, ast.Not):
                    return not v
            except Exception:
                return Sym(src(n))
        if isinstance(n, ast.BinOp):
            a, b = self.ev(n.left, local), self.ev(n.right, local)
            if any(isinstance(x, (Sym, CallVal)) for x in (a, b)):
                hook = getattr(self, "binop_hook", None)
                if hook is not None:
                    r = hook(n.op, a, b)
                    if r is not None:
                        return r
                return Sym(src(n))
            try:
                return _binop(n.op, _num(a), _num(b))
            except Exception:
                return Sym(src(n))
        if isinstance(n, ast.Name):
            if n.id in local:
                return local[n.id]
            return self._name(n.id)
        if isinstance(n, ast.Attribute):
            path = ap(n)
            if path is not None and path in local:
                return local[path]
            return self._attr(n, local)
        if isinstance(n, ast.BoolOp):
            # value semantics of and/or
            last = None
            for v in n.values:
                last = self.ev(v, local)
                if isinstance(last, (Sym, CallVal)):
                    return Sym(src(n))
                if isinstance(n.op, ast.And) and not last:
                    return last
                if isinstance(n.op, ast.Or) and last:
                    return last
            return last
        if isinstance(n, ast.IfExp):
            t = self.ev(n.test, local)
            if isinstance(t, (Sym, CallVal)):
                return Sym(src(n))
            return self.ev(n.body if t else n.orelse, local)
        if isinstance(n, ast.Compare):
            left = self.ev(n.left, local)
            result = True
            for op, comp in zip(n.ops, n.comparators):
                right = self.ev(comp, local)
                if isinstance(left, (Sym, CallVal)) or isinstance(right, (Sym, CallVal)) or \
                        not is_const(left) or not is_const(right):
                    # identical symbolic operands still compare equal
                    return Sym(src(n))
                try:
                    r = _cmp(op, left, right)
                except Exception:
                    return Sym(src(n))
                if not r:
                    return False
                left = right
            return result
        if isinstance(n, ast.Call):
            fn = ap(n.func) or src(n.func)
            last = fn.split(".")[-1]
            if fn in ("struct.Struct", "Struct") and n.args and self.mod.imports.get(fn.split(".")[0], "").startswith("struct"):
                f = self.ev(n.args[0], local)
                if isinstance(f, str):
                    return StructVal(f)
            args = tuple(self.ev(a, local) for a in n.args)
            kwargs = tuple((k.arg or "**", self.ev(k.value, local)) for k in n.keywords)
            hook = getattr(self, "call_hook", None)
            if hook is not None:
                r = hook(n, fn, args, dict(kwargs), local)
                if r is not None:
                    return r
            r = self._call_repo(n, fn, args, dict(kwargs), local)
            if r is not None:
                return r
            r = self._call_pure(n, fn, args, dict(kwargs), local)
            if r is not _NOFOLD:
                return r
            if isinstance(n.func, ast.Attribute) and n.func.attr == "get" and args and is_const(args[0]):
                base = self.ev(n.func.value, local)
                if isinstance(base, dict) and is_const(list(base.keys())):
                    try:
                        return base.get(args[0], args[1] if len(args) > 1 else None)
                    except TypeError:
                        pass
            if last == "len" and len(args) == 1 and not kwargs and isinstance(args[0], (tuple, list, dict)) and \
                    not any(isinstance(k_, Sym) and k_.text.startswith("**") for k_ in (args[0] if isinstance(args[0], dict) else ())):
                return len(args[0])     # the length of a literal collection is known even if its elements are symbolic
            if last in ("frozenset", "set", "tuple", "list") and fn == last and len(args) == 1 and not kwargs and \
                    isinstance(args[0], (tuple, list, frozenset)) and is_const(args[0]):
                # re-wrapping a constant collection (elements may be enum members / records)
                try:
                    return frozenset(args[0]) if last in ("frozenset", "set") else tuple(args[0])
                except TypeError:
                    pass
            if last in ("int", "str", "len", "bool", "float") and len(args) >= 1 and not kwargs and all(is_const(a) for a in args):
                try:
                    return {"int": int, "str": str, "len": len, "bool": bool, "float": float}[last](*[_num(a) if last != "len" else a for a in args])
                except Exception:
                    pass
            return CallVal(fn, args, kwargs)
        if isinstance(n, (ast.ListComp, ast.GeneratorExp, ast.SetComp)):
            return self._comprehension(n, local)
        if isinstance(n, ast.DictComp):
            pairs = self._comprehension(n, local)
            if isinstance(pairs, tuple):
                try:
                    return dict(pairs)
                except TypeError:
                    return Sym(src(n))
            return pairs
        if isinstance(n, ast.JoinedStr):
            return Sym(src(n))
        if isinstance(n, ast.Subscript):
            base = self.ev(n.value, local)
            idx = self.ev(n.slice, local)
            try:
                if not isinstance(base, (Sym, CallVal)) and not isinstance(idx, (Sym, CallVal)):
                    return base[idx]
            except Exception:
                pass
            return Sym(src(n))
        return Sym(src(n))

    # ---- constant folding of pure builtins / pure methods of constant receivers (no repository code involved)
    _PURE_METHODS = {
        bytes: {"count", "index", "find", "rfind", "startswith", "endswith", "lstrip", "rstrip", "strip", "lower", "upper",
                "split", "partition", "rpartition", "decode", "hex", "replace", "join"},
        str: {"count", "index", "find", "rfind", "startswith", "endswith", "lstrip", "rstrip", "strip", "lower", "upper",
              "split", "partition", "rpartition", "encode", "replace", "join", "isdigit", "title"},
        tuple: {"count", "index"},
        list: {"count", "index"},
        int: {"bit_length", "to_bytes"},
        dict: {"items", "keys", "values", "get"},
    }
    _PURE_BUILTINS = {"min": min, "max": max, "sum": sum, "any": any, "all": all, "sorted": sorted, "abs": abs,
                      "tuple": tuple, "list": list, "bytes": bytes, "divmod": divmod, "ord": ord, "chr": chr}

    def _call_pure(self, n: ast.Call, fn: str, args, kwargs, local):
        if kwargs or not all(is_const(a) and not isinstance(a, (EnumVal, RecordVal, StructVal)) for a in args):
            if not (fn == "next" and args and is_const(args[0])):
                return _NOFOLD
        try:
            if isinstance(n.func, ast.Attribute):
                base = self.ev(n.func.value, local)
                for typ, names in self._PURE_METHODS.items():
                    if type(base) is typ and n.func.attr in names:
                        r_ = getattr(base, n.func.attr)(*args)
                        return tuple(r_) if typ is dict and n.func.attr != "get" else r_
                return _NOFOLD
            if isinstance(n.func, ast.Name) and n.func.id not in local:
                name = n.func.id
                if name in self._PURE_BUILTINS and args:
                    return self._PURE_BUILTINS[name](*args)
                if name == "reversed" and len(args) == 1 and isinstance(args[0], (tuple, list, bytes, str)):
                    return tuple(reversed(args[0]))
                if name == "enumerate" and args and isinstance(args[0], (tuple, list, bytes, str)):
                    return tuple(enumerate(args[0], *args[1:]))
                if name == "zip" and all(isinstance(a, (tuple, list, bytes, str)) for a in args):
                    return tuple(zip(*args))
                if name == "range" and all(isinstance(a, int) and not isinstance(a, bool) for a in args) and \
                        len(range(*args)) <= 4096:
                    return tuple(range(*args))
                if name == "next" and args and isinstance(args[0], (tuple, list)):
                    if args[0]:
                        return args[0][0]
                    if len(args) > 1:
                        return args[1]
        except Exception:
            return _NOFOLD
        return _NOFOLD

    def _comprehension(self, n, local):
        """list / set / generator comprehension over constant iterables -> tuple of values (Sym when not decidable)"""
        results = []

        def rec(i, env):
            if i == len(n.generators):
                if isinstance(n, ast.DictComp):
                    results.append((self.ev(n.key, env), self.ev(n.value, env)))
                else:
                    results.append(self.ev(n.elt, env))
                return True
            g = n.generators[i]
            if g.is_async:
                return False
            it = self.ev(g.iter, env)
            if isinstance(it, (Sym, CallVal)) or not isinstance(it, (tuple, list, bytes, str, frozenset)):
                return False
            if len(it) > 4096:
                return False
            for item in it:
                env2 = dict(env)
                if isinstance(g.target, ast.Name):
                    env2[g.target.id] = item
                elif isinstance(g.target, ast.Tuple) and isinstance(item, (tuple, list)) and len(item) == len(g.target.elts) \
                        and all(isinstance(t, ast.Name) for t in g.target.elts):
                    for t, v in zip(g.target.elts, item):
                        env2[t.id] = v
                else:
                    return False
                keep = True
                for cond in g.ifs:
                    c = self.ev(cond, env2)
                    if isinstance(c, (Sym, CallVal)):
                        return False
                    if not c:
                        keep = False
                        break
                if keep and not rec(i + 1, env2):
                    return False
            return True
        if not rec(0, dict(local)):
            return Sym(src(n))
        if any(isinstance(r, (Sym, CallVal)) or (isinstance(n, ast.DictComp) and any(isinstance(x, (Sym, CallVal)) for x in r))
               for r in results):
            return Sym(src(n))
        return tuple(results)

    # ---- calls into the repository: record construction and small pure functions, evaluated by interpretation
    def _call_repo(self, n: ast.Call, fn: str, args, kwargs, local):
        if self._depth > 40 or any(isinstance(a, Sym) and a.text.startswith("*") for a in args):
            return None
        func = n.func
        recv_val = None
        ci = target = None
        if isinstance(func, ast.Name) or (isinstance(func, ast.Attribute) and ap(func)):
            ci = self.repo.resolve_class(ap(func), self.mod) if ap(func) else None
        if ci is not None and not is_enum_class(self.repo, ci):
            fields = record_fields(self.repo, ci)
            if fields is not None and "__init__" not in ci.methods and "__new__" not in ci.methods:
                vals = {}
                for i, a in enumerate(args):
                    if i < len(fields):
                        vals[fields[i]] = a
                for k, v in kwargs.items():
                    if k in fields:
                        vals[k] = v
                # defaults
                for st in ci.node.body:
                    if isinstance(st, ast.AnnAssign) and isinstance(st.target, ast.Name) and st.value is not None \
                            and st.target.id in fields and st.target.id not in vals:
                        vals[st.target.id] = ConstEval(self.repo, ci.module).ev(st.value)
                is_nt = any(b.split(".")[-1] == "NamedTuple" for b in ci.base_names)
                if set(vals) == set(fields) and (is_nt or all(is_const(v) for v in vals.values())):
                    # fields of a NamedTuple row may stay symbolic (a spec object, a class): the record still answers
                    # attribute access; other constructions stay calls unless fully constant
                    try:
                        return RecordVal(ci.name, tuple((f, vals[f]) for f in fields))
                    except TypeError:
                        return None
            return None
        if isinstance(func, ast.Attribute):
            # <record>.method(..) / <RepoClass>.classmethod(..)
            base = self.ev(func.value, local)
            if isinstance(base, RecordVal):
                rc = self.repo.classes.get(base.cls, [])
                if len(rc) == 1:
                    target = self.repo.lookup_method(rc[0], func.attr)
                    recv_val = base
            elif isinstance(base, Sym) and base.text.startswith("self:"):
                # a method called on the symbolic instance the caller is interpreting (`self.helper(..)`): the instance's
                # known attribute values (self.<attr> entries of the environment) travel with it
                rc = self.repo.classes.get(base.text.split(":", 1)[1], [])
                if len(rc) == 1:
                    target = self.repo.lookup_method(rc[0], func.attr)
                    recv_val = base
                    recv_name = ap(func.value)
                    if target is not None and recv_name and all(is_const(a) or isinstance(a, (Sym, RecordVal)) for a in args):
                        extra = {k[len(recv_name):]: v for k, v in (local or {}).items() if k.startswith(recv_name + ".")}
                        return self._interpret(target, recv_val, args, kwargs, extra)
            elif isinstance(base, Sym) and base.text.startswith("class:"):
                cname = base.text.split(":", 1)[1].split("::")[-1].split(".")[-1]
                rc = [c for c in self.repo.classes.get(cname, []) if c.qual == base.text.split(":", 1)[1]] or \
                    self.repo.classes.get(cname, [])
                if len(rc) == 1:
                    target = self.repo.lookup_method(rc[0], func.attr)
                    if target is not None and not any((ap(d) or "") in ("classmethod", "staticmethod")
                                                      for d in target.node.decorator_list):
                        target = None
                    recv_val = base
        elif isinstance(func, ast.Name):
            cands = [g for g in self.repo.funcs.get(func.id, []) if g.cls is None and g.parent_fn is None and g.module is self.mod]
            target = cands[0] if len(cands) == 1 else None
        if target is None or not all(is_const(a) or isinstance(a, (Sym, RecordVal)) for a in args):
            return None
        return self._interpret(target, recv_val, args, kwargs)

    def _interpret(self, target, recv_val, args, kwargs, recv_attrs=None):
        from .miniinterp import run_block
        a = target.node.args
        if a.vararg or a.kwarg:
            return None
        params = [p.arg for p in a.posonlyargs + a.args]
        env: Dict[str, Any] = {}
        is_static = any((ap(d) or "") == "staticmethod" for d in target.node.decorator_list)
        if target.cls is not None and not is_static:
            if not params:
                return None
            env[params[0]] = recv_val if recv_val is not None else Sym(f"class:{target.cls.name}")
            for k_, v_ in (recv_attrs or {}).items():
                env[params[0] + k_] = v_
            params = params[1:]
        if len(args) > len(params):
            return None
        for p_, v in zip(params, args):
            env[p_] = v
        for k, v in kwargs.items():
            if k not in params or k in env:
                return None
            env[k] = v
        dflt = dict(zip([p.arg for p in a.posonlyargs + a.args][len(a.posonlyargs + a.args) - len(a.defaults):], a.defaults))
        sub = ConstEval(self.repo, target.module)
        sub._depth = self._depth + 5
        for h in ("call_hook", "attr_hook", "binop_hook"):
            if getattr(self, h, None) is not None:
                setattr(sub, h, getattr(self, h))
        for p_ in params:
            if p_ not in env:
                if p_ not in dflt:
                    return None
                env[p_] = sub.ev(dflt[p_])
        body = [st for st in target.node.body
                if not (isinstance(st, ast.Expr) and isinstance(st.value, ast.Constant))]
        try:
            out = run_block(sub, body, env)
        except AnalysisError:
            return None
        if out.kind == "return":
            return out.value
        if out.kind == "fallthrough":
            return None if False else _NONE
        return None

    def _name(self, name: str, mod: Optional[Module] = None, seen=None) -> Any:
        mod = mod or self.mod
        seen = seen or set()
        if (mod.rel, name) in seen:
            return Sym(name)
        seen.add((mod.rel, name))
        v = self.repo.module_assign(mod, name)
        if v is not None:
            return ConstEval(self.repo, mod).ev(v)
        for ci in self.repo.classes.get(name, []):
            if ci.module is mod:
                return Sym(f"class:{ci.qual}")
        tgt = mod.imports.get(name)
        if tgt:
            modname, _, attr = tgt.rpartition(".")
            m2 = self.repo.by_modname.get(modname)
            if m2 is not None:
                return self._name(attr, m2, seen)
            if tgt in self.repo.by_modname:
                return Sym(f"module:{tgt}")
            return Sym(tgt)
        for star in mod.star_imports:
            m2 = self.repo.by_modname.get(star)
            if m2 is not None:
                r = self._name(name, m2, seen)
                if not (isinstance(r, Sym) and r.text == name):
                    return r
        return Sym(name)

    def _attr(self, n: ast.Attribute, local):
        path = ap(n)
        if path == "math.pi":
            return math.pi
        if local is not None and path and path in local:
            # an attribute path the interpreter bound itself (`cls.TABLE = ...` earlier in the same body / seeded env)
            return local[path]
        # Enum.MEMBER / Enum.MEMBER.value
        if isinstance(n.value, ast.Name) or isinstance(n.value, ast.Attribute):
            base_path = ap(n.value)
            if base_path:
                ci = self.repo.resolve_class(base_path, self.mod)
                if ci is None and "." in base_path:
                    # module alias: se.U8, tmpls.X
                    head, _, rest = base_path.partition(".")
                    tgt = self.mod.imports.get(head)
                    m2 = self.repo.by_modname.get(tgt) if tgt else None
                    if m2 is not None and "." not in rest:
                        ci = self.repo.resolve_class(rest, m2)
                if ci is not None and is_enum_class(self.repo, ci):
                    mem = enum_members(self.repo, ci)
                    if n.attr in mem:
                        return EnumVal(ci.name, n.attr, mem[n.attr])
                if ci is not None and not is_enum_class(self.repo, ci):
                    cv = self.repo.class_attr(ci, n.attr)
                    if cv is not None:
                        local_cls = {}
                        # earlier class-level constants may be referenced by later ones
                        for st in ci.node.body:
                            if isinstance(st, ast.Assign) and len(st.targets) == 1 and isinstance(st.targets[0], ast.Name) \
                                    and isinstance(st.value, ast.Constant):
                                local_cls[st.targets[0].id] = st.value.value
                        r = ConstEval(self.repo, ci.module).ev(cv, local_cls)
                        if is_const(r):
                            return r
                if ci is None and isinstance(n.value, ast.Name):
                    tgt = self.mod.imports.get(n.value.id)
                    m2 = self.repo.by_modname.get(tgt) if tgt else None
                    if m2 is not None:
                        r = self._name(n.attr, m2)
                        return r if not (isinstance(r, Sym) and r.text == n.attr) else Sym(f"{tgt}.{n.attr}")
        base = self.ev(n.value, local)
        hook = getattr(self, "attr_hook", None)
        if hook is not None:
            r = hook(base, n.attr)
            if r is not None:
                return r
        if isinstance(base, RecordVal) and base.has(n.attr):
            return base.get(n.attr)
        if isinstance(base, EnumVal):
            if n.attr == "value":
                return base.value
            if n.attr == "name":
                return base.name
        if isinstance(base, StructVal) and n.attr == "size":
            return base.size
        return Sym(path or src(n))


def _cmp(op, a, b):
    if isinstance(op, (ast.Eq, ast.Is)):
        return a == b
    if isinstance(op, (ast.NotEq, ast.IsNot)):
        return a != b
    if isinstance(op, ast.In):
        return a in b
    if isinstance(op, ast.NotIn):
        return a not in b
    a, b = _num(a), _num(b)
    if isinstance(op, ast.Lt):
        return a < b
    if isinstance(op, ast.LtE):
        return a <= b
    if isinstance(op, ast.Gt):
        return a > b
    if isinstance(op, ast.GtE):
        return a >= b
    raise ValueError(op)


def _num(v):
    if isinstance(v, EnumVal):
        return v.value
    return v


def _binop(op, a, b):
    if isinstance(op, ast.Add):
        return a + b
    if isinstance(op, ast.Sub):
        return a - b
    if isinstance(op, ast.Mult):
        return a * b
    if isinstance(op, ast.Div):
        return a / b
    if isinstance(op, ast.FloorDiv):
        return a // b
    if isinstance(op, ast.Mod):
        return a % b
    if isinstance(op, ast.Pow):
        return a ** b
    if isinstance(op, ast.LShift):
        return a << b
    if isinstance(op, ast.RShift):
        return a >> b
    if isinstance(op, ast.BitOr):
        return a | b
    if isinstance(op, ast.BitAnd):
        return a & b
    if isinstance(op, ast.BitXor):
        return a ^ b
    raise ValueError(op)


_NONE = None
_NOFOLD = object()


def is_const(v) -> bool:
    if isinstance(v, (Sym, CallVal)):
        return False
    if isinstance(v, RecordVal):
        return all(is_const(x) for _, x in v.fields)
    if isinstance(v, (tuple, list, frozenset)):
        return all(is_const(x) for x in v)
    if isinstance(v, dict):
        return all(is_const(k) and is_const(x) for k, x in v.items())
    return True
