"""hipposa.core - source model of the Hippolyzer tree (parse only; never imports repo code).

Repo          parsed modules + class / function indexes (+ in-memory overlays for self-test)
ast helpers   parents, access paths, dominating conditions (syntax-directed), try contexts,
              store enumeration
"""
from __future__ import annotations

import ast
import os
import sys
from dataclasses import dataclass, field
from typing import Callable, Dict, Iterable, Iterator, List, Optional, Sequence, Set, Tuple


from .normalize import normalize_tree  # noqa: E402

class AnalysisError(Exception):
    """The analysis cannot give a verdict (vanished anchor, unsupported construct, floor)."""


# --------------------------------------------------------------------------- model

@dataclass
class Module:
    rel: str                 # path relative to repo root
    name: str                # dotted module name
    src: str
    tree: ast.Module
    imports: Dict[str, str] = field(default_factory=dict)   # local name -> dotted target
    star_imports: List[str] = field(default_factory=list)

    def __hash__(self):
        return hash(self.rel)


@dataclass
class ClassInfo:
    name: str
    module: Module
    node: ast.ClassDef
    base_names: List[str]
    methods: Dict[str, "FuncInfo"] = field(default_factory=dict)

    @property
    def qual(self):
        return f"{self.module.rel}::{self.name}"

    def __hash__(self):
        return hash(self.qual)

    def __eq__(self, other):
        return isinstance(other, ClassInfo) and self.qual == other.qual


@dataclass
class FuncInfo:
    name: str                # simple name
    qual: str                # Class.meth / func / outer.<locals>.inner
    module: Module
    node: ast.AST            # FunctionDef / AsyncFunctionDef
    cls: Optional[ClassInfo] = None
    parent_fn: Optional["FuncInfo"] = None

    @property
    def full(self):
        return f"{self.module.rel}::{self.qual}"

    @property
    def where(self):
        return f"{self.module.rel}:{self.node.lineno}"

    def __hash__(self):
        return hash(self.full)

    def __eq__(self, other):
        return isinstance(other, FuncInfo) and self.full == other.full


FUNC_TYPES = (ast.FunctionDef, ast.AsyncFunctionDef)


def set_parents(tree: ast.AST):
    for node in ast.walk(tree):
        for child in ast.iter_child_nodes(node):
            child._parent = node  # type: ignore[attr-defined]
    tree._parent = None  # type: ignore[attr-defined]


_PARSE_CACHE: Dict[Tuple[str, int, int], Tuple[str, ast.Module]] = {}


NORMALIZE = os.environ.get("HIPPOSA_NO_NORMALIZE") is None


class Repo:
    """All python modules under <root>/<subdirs>; overlay maps rel path -> replacement source."""

    def __init__(self, root: str, subdirs: Sequence[str] = ("hippolyzer",),
                 overlay: Optional[Dict[str, str]] = None):
        self.root = os.path.abspath(root)
        self.subdirs = tuple(subdirs)
        self.overlay = dict(overlay or {})
        self.modules: Dict[str, Module] = {}
        self.by_modname: Dict[str, Module] = {}
        self.classes: Dict[str, List[ClassInfo]] = {}
        self.funcs: Dict[str, List[FuncInfo]] = {}        # simple name -> infos
        self.funcs_by_qual: Dict[str, List[FuncInfo]] = {}  # "Class.meth" -> infos
        self.all_funcs: List[FuncInfo] = []
        self._load()

    # ---- loading
    def _load(self):
        rels = []
        for sub in self.subdirs:
            base = os.path.join(self.root, sub)
            if not os.path.isdir(base):
                raise AnalysisError(f"source directory missing: {base}")
            for dp, dns, fns in os.walk(base):
                dns[:] = sorted(d for d in dns if d != "__pycache__")
                for fn in sorted(fns):
                    if fn.endswith(".py"):
                        rels.append(os.path.relpath(os.path.join(dp, fn), self.root))
        for rel in self.overlay:
            if rel not in rels and rel.endswith(".py"):
                rels.append(rel)
        for rel in rels:
            self._load_module(rel)
        for mod in self.modules.values():
            self._index_module(mod)

    def _load_module(self, rel: str):
        path = os.path.join(self.root, rel)
        if rel in self.overlay:
            src = self.overlay[rel]
            try:
                tree = ast.parse(src, filename=rel)
            except SyntaxError as e:
                raise AnalysisError(f"cannot parse overlay {rel}: {e}")
            if NORMALIZE:
                normalize_tree(tree)
            set_parents(tree)
        else:
            st = os.stat(path)
            key = (path, st.st_mtime_ns, st.st_size)
            hit = _PARSE_CACHE.get(key)
            if hit is None:
                with open(path, encoding="utf8") as f:
                    src = f.read()
                try:
                    tree = ast.parse(src, filename=rel)
                except SyntaxError as e:
                    raise AnalysisError(f"cannot parse {rel}: {e}")
                if NORMALIZE:
                    normalize_tree(tree)
                set_parents(tree)
                _PARSE_CACHE[key] = (src, tree)
            else:
                src, tree = hit
        name = rel[:-3].replace(os.sep, ".")
        if name.endswith(".__init__"):
            name = name[:-9]
        mod = Module(rel=rel, name=name, src=src, tree=tree)
        for node in ast.walk(tree):
            if isinstance(node, ast.Import):
                for a in node.names:
                    mod.imports[a.asname or a.name.split(".")[0]] = a.name if a.asname else a.name.split(".")[0]
            elif isinstance(node, ast.ImportFrom):
                base = node.module or ""
                if node.level:
                    pkg = name.split(".")
                    # module's package
                    if not rel.endswith("__init__.py"):
                        pkg = pkg[:-1]
                    pkg = pkg[:len(pkg) - (node.level - 1)]
                    base = ".".join(pkg + ([node.module] if node.module else []))
                for a in node.names:
                    if a.name == "*":
                        mod.star_imports.append(base)
                    else:
                        mod.imports[a.asname or a.name] = f"{base}.{a.name}"
        self.modules[rel] = mod
        self.by_modname[name] = mod

    def _index_module(self, mod: Module):
        def visit(body, cls: Optional[ClassInfo], parent_fn: Optional[FuncInfo], prefix: str):
            for node in body:
                if isinstance(node, ast.ClassDef):
                    ci = ClassInfo(node.name, mod, node, [ap(b.value if isinstance(b, ast.Subscript) else b) or ast.unparse(b) for b in node.bases])
                    self.classes.setdefault(node.name, []).append(ci)
                    visit(node.body, ci, None, prefix + node.name + ".")
                elif isinstance(node, FUNC_TYPES):
                    qual = prefix + node.name
                    key = node.name
                    if cls is not None and parent_fn is None and node.name in cls.methods:
                        # property getter/setter pairs share a name: keep the first, suffix others
                        deco = [ast.unparse(d) for d in node.decorator_list]
                        suffix = "setter" if any(d.endswith(".setter") for d in deco) else \
                            "deleter" if any(d.endswith(".deleter") for d in deco) else "dup"
                        key = f"{node.name}.{suffix}"
                        qual = prefix + key
                    fi = FuncInfo(node.name, qual, mod, node, cls, parent_fn)
                    self.funcs.setdefault(node.name, []).append(fi)
                    self.funcs_by_qual.setdefault(fi.qual, []).append(fi)
                    self.all_funcs.append(fi)
                    if cls is not None and parent_fn is None:
                        cls.methods[key] = fi
                    # nested
                    visit(_nested_defs(node), cls, fi, prefix + node.name + ".<locals>.")
                elif isinstance(node, (ast.If, ast.Try, ast.With)):
                    # definitions under module-level conditionals
                    for sub in _sub_bodies(node):
                        visit(sub, cls, parent_fn, prefix)
        visit(mod.tree.body, None, None, "")

    # ---- lookup
    def module(self, rel: str) -> Module:
        if rel not in self.modules:
            raise AnalysisError(f"anchor module vanished: {rel}")
        return self.modules[rel]

    def cls(self, name: str, module: Optional[str] = None) -> ClassInfo:
        allc = self.classes.get(name, [])
        cands = allc
        if module:
            cands = [c for c in allc if c.module.rel == module or c.module.rel.endswith(module)]
            # the class was moved to another module (and is imported back / re-exported): still the same anchor
            if not cands and len(allc) == 1:
                cands = allc
        if len(cands) != 1:
            raise AnalysisError(f"anchor class {name!r} (module={module}) resolves to {len(cands)} classes")
        return cands[0]

    def fn(self, qual: str, module: Optional[str] = None) -> FuncInfo:
        """Look up 'Class.method' or 'func' (unique across the tree, or within module).  A method that the named
        class inherits (pulled up into a base class or a mixin) and a function that moved to another module while
        staying unique in the tree are still the same anchor."""
        allc = self.funcs_by_qual.get(qual, [])
        cands = allc
        if module:
            cands = [c for c in allc if c.module.rel == module or c.module.rel.endswith(module)]
            if not cands and len(allc) == 1:
                cands = allc
        if not cands and "." in qual and "<locals>" not in qual:
            cname, _, meth = qual.rpartition(".")
            if "." not in cname:
                owners = self.classes.get(cname, [])
                if module:
                    inmod = [c for c in owners if c.module.rel == module or c.module.rel.endswith(module)]
                    owners = inmod or owners
                if len(owners) == 1:
                    f = self.lookup_method(owners[0], meth)
                    if f is not None:
                        return f
        if len(cands) != 1:
            raise AnalysisError(f"anchor function {qual!r} (module={module}) resolves to {len(cands)} functions")
        return cands[0]

    def fn_opt(self, qual: str, module: Optional[str] = None) -> Optional[FuncInfo]:
        try:
            return self.fn(qual, module)
        except AnalysisError:
            return None

    def resolve_class(self, name: str, mod: Module) -> Optional[ClassInfo]:
        """Resolve a (possibly dotted) class reference seen in module `mod`."""
        if not name:
            return None
        parts = name.split(".")
        simple = parts[-1]
        cands = self.classes.get(simple, [])
        if not cands:
            return None
        if len(cands) == 1:
            return cands[0]
        # same module first
        for c in cands:
            if c.module is mod and len(parts) == 1:
                return c
        target = mod.imports.get(parts[0])
        if target:
            dotted = target if len(parts) == 1 else target + "." + ".".join(parts[1:])
            for c in cands:
                if dotted == f"{c.module.name}.{c.name}":
                    return c
        for star in mod.star_imports:
            for c in cands:
                if c.module.name == star:
                    return c
        return None

    def bases(self, ci: ClassInfo) -> List[ClassInfo]:
        out = []
        for b in ci.base_names:
            r = self.resolve_class(b, ci.module)
            if r is not None:
                out.append(r)
        return out

    def mro(self, ci: ClassInfo) -> List[ClassInfo]:
        seen, order = set(), []

        def rec(c):
            if c.qual in seen:
                return
            seen.add(c.qual)
            order.append(c)
            for b in self.bases(c):
                rec(b)
        rec(ci)
        return order

    def subclasses(self, ci: ClassInfo, strict=False) -> List[ClassInfo]:
        out = []
        for lst in self.classes.values():
            for c in lst:
                if c == ci:
                    if not strict:
                        out.append(c)
                    continue
                if any(m == ci for m in self.mro(c)[1:]):
                    out.append(c)
        return out

    def lookup_method(self, ci: ClassInfo, name: str) -> Optional[FuncInfo]:
        for c in self.mro(ci):
            if name in c.methods:
                return c.methods[name]
        return None

    def class_attr(self, ci: ClassInfo, name: str) -> Optional[ast.AST]:
        """Value node of a class-level assignment `name = ...` (searching the MRO)."""
        for c in self.mro(ci):
            for st in c.node.body:
                if isinstance(st, ast.Assign):
                    for t in st.targets:
                        if isinstance(t, ast.Name) and t.id == name:
                            return st.value
                elif isinstance(st, ast.AnnAssign) and isinstance(st.target, ast.Name) \
                        and st.target.id == name and st.value is not None:
                    return st.value
        return None

    def module_assign(self, mod: Module, name: str, _depth: int = 0) -> Optional[ast.AST]:
        vals = []
        for st in mod.tree.body:
            if isinstance(st, ast.Assign):
                for t in st.targets:
                    if isinstance(t, ast.Name) and t.id == name:
                        vals.append(st.value)
            elif isinstance(st, ast.AnnAssign) and isinstance(st.target, ast.Name) \
                    and st.target.id == name and st.value is not None:
                vals.append(st.value)
        if not vals and _depth < 3:
            # a constant that moved to another module of the repo and is imported back under the same local name
            tgt = mod.imports.get(name)
            if tgt:
                modname, _, attr = tgt.rpartition(".")
                m2 = self.by_modname.get(modname)
                if m2 is not None and m2 is not mod:
                    return self.module_assign(m2, attr, _depth + 1)
        return vals[-1] if vals else None

    def loc(self, mod: Module, node: ast.AST) -> str:
        return f"{mod.rel}:{getattr(node, 'lineno', 0)}"


def _nested_defs(fn: ast.AST) -> List[ast.AST]:
    """Direct nested function/class definitions of a function (not crossing other defs)."""
    out = []

    def rec(node):
        for ch in ast.iter_child_nodes(node):
            if isinstance(ch, FUNC_TYPES + (ast.ClassDef,)):
                out.append(ch)
            elif isinstance(ch, ast.Lambda):
                continue
            else:
                rec(ch)
    rec(fn)
    return out


def _sub_bodies(node) -> List[List[ast.AST]]:
    out = []
    for f in ("body", "orelse", "finalbody"):
        b = getattr(node, f, None)
        if b:
            out.append(b)
    for h in getattr(node, "handlers", []) or []:
        out.append(h.body)
    return out


# --------------------------------------------------------------------------- ast helpers

def clone_ast(n):
    """Structural copy of an AST (fields only).  copy.deepcopy would follow the `_parent` back-links the engine
    adds and copy the whole module for every call."""
    if isinstance(n, ast.AST):
        new = type(n)(**{f: clone_ast(v) for f, v in ast.iter_fields(n)})
        return ast.copy_location(new, n) if hasattr(n, "lineno") else new
    if isinstance(n, list):
        return [clone_ast(x) for x in n]
    return n


def parent(node):
    return getattr(node, "_parent", None)


def ancestors(node) -> Iterator[ast.AST]:
    p = parent(node)
    while p is not None:
        yield p
        p = parent(p)


def enclosing_fn(node) -> Optional[ast.AST]:
    for a in ancestors(node):
        if isinstance(a, FUNC_TYPES + (ast.Lambda,)):
            return a
    return None


def enclosing_stmt(node) -> Optional[ast.stmt]:
    n = node
    while n is not None and not isinstance(n, ast.stmt):
        n = parent(n)
    return n


def ap(node) -> Optional[str]:
    """Access path: a.b.c / a.b[] / a.b() ; None when not a path."""
    if isinstance(node, ast.Name):
        return node.id
    if isinstance(node, ast.Attribute):
        b = ap(node.value)
        return None if b is None else f"{b}.{node.attr}"
    if isinstance(node, ast.Subscript):
        b = ap(node.value)
        return None if b is None else f"{b}[]"
    if isinstance(node, ast.Call):
        b = ap(node.func)
        return None if b is None else f"{b}()"
    if isinstance(node, ast.Starred):
        return ap(node.value)
    return None


def src(node) -> str:
    try:
        return ast.unparse(node)
    except Exception:  # pragma: no cover
        return f"<{type(node).__name__}>"


def walk(node, into_defs=False) -> Iterator[ast.AST]:
    """ast.walk that does not descend into nested function/class/lambda bodies by default."""
    stack = [node]
    first = True
    while stack:
        n = stack.pop()
        if not first and not into_defs and isinstance(n, FUNC_TYPES + (ast.ClassDef, ast.Lambda)):
            yield n  # the def itself is visible, its body is not
            continue
        first = False
        yield n
        stack.extend(reversed(list(ast.iter_child_nodes(n))))


def calls(node, into_defs=False) -> List[ast.Call]:
    return [n for n in walk(node, into_defs) if isinstance(n, ast.Call)]


def call_name(c: ast.Call) -> Optional[str]:
    return ap(c.func)


def call_attr(c: ast.Call) -> Optional[str]:
    """Last component of the callee name."""
    if isinstance(c.func, ast.Attribute):
        return c.func.attr
    if isinstance(c.func, ast.Name):
        return c.func.id
    return None


def find_calls(node, name: str, into_defs=True) -> List[ast.Call]:
    """Calls whose callee's last component is `name`."""
    return [c for c in calls(node, into_defs) if call_attr(c) == name]


def kw(c: ast.Call, name: str) -> Optional[ast.AST]:
    for k in c.keywords:
        if k.arg == name:
            return k.value
    return None


def always_exits(stmts: Sequence[ast.stmt]) -> bool:
    """The block cannot complete normally (ends in return/raise/continue/break on all paths)."""
    if not stmts:
        return False
    last = stmts[-1]
    if isinstance(last, (ast.Return, ast.Raise, ast.Continue, ast.Break)):
        return True
    if isinstance(last, ast.If):
        return bool(last.orelse) and always_exits(last.body) and always_exits(last.orelse)
    if isinstance(last, ast.Try):
        if last.finalbody and always_exits(last.finalbody):
            return True
        bodies = [last.body + last.orelse] + [h.body for h in last.handlers]
        return all(always_exits(b) for b in bodies)
    if isinstance(last, (ast.With, ast.AsyncWith)):
        return always_exits(last.body)
    if isinstance(last, ast.Match):
        irrefutable = any(c.guard is None and _pattern_irrefutable(c.pattern) for c in last.cases)
        return irrefutable and all(always_exits(c.body) for c in last.cases)
    return False


def _pattern_irrefutable(pat) -> bool:
    if isinstance(pat, ast.MatchAs):
        return pat.pattern is None or _pattern_irrefutable(pat.pattern)
    if isinstance(pat, ast.MatchOr):
        return any(_pattern_irrefutable(x) for x in pat.patterns)
    return False


def _pattern_test(subject: ast.expr, pat) -> Optional[ast.expr]:
    """Expression equivalent to `subject matches pat` for the pattern kinds that have one (value, singleton, bare
    class, or-patterns of those, `as` captures of those); None when the pattern has no simple test."""
    if isinstance(pat, ast.MatchValue):
        return ast.Compare(left=subject, ops=[ast.Eq()], comparators=[pat.value])
    if isinstance(pat, ast.MatchSingleton):
        return ast.Compare(left=subject, ops=[ast.Is()], comparators=[ast.Constant(value=pat.value)])
    if isinstance(pat, ast.MatchClass) and not pat.patterns and not pat.kwd_patterns:
        return ast.Call(func=ast.Name(id="isinstance", ctx=ast.Load()), args=[subject, pat.cls], keywords=[])
    if isinstance(pat, ast.MatchAs) and pat.pattern is not None:
        return _pattern_test(subject, pat.pattern)
    if isinstance(pat, ast.MatchOr):
        parts = [_pattern_test(subject, x) for x in pat.patterns]
        if all(x is not None for x in parts):
            return ast.BoolOp(op=ast.Or(), values=parts)
    return None


def match_as_if(m: ast.Match) -> Optional[ast.If]:
    """The if/elif/else chain equivalent to a match statement whose patterns all have a simple test (value,
    singleton, bare class, or-patterns, trailing wildcard); None when some pattern binds or destructures."""
    chain: List[Tuple[Optional[ast.expr], List[ast.stmt]]] = []
    for c in m.cases:
        if c.guard is None and isinstance(c.pattern, ast.MatchAs) and c.pattern.pattern is None and c.pattern.name is None:
            chain.append((None, c.body))
            break
        t = _pattern_test(m.subject, c.pattern)
        if t is None or (isinstance(c.pattern, ast.MatchAs) and c.pattern.name is not None):
            return None
        if c.guard is not None:
            t = ast.BoolOp(op=ast.And(), values=[t, c.guard])
        chain.append((t, c.body))
    node: List[ast.stmt] = []
    for t, body in reversed(chain):
        if t is None:
            node = list(body)
        else:
            node = [ast.copy_location(ast.If(test=t, body=list(body), orelse=node), m)]
    if len(node) == 1 and isinstance(node[0], ast.If):
        return node[0]
    return None


def match_case_conds(m: ast.Match, case: ast.match_case) -> List["Cond"]:
    """Conditions that hold inside `case` of `m`: its own pattern test and guard, and the failure of every
    earlier unguarded case that has a simple test."""
    out: List[Cond] = []
    for c in m.cases:
        t = _pattern_test(m.subject, c.pattern)
        if c is case:
            if t is not None:
                out.append(Cond(t, True, "if"))
            if c.guard is not None:
                out.append(Cond(c.guard, True, "if"))
            break
        if t is not None and c.guard is None:
            out.append(Cond(t, False, "if"))
    return out


def _block_of(stmt) -> Tuple[Optional[List[ast.stmt]], Optional[str]]:
    p = parent(stmt)
    if p is None:
        return None, None
    for f in ("body", "orelse", "finalbody"):
        b = getattr(p, f, None)
        if isinstance(b, list) and any(x is stmt for x in b):
            return b, f
    return None, None


@dataclass
class Cond:
    test: ast.AST
    polarity: bool      # test evaluated to this truth value on every path reaching the node
    kind: str           # 'if' | 'early-exit' | 'assert' | 'while' | 'boolop' | 'ifexp' | 'comp'


def atoms(test: ast.AST, polarity: bool) -> List[Tuple[ast.AST, bool]]:
    """Decompose a condition known to be `polarity` into atomic facts (expr, truth)."""
    if isinstance(test, ast.UnaryOp) and isinstance(test.op, ast.Not):
        return atoms(test.operand, not polarity)
    if isinstance(test, ast.BoolOp):
        if isinstance(test.op, ast.And) and polarity:
            return [a for v in test.values for a in atoms(v, True)]
        if isinstance(test.op, ast.Or) and not polarity:
            return [a for v in test.values for a in atoms(v, False)]
        return [(test, polarity)]
    return [(test, polarity)]


def conditions(node: ast.AST, stop: Optional[ast.AST] = None) -> List[Cond]:
    """Conditions that hold on every path on which `node` is evaluated (syntax-directed
    dominance: enclosing branches, earlier early-exit guards and asserts in enclosing blocks,
    short-circuit operands).  `stop`: function node at which to stop (default enclosing def)."""
    out: List[Cond] = []
    cur = node
    while cur is not None:
        p = parent(cur)
        if p is None or cur is stop:
            break
        if isinstance(p, ast.If):
            if any(cur is s for s in p.body):
                out.append(Cond(p.test, True, "if"))
            elif any(cur is s for s in p.orelse):
                out.append(Cond(p.test, False, "if"))
        elif isinstance(p, ast.While):
            if any(cur is s for s in p.body):
                out.append(Cond(p.test, True, "while"))
        elif isinstance(p, ast.match_case):
            m = parent(p)
            if isinstance(m, ast.Match) and (any(cur is s for s in p.body) or cur is p.guard):
                cs = match_case_conds(m, p)
                if cur is p.guard:
                    cs = [c for c in cs if c.test is not p.guard]
                out.extend(cs)
        elif isinstance(p, ast.IfExp):
            if cur is p.body:
                out.append(Cond(p.test, True, "ifexp"))
            elif cur is p.orelse:
                out.append(Cond(p.test, False, "ifexp"))
        elif isinstance(p, ast.BoolOp):
            idx = next(i for i, v in enumerate(p.values) if v is cur)
            for v in p.values[:idx]:
                out.append(Cond(v, isinstance(p.op, ast.And), "boolop"))
        elif isinstance(p, ast.comprehension):
            # `cur` is an if-filter or the iter: filters before it hold
            if any(cur is i for i in p.ifs):
                idx = next(i for i, v in enumerate(p.ifs) if v is cur)
                for v in p.ifs[:idx]:
                    out.append(Cond(v, True, "comp"))
        elif isinstance(p, (ast.ListComp, ast.SetComp, ast.GeneratorExp, ast.DictComp)):
            if not isinstance(cur, ast.comprehension):
                for g in p.generators:
                    for v in g.ifs:
                        out.append(Cond(v, True, "comp"))
        if isinstance(cur, ast.stmt):
            block, _ = _block_of(cur)
            if block is not None:
                for s in block:
                    if s is cur:
                        break
                    if isinstance(s, ast.If):
                        if always_exits(s.body) and not always_exits(s.orelse):
                            out.append(Cond(s.test, False, "early-exit"))
                        elif s.orelse and always_exits(s.orelse) and not always_exits(s.body):
                            out.append(Cond(s.test, True, "early-exit"))
                    elif isinstance(s, ast.Assert):
                        out.append(Cond(s.test, True, "assert"))
                    elif isinstance(s, ast.Match):
                        # cases that cannot complete normally: falling through means they did not match
                        # (only the leading run of such cases: a later one may never have been tried)
                        for c in s.cases:
                            if not always_exits(c.body):
                                break
                            t = _pattern_test(s.subject, c.pattern)
                            if t is not None and c.guard is None:
                                out.append(Cond(t, False, "early-exit"))
        if isinstance(p, FUNC_TYPES + (ast.Lambda,)) and stop is None:
            break
        cur = p
    return out


def facts(node: ast.AST, stop: Optional[ast.AST] = None) -> List[Tuple[ast.AST, bool]]:
    out = []
    for c in conditions(node, stop):
        out.extend(atoms(c.test, c.polarity))
    return out


def has_fact(node: ast.AST, pred: Callable[[ast.AST, bool], bool], stop=None) -> bool:
    return any(pred(e, pol) for e, pol in facts(node, stop))


@dataclass
class TryCtx:
    node: ast.Try
    section: str   # 'body' | 'handler' | 'orelse' | 'final'
    handler: Optional[ast.ExceptHandler] = None


def try_contexts(node: ast.AST, stop: Optional[ast.AST] = None) -> List[TryCtx]:
    out = []
    cur = node
    while cur is not None and cur is not stop:
        p = parent(cur)
        if p is None:
            break
        if isinstance(p, ast.Try):
            if any(cur is s for s in p.body):
                out.append(TryCtx(p, "body"))
            elif any(cur is s for s in p.orelse):
                out.append(TryCtx(p, "orelse"))
            elif any(cur is s for s in p.finalbody):
                out.append(TryCtx(p, "final"))
        elif isinstance(p, ast.ExceptHandler):
            out.append(TryCtx(parent(p), "handler", p))
            cur = p
        elif isinstance(p, FUNC_TYPES + (ast.Lambda,)) and stop is None:
            break
        cur = parent(cur)
    return out


CATCH_ALL = {"Exception", "BaseException"}


def handler_catches_all(h: ast.ExceptHandler) -> bool:
    if h.type is None:
        return True
    names = []
    if isinstance(h.type, ast.Tuple):
        names = [ap(e) for e in h.type.elts]
    else:
        names = [ap(h.type)]
    return any(n and n.split(".")[-1] in CATCH_ALL for n in names)


def handler_names(h: ast.ExceptHandler) -> List[str]:
    if h.type is None:
        return ["*"]
    if isinstance(h.type, ast.Tuple):
        return [(ap(e) or "?").split(".")[-1] for e in h.type.elts]
    return [(ap(h.type) or "?").split(".")[-1]]


def handler_reraises(h: ast.ExceptHandler) -> str:
    """'always' | 'conditional' | 'never' : does the handler body raise?"""
    raises = [n for n in walk(h) if isinstance(n, ast.Raise)]
    if not raises:
        return "never"
    if h.body and isinstance(h.body[-1], ast.Raise):
        return "always"
    if always_exits(h.body) and not any(isinstance(n, (ast.Return, ast.Continue, ast.Break)) for n in walk(h)):
        return "always"
    return "conditional"


def swallowing_try(node: ast.AST, stop=None) -> Optional[ast.Try]:
    """Innermost enclosing try (node in its body) having a catch-all handler that does not
    unconditionally re-raise."""
    for tc in try_contexts(node, stop):
        if tc.section != "body":
            continue
        for h in tc.node.handlers:
            if handler_catches_all(h) and handler_reraises(h) != "always":
                return tc.node
    return None


def in_finally_of(node: ast.AST) -> Optional[ast.Try]:
    for tc in try_contexts(node):
        if tc.section == "final":
            return tc.node
    return None


MUTATORS = {"append", "appendleft", "extend", "extendleft", "insert", "pop", "popleft", "remove",
            "clear", "add", "update", "setdefault", "popitem", "popall", "discard", "sort",
            "reverse", "setlist", "setlistdefault", "poplist"}


@dataclass
class Store:
    path: str          # access path of the stored-to object (for setitem/mutcall: the container)
    kind: str          # 'assign' | 'augassign' | 'setitem' | 'delitem' | 'del' | 'mutcall'
    node: ast.AST      # the statement / call
    target: ast.AST
    method: Optional[str] = None
    value: Optional[ast.AST] = None


def _targets(t) -> Iterator[ast.AST]:
    if isinstance(t, (ast.Tuple, ast.List)):
        for e in t.elts:
            yield from _targets(e)
    elif isinstance(t, ast.Starred):
        yield from _targets(t.value)
    else:
        yield t


def stores(node: ast.AST, into_defs=True) -> List[Store]:
    out: List[Store] = []
    for n in walk(node, into_defs):
        if isinstance(n, ast.Assign):
            for tt in n.targets:
                for t in _targets(tt):
                    _add_store(out, t, n, "assign", n.value)
        elif isinstance(n, ast.AnnAssign) and n.value is not None:
            _add_store(out, n.target, n, "assign", n.value)
        elif isinstance(n, ast.AugAssign):
            _add_store(out, n.target, n, "augassign", n.value)
        elif isinstance(n, ast.Delete):
            for t in n.targets:
                if isinstance(t, ast.Subscript):
                    p = ap(t.value)
                    if p:
                        out.append(Store(p, "delitem", n, t))
                else:
                    p = ap(t)
                    if p:
                        out.append(Store(p, "del", n, t))
        elif isinstance(n, (ast.For, ast.AsyncFor)):
            for t in _targets(n.target):
                _add_store(out, t, n, "assign", None)
        elif isinstance(n, ast.NamedExpr):
            _add_store(out, n.target, n, "assign", n.value)
        elif isinstance(n, ast.Call) and isinstance(n.func, ast.Attribute) and n.func.attr in MUTATORS:
            p = ap(n.func.value)
            if p:
                out.append(Store(p, "mutcall", n, n.func.value, n.func.attr))
    return out


def _add_store(out, t, stmt, kind, value):
    if isinstance(t, ast.Subscript):
        p = ap(t.value)
        if p:
            out.append(Store(p, "setitem" if kind != "augassign" else "augsetitem", stmt, t, None, value))
    else:
        p = ap(t)
        if p:
            out.append(Store(p, kind, stmt, t, None, value))


def names_in(node) -> Set[str]:
    return {n.id for n in ast.walk(node) if isinstance(n, ast.Name)}


def paths_in(node) -> Set[str]:
    out = set()
    for n in ast.walk(node):
        p = ap(n) if isinstance(n, (ast.Name, ast.Attribute)) else None
        if p:
            out.add(p)
    return out


def mentions(node, path: str) -> bool:
    return path in paths_in(node)


def norm(node) -> str:
    """Normalised text of a construct, used in finding keys (never line numbers)."""
    s = src(node)
    s = " ".join(s.split())
    return s if len(s) <= 160 else s[:157] + "..."


def stmt_index(block: Sequence[ast.stmt], stmt: ast.stmt) -> int:
    for i, s in enumerate(block):
        if s is stmt:
            return i
    return -1


def is_none_test(e: ast.AST) -> Optional[Tuple[str, bool]]:
    """`X is None` -> (X, True); `X is not None` -> (X, False)."""
    if isinstance(e, ast.Compare) and len(e.ops) == 1 and isinstance(e.comparators[0], ast.Constant) \
            and e.comparators[0].value is None:
        p = ap(e.left)
        if p and isinstance(e.ops[0], ast.Is):
            return p, True
        if p and isinstance(e.ops[0], ast.IsNot):
            return p, False
    return None
