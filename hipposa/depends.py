"""Cross-property dependencies: a property whose statement cannot hold unless a structural clause decided
for another property holds re-runs that clause under its own rule ids (`Cxx.Xyy.Rn`).

Each row: dependent property -> {foundation property: (rule numbers, one-line reason)}.
Only clauses that are *necessary* for the dependent property are listed.
"""

DEPENDS = {
    "C01": {"C02": (["R2", "R3"], "lazy parse must run before extra/offset change (round trip with extra header bytes); "
                                   "a parse that fails part-way must leave the message decodable again (raw body restored "
                                   "as received, not in a half-decoded form)"),
            "C13": (["R2"], "LLQuaternion variables are decoded through Quaternion.__init__: it must keep the wire components")},
    "C02": {"C01": (["R1", "R2", "R3", "R4", "R5", "R6", "R7", "R8", "R11", "R15", "R19"],
                    "a parsed body is re-encoded through the codec: pass-through fidelity needs codec agreement"),
            "C03": (["R1", "R2"], "canonical zero-coding is what makes re-encoding byte-identical")},
    "C03": {},
    "C04": {"C07": (["R3"], "a finalized message must never be translated twice (stability of the wire id)"),
            "C05": (["R2"], "every ack rewrite must go through the inverse translation (no bypass)")},
    "C05": {"C01": (["R4"], "acks are carried by the header flag / trailer the codec frames"),
            "C07": (["R5"], "no second road to the wire: every emitted datagram went through prepare_message, where ids and acks are translated")},
    "C06": {"C01": (["R1", "R4", "R6", "R7", "R8"], "a datagram that cannot be framed/parsed cannot be forwarded intact; "
                                                    "re-encoded content needs value-preserving pack/unpack pairs"),
            "C03": (["R1", "R2"], "forwarded re-encoded messages are zero-coded by zero_code_compress"),
            "C02": (["R1", "R2"], "forwarded content intact = raw body pass-through, also after a failed parse"),
            "C07": (["R3", "R5", "R10"], "exactly once on the wire; code run for every datagram outside a try must not raise"),
            "C05": (["R8"], "a datagram can only be forwarded on the region's circuit: the reference must not be "
                            "released or replaced while the region is live")},
    "C07": {"C06": (["R4"], "the final forward is guarded by nothing but the addon/validity verdicts"),
            "C19": (["R6"], "one subscriber's (un)subscription must not skip another subscriber"),
            "C05": (["R4"], "the proxy's own bookkeeping includes the resend loop: an addon's injection that failed to go out "
                            "must not stay registered, and one failed retransmission must not end the loop for everyone else")},
    "C08": {"C09": (["R6", "R8"], "round trip in plain-data mode needs the pod flag to reach every delegated decoder; "
                                   "a size query must not see a half-computed cached size")},
    "C09": {"C08": (["R1", "R2", "R3", "R6", "R7", "R8", "R9", "R10", "R11", "R12", "R13", "R14", "R15", "R16"], "subfield serializers are built from the combinators"),
            "C10": (["R1", "R2", "R3", "R4", "R5"], "quantised members of subfield templates"),
            "C11": (["R7"], "a packed value that switches on a sibling needs that sibling in place when it is encoded")},
    "C10": {},
    "C11": {"C09": (["R2", "R4", "R5", "R6", "R7"], "beautified text goes through the subfield serializers (pod form)"),
            "C10": (["R1", "R3", "R4"], "pretty-printed quantised / fixed-point subfields must re-encode exactly")},
    "C12": {"C18": (["R6", "R12"], "LLSDMessageSerializer ends in Message.from_dict / to_dict: key agreement; reals are "
                                   "written at full precision by every LLSD formatter")},
    "C13": {"C10": (["R1", "R3"], "packed rotations: the adapter around the quantiser must not compute on the value; the particle-system "
                                  "sections are fixed-point fields whose clamp must enclose the decoded wire range, or the re-encoded "
                                  "payload differs"),
            "C08": (["R1", "R2", "R3", "R6", "R7", "R8", "R9", "R10", "R11", "R12", "R13", "R14", "R15", "R16"], "both decoders share the combinator sub-templates")},
    "C14": {"C13": (["R1", "R2"], "the tracker consumes the hand-written compressed decoder"),
            "C07": (["R2"], "handlers run under Event.notify's isolation")},
    "C15": {"C07": (["R8"], "a stale taking subscriber on http_message_handler take()s flows that nobody resumes"),
            "C16": (["R7"], "a flow returning from the HTTP proxy process must get its region/session re-attached")},
    "C16": {},
    "C17": {"C12": (["R1"], "event-queue messages are decoded by LLSDMessageSerializer (no aliasing / stale memo)")},
    "C18": {"C12": (["R1"], "logged EQ events are decoded by LLSDMessageSerializer without mutating the retained event"),
            "C01": (["R15"], "a frozen / thawed or exported entry is a deferred message: its body must still parse when asked")},
    "C19": {"C01": (["R4", "R6", "R8", "R19"], "a packet whose header cannot be parsed is neither acked nor delivered; a PacketAck "
                                                "whose (zero-coded) body is misread completes the wrong sends or none"),
            "C07": (["R2"], "delivery to each subscriber needs Event.notify's isolation")},
    "C20": {"C08": (["R1", "R2", "R3", "R8", "R9", "R10", "R11", "R12", "R13", "R14", "R15", "R16"], "mesh and animation codecs are built from the combinators"),
            "C12": (["R2", "R3", "R5", "R6", "R7"], "inventory LLSD flavours go through the LLSD codecs"),
            "C10": (["R1"], "v1.0 animation key frames are quantised (PackedQuat(Vector3U16), QuantizedTime): an adapter around the "
                            "quantiser that computes on the value moves codes the parser produced, parse -> serialise is no longer stable"),
            "C01": (["R16"], "animation key-frame rotations are written through PackedQuat -> Quaternion.data(3): W is dropped, so "
                             "the sign of X, Y, Z must be normalised or a key frame with W < 0 parses back as another rotation")},
}
