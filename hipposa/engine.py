"""hipposa.engine - rule context, findings, known-findings, evidence, driver."""
from __future__ import annotations

import importlib
import json
import os
import sys
import time
import traceback
from dataclasses import dataclass, field, asdict
from typing import Any, Callable, Dict, List, Optional

from .core import AnalysisError, Repo, FuncInfo, Module

VERIF = os.path.dirname(os.path.dirname(os.path.abspath(__file__)))
PROPS = [f"C{i:02d}" for i in range(1, 21)]


@dataclass
class Obligation:
    rule: str
    instance: str       # construct key (qualified function + normalised construct / table row)
    ok: bool
    where: str          # file:line (diagnostic only - never part of the key)
    msg: str = ""
    path: Optional[List[str]] = None   # for path rules

    @property
    def key(self):
        return f"{self.rule}|{self.instance}"


class Ctx:
    def __init__(self, prop: str, repo: Repo, tier: str):
        self.prop = prop
        self.repo = repo
        self.tier = tier
        self.obligations: List[Obligation] = []
        self.notes: List[str] = []
        self.assumptions: List[str] = []
        self.stats: Dict[str, Any] = {}
        self.rules_desc: Dict[str, str] = {}
        self._seen_keys = set()
        self.level = "other"
        self.extra_cov: Dict[str, Any] = {}

    def rule(self, rid: str, desc: str):
        self.rules_desc[rid] = desc

    def ob(self, rule: str, instance: str, ok: bool, where: str = "", msg: str = "", path=None):
        o = Obligation(rule, instance, bool(ok), where, msg, path)
        # de-duplicate identical keys (keep the failing one)
        if o.key in self._seen_keys:
            for i, old in enumerate(self.obligations):
                if old.key == o.key:
                    if old.ok and not o.ok:
                        self.obligations[i] = o
                    return
        self._seen_keys.add(o.key)
        self.obligations.append(o)

    def note(self, msg: str):
        self.notes.append(msg)

    def assume(self, msg: str):
        if msg not in self.assumptions:
            self.assumptions.append(msg)

    def floor(self, rule: str, what: str, count: int, minimum: int):
        """Fail closed when a rule matched fewer instances than confirmed by hand."""
        self.stats[f"{rule}.{what}"] = count
        if count < minimum:
            raise AnalysisError(f"{rule}: found {count} {what}, expected at least {minimum} "
                                f"(rule would pass vacuously)")

    def require(self, cond, msg: str):
        if not cond:
            raise AnalysisError(msg)

    def fn(self, qual: str, module: Optional[str] = None) -> FuncInfo:
        return self.repo.fn(qual, module)

    def w(self, fi_or_mod, node) -> str:
        mod = fi_or_mod.module if isinstance(fi_or_mod, FuncInfo) else fi_or_mod
        return f"{mod.rel}:{getattr(node, 'lineno', 0)}"


class RenamedCtx:
    """View of a Ctx that re-emits another property's rule under this property's rule id
    (properties that depend on the same structural clause re-run the rule under their own keys)."""

    def __init__(self, ctx: Ctx, mapping: Dict[str, str], only: Optional[str] = None):
        self._ctx = ctx
        self._map = mapping
        self._only = only

    def _rid(self, rid):
        return self._map.get(rid, rid)

    def rule(self, rid, desc):
        self._ctx.rule(self._rid(rid), desc)

    def ob(self, rule, instance, ok, where="", msg="", path=None):
        self._ctx.ob(self._rid(rule), instance, ok, where, msg, path)

    def floor(self, rule, what, count, minimum):
        self._ctx.floor(self._rid(rule), what, count, minimum)

    def __getattr__(self, name):
        return getattr(self._ctx, name)


def load_known() -> Dict[str, Any]:
    p = os.path.join(VERIF, "known_findings.json")
    if not os.path.exists(p):
        return {"known": [], "fixed": []}
    with open(p) as f:
        return json.load(f)


class DependCtx(RenamedCtx):
    """Re-emits selected rules of a foundation property under `<prop>.X<nn>.<Rn>`; drops the others."""

    def __init__(self, ctx: Ctx, prop: str, dep: str, rules):
        super().__init__(ctx, {})
        self._prop, self._dep, self._rules = prop, dep, set(rules)

    def _rid(self, rid):
        head, _, rest = rid.partition(".")
        if head == self._dep and rest.split(".")[0] in self._rules:
            return f"{self._prop}.X{self._dep[1:]}.{rest}"
        return None

    def rule(self, rid, desc):
        r = self._rid(rid)
        if r:
            self._ctx.rule(r, f"[necessary clause of {self._dep}] " + desc)

    def ob(self, rule, instance, ok, where="", msg="", path=None):
        r = self._rid(rule)
        if r:
            self._ctx.ob(r, instance, ok, where, msg, path)

    def floor(self, rule, what, count, minimum):
        if count < minimum:
            raise AnalysisError(f"{rule} (run for {self._prop}): found {count} {what}, expected at least {minimum}")

    def note(self, msg):
        pass

    def assume(self, msg):
        pass

    def __setattr__(self, name, value):
        object.__setattr__(self, name, value)


def run_rules(prop: str, repo: Repo, tier: str, with_deps: bool = True) -> Ctx:
    mod = importlib.import_module(f"hipposa.rules.{prop.lower()}")
    ctx = Ctx(prop, repo, tier)
    mod.run(ctx)
    from .rules.purity_scope import run_purity, run_struct
    run_purity(ctx)
    run_struct(ctx)
    if with_deps:
        from .depends import DEPENDS
        for dep, (rules, why) in DEPENDS.get(prop, {}).items():
            dmod = importlib.import_module(f"hipposa.rules.{dep.lower()}")
            dctx = DependCtx(ctx, prop, dep, rules)
            # call the selected rule functions directly when the module exposes them as rN(ctx), so that an
            # analysis error in an unselected rule of the foundation property does not fail this property
            import inspect
            fns = []
            for r in rules:
                f = getattr(dmod, r.lower(), None)
                if f is None:
                    fns = None
                    break
                req = [p for p in inspect.signature(f).parameters.values()
                       if p.default is inspect.Parameter.empty and p.kind in (p.POSITIONAL_ONLY, p.POSITIONAL_OR_KEYWORD)]
                if len(req) != 1:
                    fns = None
                    break
                fns.append(f)
            try:
                if fns:
                    for f in fns:
                        f(dctx)
                else:
                    dmod.run(dctx)
            except AnalysisError as e:
                # a violation already established by the property's own rules stands; otherwise fail closed
                if any(not o.ok for o in ctx.obligations):
                    ctx.note(f"dependency clause {dep} {'/'.join(rules)} could not be analysed on this tree: {e}")
                else:
                    raise
            ctx.assume(f"depends on {dep} {'/'.join(rules)}: {why}")
    if not ctx.obligations:
        raise AnalysisError(f"{prop}: no obligations generated (vacuous)")
    return ctx


def make_repo(root: str, tier: str, overlay=None) -> Repo:
    return Repo(root, ("hippolyzer",), overlay=overlay)


def failing_keys(ctx: Ctx) -> List[str]:
    return [o.key for o in ctx.obligations if not o.ok]


def main(argv=None):
    import argparse
    ap_ = argparse.ArgumentParser(prog="check")
    ap_.add_argument("prop")
    ap_.add_argument("--tier", default=os.environ.get("VERIF_TIER", "quick"), choices=["quick", "thorough"])
    ap_.add_argument("--replay", default=None)
    ap_.add_argument("--repo", default=os.environ.get("REPO", "/repo"))
    ap_.add_argument("--no-evidence", action="store_true")
    ap_.add_argument("--no-selftest", action="store_true")
    ap_.add_argument("-v", "--verbose", action="store_true")
    args = ap_.parse_args(argv)
    prop = args.prop.upper()
    t0 = time.time()
    seed = int(os.environ.get("VERIF_SEED", "0") or 0)
    try:
        if prop not in PROPS:
            raise AnalysisError(f"unknown property {prop}")
        repo = make_repo(args.repo, args.tier)
        ctx = run_rules(prop, repo, args.tier)
        selftest = None
        if args.tier == "thorough" and not args.no_selftest and not args.replay:
            from . import selftest as st
            selftest = st.run_selftest(prop, args.repo, ctx)
    except AnalysisError as e:
        print(f"ANALYSIS-ERROR property={prop}: {e}")
        return 2
    except Exception:
        print(f"ANALYSIS-ERROR property={prop}: internal error")
        traceback.print_exc()
        return 2

    known = load_known()
    known_keys = {k["key"]: k for k in known.get("known", []) if k.get("property") == prop}
    # a known finding of a foundation property is the same finding when re-run as a dependency clause
    import re as _re
    for k in known.get("known", []):
        m = _re.match(r"(C\d+)\.(.*)", k["key"])
        if m and m.group(1) != prop:
            known_keys.setdefault(f"{prop}.X{m.group(1)[1:]}.{m.group(2)}", k)
    failing = [o for o in ctx.obligations if not o.ok]
    if args.replay:
        with open(args.replay) as f:
            rp = json.load(f)
        failing = [o for o in failing if o.key == rp.get("key")]
        print(f"replay of {rp.get('key')}: {'still violated' if failing else 'not reproduced on the current tree'}")
    new = [o for o in failing if o.key not in known_keys]
    listed = [o for o in failing if o.key in known_keys]

    for rid, desc in ctx.rules_desc.items():
        n = sum(1 for o in ctx.obligations if o.rule == rid)
        bad = sum(1 for o in ctx.obligations if o.rule == rid and not o.ok)
        print(f"  rule {rid}: {n} instances, {bad} failing - {desc}")
    if args.verbose:
        for o in ctx.obligations:
            print(f"    [{'ok' if o.ok else 'FAIL'}] {o.where} {o.rule} {o.instance} {o.msg}")
    for n in ctx.notes:
        print(f"  NOTE: {n}")
    for o in listed:
        print(f"KNOWN-FINDING: property={prop} {o.where} {o.rule} {o.instance}: {known_keys[o.key].get('what', o.msg)}")
    rc = 0
    replay_dir = os.path.join(VERIF, "evidence", "replay")
    for i, o in enumerate(new):
        os.makedirs(replay_dir, exist_ok=True)
        rp = os.path.join(replay_dir, f"{prop}-{i}.json")
        with open(rp, "w") as f:
            json.dump({"property": prop, "key": o.key, "rule": o.rule, "instance": o.instance,
                       "where": o.where, "message": o.msg, "path": o.path}, f, indent=1)
        print(f"{o.where}  {o.rule}  {o.instance}  {o.msg}")
        if o.path:
            print("    path: " + " -> ".join(o.path))
        print(f"VIOLATION property={prop} replay={rp}")
        rc = 1
    if selftest is not None:
        print(f"  self-test: {selftest['fired']}/{selftest['breaking']} breaking variants reported, "
              f"{selftest['silent']}/{selftest['preserving']} preserving variants silent, "
              f"{selftest['skipped']} inapplicable on this tree")
        for fl in selftest["failures"]:
            print(f"  SELF-TEST-{'WARNING (tree differs from the validated one)' if selftest.get('tree_modified') else 'FAILURE'}: {fl}")
        if selftest["failures"] and rc == 0 and not selftest.get("tree_modified"):
            print(f"ANALYSIS-ERROR property={prop}: checker self-test failed")
            rc = 2

    if not args.no_evidence and not args.replay:
        write_evidence(prop, args.tier, seed, ctx, time.time() - t0, len(new), selftest, listed)
    print(f"{prop}: {len(ctx.obligations)} obligations, {len(ctx.obligations) - len(failing)} discharged, "
          f"{len(listed)} known finding(s), {len(new)} violation(s) [{args.tier}, {time.time() - t0:.2f}s]")
    return rc


def write_evidence(prop, tier, seed, ctx: Ctx, wall, nviol, selftest, listed):
    level = ctx.level
    obs = ctx.obligations
    distinct = len({o.key for o in obs})
    samples = [{"rule": o.rule, "instance": o.instance, "where": o.where,
                "verdict": "ok" if o.ok else "FAIL", **({"msg": o.msg} if o.msg else {})}
               for o in (obs[:25] + [o for o in obs[25:] if not o.ok][:15])]
    evaluations = len(obs) + (selftest["breaking"] + selftest["preserving"] if selftest else 0)
    repo = ctx.repo
    cov = {
        "explanation": ("static analysis of the current /repo tree (AST, class hierarchy, statement CFG with "
                        "exception edges, constant tables); decides necessary structural clauses only, not "
                        "value-level behaviour. Rules: " + "; ".join(f"{k}: {v}" for k, v in ctx.rules_desc.items())),
        "obligations": len(obs),
        "discharged": sum(1 for o in obs if o.ok),
        "evaluations": evaluations,
        "distinct_nontrivial": distinct,
        "rule": "one obligation per rule instance discovered in the source (function, call site, table row, "
                "CFG path query); distinct = distinct (rule, construct key); non-trivial = matched a real "
                "construct in the tree",
        "samples": samples,
        "files": len(repo.modules),
        "functions_analysed": len(repo.all_funcs),
        "stats": ctx.stats,
        "notes": ctx.notes[:40],
        "known_findings_reported": [o.key for o in listed],
        "exhaustive": True,
    }
    cov.update(ctx.extra_cov)
    if selftest is not None:
        cov["selftest"] = {k: v for k, v in selftest.items() if k != "details"}
        cov["selftest_details"] = selftest.get("details", [])[:80]
    ev = {
        "property_id": prop, "tier": tier, "seed": seed, "level": level,
        "coverage": cov,
        "assumptions": ctx.assumptions + [
            "CPython ast semantics; class-hierarchy call resolution with by-name fallback",
            "anchor/owner tables frozen in hipposa/rules (DESIGN.md Appendix A)"],
        "wall_s": round(wall, 3),
        "violations": nviol,
    }
    d = os.path.join(VERIF, "evidence")
    os.makedirs(d, exist_ok=True)
    tmp = os.path.join(d, f".{prop}.json.tmp")
    with open(tmp, "w") as f:
        json.dump(ev, f, indent=1, default=str)
    os.replace(tmp, os.path.join(d, f"{prop}.json"))
