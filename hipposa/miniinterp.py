"""hipposa.miniinterp - finite-domain partial evaluator for small method bodies.

Executes a statement list over an environment of *constants* (ConstEval values) by case
analysis on the AST: if/elif/else with decidable tests, assignments to local names, return,
raise.  Any construct it cannot decide raises AnalysisError (never a guess).  This is
exhaustive evaluation over an enumerated finite domain, not symbolic execution.
"""
from __future__ import annotations

import ast
from typing import Any, Dict, List, Optional, Tuple

from .consteval import CallVal, ConstEval, Sym
from .core import AnalysisError, ap, match_as_if, src


class Outcome:
    def __init__(self, kind: str, value=None, node=None):
        self.kind = kind      # 'return' | 'raise' | 'fallthrough'
        self.value = value
        self.node = node


def run_block(ev: ConstEval, stmts: List[ast.stmt], env: Dict[str, Any],
              ignore_calls=("debug", "info", "warning", "error", "exception", "log")) -> Outcome:
    for st in stmts:
        if isinstance(st, ast.Match):
            st = match_as_if(st) or st
        if isinstance(st, ast.If):
            t = ev.ev(st.test, env)
            if isinstance(t, (Sym, CallVal)):
                raise AnalysisError(f"mini-interpreter: undecidable test `{src(st.test)}` (line {st.lineno})")
            out = run_block(ev, st.body if t else st.orelse, env, ignore_calls)
            if out.kind != "fallthrough":
                return out
        elif isinstance(st, ast.For) and not st.orelse:
            seq = ev.ev(st.iter, env)
            if isinstance(seq, (dict, type({}.items()), type({}.keys()), type({}.values()))):
                seq = list(seq)
            if not isinstance(seq, (tuple, list, bytes, str)) or isinstance(seq, (Sym, CallVal)):
                raise AnalysisError(f"mini-interpreter: loop over a non-constant sequence `{src(st.iter)}` (line {st.lineno})")
            broke = False
            for item in seq:
                if isinstance(st.target, ast.Name):
                    env[st.target.id] = item
                elif isinstance(st.target, ast.Tuple) and isinstance(item, (tuple, list)) and len(item) == len(st.target.elts):
                    for t_, v_ in zip(st.target.elts, item):
                        env[ap(t_)] = v_
                else:
                    raise AnalysisError(f"mini-interpreter: unsupported loop target `{src(st.target)}`")
                out = run_block(ev, st.body, env, ignore_calls)
                if out.kind == "break":
                    broke = True
                    break
                if out.kind in ("return", "raise"):
                    return out
            del broke
        elif isinstance(st, ast.Break):
            return Outcome("break", None, st)
        elif isinstance(st, ast.Continue):
            return Outcome("continue", None, st)
        elif isinstance(st, ast.Assign) and len(st.targets) == 1:
            tgt = st.targets[0]
            if isinstance(tgt, (ast.Name, ast.Attribute)):
                env[ap(tgt)] = ev.ev(st.value, env)
            elif isinstance(tgt, ast.Tuple) and isinstance(st.value, ast.Tuple) and len(tgt.elts) == len(st.value.elts):
                vals = [ev.ev(v, env) for v in st.value.elts]
                for t_, v_ in zip(tgt.elts, vals):
                    env[ap(t_)] = v_
            elif isinstance(tgt, ast.Tuple) and isinstance(ev.ev(st.value, env), (tuple, list)) and \
                    len(ev.ev(st.value, env)) == len(tgt.elts) and all(ap(t_) for t_ in tgt.elts):
                for t_, v_ in zip(tgt.elts, ev.ev(st.value, env)):
                    env[ap(t_)] = v_
            elif isinstance(tgt, ast.Subscript) and ap(tgt.value) in env and isinstance(env[ap(tgt.value)], (dict, list)):
                # item store into a local container the function built itself (functional update: no aliasing modelled)
                key = ev.ev(tgt.slice, env)
                val = ev.ev(st.value, env)
                cont = env[ap(tgt.value)]
                if isinstance(key, (Sym, CallVal)):
                    raise AnalysisError(f"mini-interpreter: item store under a non-constant key `{src(st)}`")
                if isinstance(cont, dict):
                    cont = dict(cont)
                    cont[key] = val
                else:
                    cont = list(cont)
                    cont[key] = val
                env[ap(tgt.value)] = cont
            else:
                raise AnalysisError(f"mini-interpreter: unsupported assignment `{src(st)}`")
        elif isinstance(st, ast.AnnAssign) and st.value is not None and isinstance(st.target, (ast.Name, ast.Attribute)) \
                and ap(st.target):
            env[ap(st.target)] = ev.ev(st.value, env)
        elif isinstance(st, ast.AnnAssign) and st.value is None:
            continue
        elif isinstance(st, ast.AugAssign) and isinstance(st.target, ast.Name):
            fake = ast.BinOp(left=ast.Name(id=st.target.id, ctx=ast.Load()), op=st.op, right=st.value)
            env[st.target.id] = ev.ev(fake, env)
        elif isinstance(st, ast.Return):
            return Outcome("return", ev.ev(st.value, env) if st.value is not None else None, st)
        elif isinstance(st, ast.Raise):
            return Outcome("raise", None, st)
        elif isinstance(st, ast.Expr):
            v = st.value
            if isinstance(v, ast.Constant):
                continue
            if isinstance(v, ast.Call) and (ap(v.func) or "").split(".")[-1] in ignore_calls:
                continue
            if isinstance(v, ast.Call) and getattr(ev, "call_hook", None) is not None:
                # an effect the caller's hook models (it folds the call to a constant and records the effect)
                r_ = ev.ev(v, env)
                if not isinstance(r_, (Sym, CallVal)):
                    continue
            raise AnalysisError(f"mini-interpreter: unsupported expression statement `{src(st)}`")
        elif isinstance(st, ast.Pass):
            continue
        else:
            raise AnalysisError(f"mini-interpreter: unsupported statement {type(st).__name__} (line {st.lineno})")
    return Outcome("fallthrough")
