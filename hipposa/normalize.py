"""hipposa.normalize - semantics-preserving desugaring of function bodies into the statement forms the rules read.

The rules decide properties from the *shape* of code (which branch stores what, which path passes through which call).
Python offers several spellings of one shape; so that a rule written against the plain spelling also reads the others,
every parsed module is rewritten once, in place, before indexing:

  N1  `match` whose patterns are values / None / bare classes / or-patterns / a trailing wildcard / a bare capture
      -> the equivalent if/elif/else chain (subject bound once when it is not a plain access path)
  N2  a statement whose value is a conditional expression (`x = a if c else b`, `return a if c else b`, `x += ...`)
      -> if c: x = a / else: x = b            (function bodies only; module/class level tables stay as written)
  N3  an assignment expression that is evaluated first in an `if` test (`if (m := f(x)) is None:`)
      -> `m = f(x)` followed by `if m is None:`        (also for `elif`, inside the else-branch)
  N4  `with helper(args):` where helper is a `@contextmanager` generator function of the same module / class with a
      single top-level-of-its-try `yield` -> the helper's body with the with-block in place of the yield
      (parameters substituted or bound to fresh locals, the helper's locals renamed apart)
  N5  `with contextlib.suppress(E): body` -> try: body / except E: pass

Each rewrite keeps the original nodes (and their line numbers) for everything it does not have to synthesise, is local
to one module (a module's normal form depends on its own source only, so parse caching stays valid) and is idempotent.
Constructs outside these forms are left exactly as written; rules that cannot read them fail closed as before.
"""
from __future__ import annotations

import ast
import copy
from typing import Dict, List, Optional, Tuple

FUNC = (ast.FunctionDef, ast.AsyncFunctionDef)


def _pure_path(e) -> bool:
    while isinstance(e, ast.Attribute):
        e = e.value
    return isinstance(e, ast.Name)


def _loc(new, old):
    ast.copy_location(new, old)
    for n in ast.walk(new):
        if not hasattr(n, "lineno") and isinstance(n, (ast.expr, ast.stmt)):
            ast.copy_location(n, old)
    return new


# ------------------------------------------------------------------------------------------------ N1
def _pattern_test(subject, pat) -> Optional[ast.expr]:
    s = lambda: copy.deepcopy(subject)
    if isinstance(pat, ast.MatchValue):
        return ast.Compare(left=s(), ops=[ast.Eq()], comparators=[pat.value])
    if isinstance(pat, ast.MatchSingleton):
        return ast.Compare(left=s(), ops=[ast.Is()], comparators=[ast.Constant(value=pat.value)])
    if isinstance(pat, ast.MatchClass) and not pat.patterns and not pat.kwd_patterns:
        return ast.Call(func=ast.Name(id="isinstance", ctx=ast.Load()), args=[s(), pat.cls], keywords=[])
    if isinstance(pat, ast.MatchOr):
        parts = [_pattern_test(subject, x) for x in pat.patterns]
        if all(x is not None for x in parts):
            # isinstance(x, A) or isinstance(x, B) -> isinstance(x, (A, B)) reads like the hand-written form
            if all(isinstance(x, ast.Call) for x in parts):
                return ast.Call(func=ast.Name(id="isinstance", ctx=ast.Load()),
                                args=[s(), ast.Tuple(elts=[x.args[1] for x in parts], ctx=ast.Load())], keywords=[])
            return ast.BoolOp(op=ast.Or(), values=parts)
    return None


def _match_to_if(m: ast.Match, counter: List[int]) -> Optional[List[ast.stmt]]:
    pre: List[ast.stmt] = []
    subject = m.subject
    if not _pure_path(subject):
        counter[0] += 1
        name = f"__match_subject_{counter[0]}"
        pre.append(_loc(ast.Assign(targets=[ast.Name(id=name, ctx=ast.Store())], value=subject), m))
        subject = ast.Name(id=name, ctx=ast.Load())
    chain: List[Tuple[Optional[ast.expr], List[ast.stmt], List[ast.stmt]]] = []   # test, bindings, body
    for c in m.cases:
        bind: List[ast.stmt] = []
        pat = c.pattern
        if isinstance(pat, ast.MatchAs) and pat.pattern is None:
            # wildcard `_` or bare capture `name`
            if pat.name is not None:
                bind.append(_loc(ast.Assign(targets=[ast.Name(id=pat.name, ctx=ast.Store())], value=copy.deepcopy(subject)), c.pattern))
            chain.append((c.guard, bind, c.body))
            if c.guard is None:
                break
            continue
        if isinstance(pat, ast.MatchAs) and pat.pattern is not None and pat.name is not None:
            return None     # `case X() as y`: binding depends on the test, keep the match
        t = _pattern_test(subject, pat)
        if t is None:
            return None
        if c.guard is not None:
            t = ast.BoolOp(op=ast.And(), values=[t, c.guard])
        chain.append((t, bind, c.body))
    tail: List[ast.stmt] = []
    for t, bind, body in reversed(chain):
        if t is None:
            tail = bind + list(body)
        else:
            tail = bind + [_loc(ast.If(test=t, body=list(body), orelse=tail), m)]
    if not tail:
        return None
    return pre + tail


# ------------------------------------------------------------------------------------------------ N3
def _leftmost_walrus(test) -> Optional[Tuple[ast.AST, str, ast.NamedExpr]]:
    """(parent node, field / index description, NamedExpr) of a walrus that is evaluated before anything else in test"""
    def rec(parent, field, idx, node):
        if isinstance(node, ast.NamedExpr):
            return parent, field, idx, node
        if isinstance(node, ast.UnaryOp):
            return rec(node, "operand", None, node.operand)
        if isinstance(node, ast.Compare):
            return rec(node, "left", None, node.left)
        if isinstance(node, ast.BoolOp):
            return rec(node, "values", 0, node.values[0])
        if isinstance(node, ast.Call) and isinstance(node.func, ast.Name) and node.args and not isinstance(node.args[0], ast.Starred):
            return rec(node, "args", 0, node.args[0])
        if isinstance(node, ast.Attribute):
            return rec(node, "value", None, node.value)
        if isinstance(node, ast.Subscript):
            return rec(node, "value", None, node.value)
        return None
    return rec(None, None, None, test)


def _hoist_walrus(st: ast.If) -> List[ast.stmt]:
    pre: List[ast.stmt] = []
    for _ in range(8):
        hit = _leftmost_walrus(st.test)
        if hit is None:
            break
        parent, field, idx, we = hit
        if not isinstance(we.target, ast.Name):
            break
        pre.append(_loc(ast.Assign(targets=[ast.Name(id=we.target.id, ctx=ast.Store())], value=we.value), we))
        repl = _loc(ast.Name(id=we.target.id, ctx=ast.Load()), we)
        if parent is None:
            st.test = repl
        elif idx is None:
            setattr(parent, field, repl)
        else:
            getattr(parent, field)[idx] = repl
    return pre + [st]


# ------------------------------------------------------------------------------------------------ N2
def _split_ifexp(st: ast.stmt) -> Optional[ast.If]:
    v = getattr(st, "value", None)
    if not isinstance(v, ast.IfExp):
        return None
    if isinstance(st, ast.Assign) and any(not isinstance(t, (ast.Name, ast.Attribute, ast.Subscript, ast.Tuple, ast.List)) for t in st.targets):
        return None
    a, b = copy.copy(st), copy.copy(st)
    if isinstance(st, (ast.Assign, ast.AugAssign, ast.AnnAssign)):
        # the second copy needs its own target nodes (one parent per node)
        b = copy.deepcopy(st)
        b.value = v.orelse
        a.value = v.body
    else:
        a.value, b.value = v.body, v.orelse
    return _loc(ast.If(test=v.test, body=[a], orelse=[b]), st)


# ------------------------------------------------------------------------------------------------ N4 / N5
def _is_cm_deco(d) -> bool:
    t = ast.unparse(d)
    return t in ("contextmanager", "contextlib.contextmanager")


class _Rename(ast.NodeTransformer):
    def __init__(self, mapping: Dict[str, ast.expr]):
        self.mapping = mapping

    def visit_Name(self, node):
        r = self.mapping.get(node.id)
        if r is None:
            return node
        if isinstance(r, str):
            return ast.copy_location(ast.Name(id=r, ctx=node.ctx), node)
        if isinstance(node.ctx, ast.Load):
            return ast.copy_location(copy.deepcopy(r), node)
        return node


def _yield_stmts(fn) -> List[ast.stmt]:
    out = []
    for n in ast.walk(fn):
        if isinstance(n, ast.Expr) and isinstance(n.value, ast.Yield):
            out.append(n)
        elif isinstance(n, (ast.Yield, ast.YieldFrom)) and not any(isinstance(p, ast.Expr) and p.value is n for p in ast.walk(fn)):
            return []        # a yield used as an expression: not the plain context-manager form
    return out


def _has_escape(body: List[ast.stmt]) -> bool:
    def rec(stmts, in_loop):
        for s in stmts:
            if isinstance(s, ast.Return):
                return True
            if isinstance(s, (ast.Break, ast.Continue)) and not in_loop:
                return True
            if isinstance(s, FUNC + (ast.ClassDef,)):
                continue
            for f in ("body", "orelse", "finalbody"):
                sub = getattr(s, f, None)
                if isinstance(sub, list) and sub and isinstance(sub[0], ast.stmt):
                    if rec(sub, in_loop or (f == "body" and isinstance(s, (ast.For, ast.While, ast.AsyncFor)))):
                        return True
            for h in getattr(s, "handlers", []) or []:
                if rec(h.body, in_loop):
                    return True
            for c in getattr(s, "cases", []) or []:
                if rec(c.body, in_loop):
                    return True
        return False
    return rec(body, False)


def _yield_is_tail(fn, y) -> bool:
    """nothing of the helper runs after the yield on normal completion except finally/else-less try exits"""
    def rec(stmts) -> Optional[bool]:
        for i, s in enumerate(stmts):
            if s is y:
                return i == len(stmts) - 1
            if isinstance(s, ast.Try):
                r = rec(s.body)
                if r is not None:
                    return r and not s.orelse and i == len(stmts) - 1
            if isinstance(s, (ast.With,)):
                r = rec(s.body)
                if r is not None:
                    return r and i == len(stmts) - 1
        return None
    return bool(rec(fn.body))


def _locals_of(fn) -> List[str]:
    names = []
    for n in ast.walk(fn):
        if isinstance(n, ast.Name) and isinstance(n.ctx, (ast.Store, ast.Del)) and n.id not in names:
            names.append(n.id)
        elif isinstance(n, ast.ExceptHandler) and n.name and n.name not in names:
            names.append(n.name)
    return names


def _inline_with(w: ast.With, helper, recv: Optional[ast.expr], counter: List[int]) -> Optional[List[ast.stmt]]:
    if len(w.items) != 1 or any(isinstance(n, FUNC + (ast.Lambda, ast.ClassDef)) for n in ast.walk(helper) if n is not helper):
        return None
    ys = _yield_stmts(helper)
    if len(ys) != 1:
        return None
    y = ys[0]
    # the yield must not sit in a loop / conditional / handler
    def path_ok(stmts) -> Optional[bool]:
        for s in stmts:
            if s is y:
                return True
            if isinstance(s, ast.Try):
                r = path_ok(s.body)
                if r is not None:
                    return r
                for blk in [h.body for h in s.handlers] + [s.orelse, s.finalbody]:
                    if any(n is y for b in blk for n in ast.walk(b)):
                        return False
            elif isinstance(s, ast.With):
                r = path_ok(s.body)
                if r is not None:
                    return r
            elif any(n is y for n in ast.walk(s)):
                return False
        return None
    if not path_ok(helper.body):
        return None
    if any(isinstance(n, ast.Return) and n.value is not None for n in ast.walk(helper)):
        return None
    if _has_escape(w.body) and not _yield_is_tail(helper, y):
        return None
    call = w.items[0].context_expr
    a = helper.args
    if a.vararg or a.kwarg or a.kwonlyargs or any(isinstance(x, ast.Starred) for x in call.args) or any(k.arg is None for k in call.keywords):
        return None
    params = [p.arg for p in a.posonlyargs + a.args]
    is_static = any(ast.unparse(d) == "staticmethod" for d in helper.decorator_list)
    binding: Dict[str, ast.expr] = {}
    if recv is not None and not is_static:
        if not params:
            return None
        binding[params[0]] = recv
        params = params[1:]
    if len(call.args) > len(params):
        return None
    for p, v in zip(params, call.args):
        binding[p] = v
    for k in call.keywords:
        if k.arg not in params or k.arg in binding:
            return None
        binding[k.arg] = k.value
    defaults = dict(zip([p.arg for p in (a.posonlyargs + a.args)][-len(a.defaults):] if a.defaults else [], a.defaults))
    for p in params:
        if p not in binding:
            if p not in defaults:
                return None
            binding[p] = defaults[p]
    counter[0] += 1
    tag = f"__cm{counter[0]}_"
    body = copy.deepcopy(helper.body)
    y2 = None
    for orig, cp in zip(ast.walk(ast.Module(body=helper.body, type_ignores=[])), ast.walk(ast.Module(body=body, type_ignores=[]))):
        if orig is y:
            y2 = cp
    if y2 is None:
        return None
    stored = set(_locals_of(helper))
    mapping: Dict[str, object] = {}
    pre: List[ast.stmt] = []
    for p, v in binding.items():
        simple = isinstance(v, ast.Constant) or _pure_path(v)
        if simple and p not in stored:
            mapping[p] = v
        else:
            mapping[p] = tag + p
            pre.append(_loc(ast.Assign(targets=[ast.Name(id=tag + p, ctx=ast.Store())], value=v), w))
    for n in stored:
        if n not in mapping:
            mapping[n] = tag + n
    # splice the with-body in place of the yield
    inner: List[ast.stmt] = []
    if w.items[0].optional_vars is not None:
        val = y.value.value if y.value.value is not None else ast.Constant(value=None)
        inner.append(_loc(ast.Assign(targets=[w.items[0].optional_vars], value=_Rename(mapping).visit(copy.deepcopy(val))), w))

    def splice(stmts: List[ast.stmt]) -> bool:
        for i, s in enumerate(stmts):
            if s is y2:
                stmts[i:i + 1] = [_MARK]
                return True
            for f in ("body", "orelse", "finalbody"):
                sub = getattr(s, f, None)
                if isinstance(sub, list) and splice(sub):
                    return True
        return False
    if not splice(body):
        return None
    renamed = [_Rename(mapping).visit(s) for s in body]
    # drop a leading docstring
    if renamed and isinstance(renamed[0], ast.Expr) and isinstance(renamed[0].value, ast.Constant) and isinstance(renamed[0].value.value, str):
        renamed = renamed[1:]

    def unmark(stmts: List[ast.stmt]) -> bool:
        for i, s in enumerate(stmts):
            if s is _MARK:
                stmts[i:i + 1] = inner + list(w.body)
                return True
            for f in ("body", "orelse", "finalbody"):
                sub = getattr(s, f, None)
                if isinstance(sub, list) and unmark(sub):
                    return True
        return False
    if not unmark(renamed):
        return None
    out = pre + renamed
    for s in out:
        _loc(s, w) if not hasattr(s, "lineno") else None
        ast.fix_missing_locations(s)
    return out


_MARK = ast.Pass()


# ------------------------------------------------------------------------------------------------ driver
class _Normalizer:
    def __init__(self, tree: ast.Module):
        self.tree = tree
        self.counter = [0]
        self.mod_cms: Dict[str, ast.AST] = {}
        self.cls_cms: Dict[Tuple[str, str], ast.AST] = {}
        for n in tree.body:
            if isinstance(n, FUNC) and any(_is_cm_deco(d) for d in n.decorator_list):
                self.mod_cms[n.name] = n
            elif isinstance(n, ast.ClassDef):
                for m in n.body:
                    if isinstance(m, FUNC) and any(_is_cm_deco(d) for d in m.decorator_list):
                        self.cls_cms[(n.name, m.name)] = m

    def run(self):
        self.inlined = set()
        self._visit_body(self.tree.body, None, False)
        # a private helper whose every use in the module was inlined no longer exists in the normal form (its
        # statements now live in its callers); a helper that is still referenced anywhere stays
        if self.inlined:
            refs = {n.id for n in ast.walk(self.tree) if isinstance(n, ast.Name)} | \
                   {n.attr for n in ast.walk(self.tree) if isinstance(n, ast.Attribute)}
            def prune(body):
                body[:] = [st for st in body if not (isinstance(st, FUNC) and id(st) in self.inlined
                                                     and st.name.startswith("_") and not st.name.startswith("__")
                                                     and st.name not in refs)]
                for st in body:
                    if isinstance(st, ast.ClassDef):
                        prune(st.body)
            prune(self.tree.body)

    def _visit_body(self, stmts: List[ast.stmt], cls: Optional[str], in_fn: bool):
        i = 0
        while i < len(stmts):
            st = stmts[i]
            repl: Optional[List[ast.stmt]] = None
            if isinstance(st, ast.ClassDef):
                self._visit_body(st.body, st.name, False)
            elif isinstance(st, FUNC):
                self._visit_body(st.body, cls, True)
            elif in_fn and isinstance(st, ast.Match):
                repl = _match_to_if(st, self.counter)
            elif in_fn and isinstance(st, (ast.Assign, ast.AugAssign, ast.AnnAssign, ast.Return)) and \
                    isinstance(getattr(st, "value", None), ast.IfExp):
                r = _split_ifexp(st)
                repl = [r] if r is not None else None
            elif in_fn and isinstance(st, ast.If) and _leftmost_walrus(st.test) is not None:
                r = _hoist_walrus(st)
                repl = r if len(r) > 1 else None
            elif in_fn and isinstance(st, ast.With):
                repl = self._with(st, cls)
            if repl is not None:
                stmts[i:i + 1] = repl
                continue            # re-visit what was produced (nested forms)
            for f in ("body", "orelse", "finalbody"):
                sub = getattr(st, f, None)
                if isinstance(sub, list) and sub and isinstance(sub[0], ast.stmt) and not isinstance(st, (ast.ClassDef,) + FUNC):
                    self._visit_body(sub, cls, in_fn)
            for h in getattr(st, "handlers", []) or []:
                self._visit_body(h.body, cls, in_fn)
            for c in getattr(st, "cases", []) or []:
                self._visit_body(c.body, cls, in_fn)
            i += 1

    def _with(self, w: ast.With, cls: Optional[str]) -> Optional[List[ast.stmt]]:
        if len(w.items) != 1:
            return None
        ce = w.items[0].context_expr
        if not isinstance(ce, ast.Call):
            return None
        fn = ast.unparse(ce.func)
        if fn in ("contextlib.suppress", "suppress") and ce.args and not ce.keywords and w.items[0].optional_vars is None:
            typ = ce.args[0] if len(ce.args) == 1 else ast.Tuple(elts=list(ce.args), ctx=ast.Load())
            h = ast.ExceptHandler(type=typ, name=None, body=[_loc(ast.Pass(), w)])
            return [_loc(ast.Try(body=list(w.body), handlers=[_loc(h, w)], orelse=[], finalbody=[]), w)]
        helper = recv = None
        if isinstance(ce.func, ast.Name) and ce.func.id in self.mod_cms:
            helper = self.mod_cms[ce.func.id]
        elif isinstance(ce.func, ast.Attribute) and isinstance(ce.func.value, ast.Name) and cls is not None and \
                ce.func.value.id in ("self", "cls", cls) and (cls, ce.func.attr) in self.cls_cms:
            helper = self.cls_cms[(cls, ce.func.attr)]
            recv = ce.func.value if ce.func.value.id != cls else None
            if recv is None and not any(ast.unparse(d) == "staticmethod" for d in helper.decorator_list):
                return None
        if helper is None:
            return None
        r = _inline_with(w, helper, recv, self.counter)
        if r is not None:
            self.inlined.add(id(helper))
        return r


def normalize_tree(tree: ast.Module) -> ast.Module:
    if getattr(tree, "_hsa_normalized", False):
        return tree
    _Normalizer(tree).run()
    ast.fix_missing_locations(tree)
    tree._hsa_normalized = True
    return tree
