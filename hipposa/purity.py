"""hipposa.purity - purity lints shared by the codec / translation properties.

A codec or translation function (`decode(bytes) -> value`, `serialize(value) -> bytes`, id translation ...) must be
a function of its inputs and of the state its class declares.  Three structural ways to break that, each a
necessary-condition violation for "decoding what was encoded gives an equal, independent value":

  memo-mutable     functools.lru_cache / cache (decorator or call) around a function whose result can be a
                   mutable object: two decodes of equal bytes alias one object
  shared-scratch   a module- or class-level mutable object (bytearray/list/dict/set/BufferWriter...) that a
                   function both mutates and hands out / relies on being empty: results of successive calls
                   alias each other, and an exception between fill and reset poisons later calls
  stale-memo       an instance-level memo table (`self.T[k] = v` + lookup) whose key omits an input of the
                   computation, or whose value depends on instance state that other methods mutate without
                   invalidating the table

Registries filled at import time by decorators (functions that return a nested function or are used as
decorators) are not scratch state.
"""
from __future__ import annotations

import ast
from typing import Dict, Iterable, List, Optional, Set, Tuple

from .core import (FUNC_TYPES, FuncInfo, Module, Repo, ap, calls, call_attr, norm, paths_in, src, stores, walk,
                   try_contexts, MUTATORS as MUTATORS_, Store as Store_)

IMMUTABLE_CTORS = {"int", "float", "str", "bytes", "bool", "tuple", "frozenset", "complex", "UUID", "len", "sum",
                   "min", "max", "abs", "round", "ord", "chr", "repr", "hash", "Decimal"}
MUTABLE_LITERAL = (ast.List, ast.Dict, ast.Set, ast.ListComp, ast.DictComp, ast.SetComp)
MUTABLE_CTORS = {"list", "dict", "set", "bytearray", "deque", "defaultdict", "OrderedDict", "BufferWriter",
                 "MultiDict", "OrderedMultiDict", "array", "BytesIO", "StringIO"}
CACHE_NAMES = {"lru_cache", "cache", "cached_property", "memoize", "memoized"}


def _is_cache_expr(node) -> bool:
    p = ap(node.func if isinstance(node, ast.Call) else node) or ""
    return p.split(".")[-1].replace("()", "") in CACHE_NAMES


def _may_be_mutable(repo: Repo, mod: Module, fn_node) -> Tuple[bool, str]:
    """Can the function return a mutable object?  (True, witness) unless every return is provably immutable."""
    rets = [r for r in walk(fn_node) if isinstance(r, ast.Return) and r.value is not None]
    if isinstance(fn_node, ast.Lambda):
        rets = [ast.Return(value=fn_node.body)]
    if not rets:
        return False, ""
    for r in rets:
        v = r.value
        if isinstance(v, ast.Constant):
            continue
        if isinstance(v, (ast.Compare, ast.BoolOp)) and not isinstance(v, ast.BoolOp):
            continue
        if isinstance(v, ast.JoinedStr):
            continue
        if isinstance(v, ast.Call):
            name = (ap(v.func) or "").split(".")[-1]
            if name in IMMUTABLE_CTORS:
                continue
            ci = repo.resolve_class((ap(v.func) or ""), mod)
            if ci is not None:
                # enums are immutable singletons
                from .consteval import is_enum_class
                if is_enum_class(repo, ci):
                    continue
                return True, f"returns a new {ci.name} object"
            return True, f"returns `{norm(v)}` (not provably immutable)"
        if isinstance(v, MUTABLE_LITERAL):
            return True, f"returns `{norm(v)}`"
        if isinstance(v, ast.Tuple):
            continue
        return True, f"returns `{norm(v)}` (not provably immutable)"
    return False, ""


def _handed_to_wrapper(mod: Module, cache_call, pname: str):
    """[(call, argument)] for every call in the module of the module-level function that contains `cache_call` and has
    `pname` as a parameter; None when there is no such function or it is passed around as a value."""
    owner = None
    for f in mod.tree.body:
        if isinstance(f, FUNC_TYPES) and any(x is cache_call for x in ast.walk(f)):
            owner = f
    if owner is None:
        return None
    params = [x.arg for x in owner.args.posonlyargs + owner.args.args]
    if pname not in params or owner.args.vararg or owner.args.kwarg:
        return None
    i = params.index(pname)
    out = []
    for n in ast.walk(mod.tree):
        if isinstance(n, ast.Name) and n.id == owner.name and isinstance(n.ctx, ast.Load):
            out.append(n)
    calls_ = [c for c in ast.walk(mod.tree) if isinstance(c, ast.Call) and isinstance(c.func, ast.Name) and c.func.id == owner.name]
    if len(calls_) != len(out) or not calls_:
        return None     # used as a value somewhere (or never): cannot enumerate what it wraps
    res = []
    for c in calls_:
        arg = next((k.value for k in c.keywords if k.arg == pname), c.args[i] if i < len(c.args) else None)
        if arg is None:
            return None
        res.append((c, arg))
    return res


def memo_findings(repo: Repo, rels: Iterable[str]) -> List[Tuple[Module, ast.AST, str, str]]:
    """(module, node, key, message) for caches around functions that may return mutable objects."""
    out = []
    for rel in rels:
        mod = repo.modules.get(rel)
        if mod is None:
            continue
        defs: Dict[str, ast.AST] = {}
        for n in ast.walk(mod.tree):
            if isinstance(n, FUNC_TYPES):
                defs.setdefault(n.name, n)
        for n in ast.walk(mod.tree):
            if isinstance(n, FUNC_TYPES):
                for d in n.decorator_list:
                    if _is_cache_expr(d):
                        mut, why = _may_be_mutable(repo, mod, n)
                        if mut:
                            out.append((mod, n, f"{n.name}: cached ({norm(d)})", f"memoised function {why}: equal inputs "
                                        f"share one mutable result"))
            elif isinstance(n, ast.Call) and isinstance(n.func, ast.Call) and _is_cache_expr(n.func) and n.args:
                target = n.args[0]
                fn_node = target if isinstance(target, ast.Lambda) else defs.get(ap(target) or "")
                if fn_node is None and isinstance(target, ast.Attribute):
                    fn_node = defs.get(target.attr)
                if fn_node is None and isinstance(target, ast.Name):
                    # the cached callable is a parameter of a wrapper: decide each callable the module hands to it
                    handed = _handed_to_wrapper(mod, n, target.id)
                    if handed is not None:
                        for call, arg in handed:
                            f2 = arg if isinstance(arg, ast.Lambda) else defs.get(ap(arg) or "")
                            if f2 is None:
                                out.append((mod, call, f"cache around {norm(arg)}", "memoised callable is not analysable"))
                                continue
                            mut, why = _may_be_mutable(repo, mod, f2)
                            if mut:
                                out.append((mod, call, f"cache around {norm(arg)}", f"memoised function {why}: equal inputs "
                                            f"share one mutable result"))
                        continue
                if fn_node is None:
                    out.append((mod, n, f"cache around {norm(target)}", "memoised callable is not analysable"))
                    continue
                mut, why = _may_be_mutable(repo, mod, fn_node)
                if mut:
                    out.append((mod, n, f"cache around {norm(target)}", f"memoised function {why}: equal inputs share one "
                                f"mutable result"))
            elif isinstance(n, ast.Call) and _is_cache_expr(n) and n.args and not isinstance(n.func, ast.Call) \
                    and (ap(n.func) or "").split(".")[-1] == "cache":
                target = n.args[0]
                fn_node = target if isinstance(target, ast.Lambda) else defs.get(ap(target) or "")
                if fn_node is not None:
                    mut, why = _may_be_mutable(repo, mod, fn_node)
                    if mut:
                        out.append((mod, n, f"cache around {norm(target)}", f"memoised function {why}"))
    return out


def _module_mutables(mod: Module) -> Dict[str, ast.AST]:
    """module-level names bound to a mutable object"""
    out = {}
    for st in mod.tree.body:
        tgt, val = None, None
        if isinstance(st, ast.Assign) and len(st.targets) == 1 and isinstance(st.targets[0], ast.Name):
            tgt, val = st.targets[0].id, st.value
        elif isinstance(st, ast.AnnAssign) and isinstance(st.target, ast.Name) and st.value is not None:
            tgt, val = st.target.id, st.value
        if tgt and _is_mutable_ctor(val):
            out[tgt] = val
    return out


def _class_mutables(cls_node: ast.ClassDef) -> Dict[str, ast.AST]:
    out = {}
    for st in cls_node.body:
        tgt, val = None, None
        if isinstance(st, ast.Assign) and len(st.targets) == 1 and isinstance(st.targets[0], ast.Name):
            tgt, val = st.targets[0].id, st.value
        elif isinstance(st, ast.AnnAssign) and isinstance(st.target, ast.Name) and st.value is not None:
            tgt, val = st.target.id, st.value
        if tgt and _is_mutable_ctor(val):
            out[tgt] = val
    return out


def _is_mutable_ctor(val) -> bool:
    if isinstance(val, MUTABLE_LITERAL):
        return True
    if isinstance(val, ast.Call):
        return (ap(val.func) or "").split(".")[-1] in MUTABLE_CTORS
    return False


def _is_registration_fn(fn_node) -> bool:
    """decorator factories / registration helpers: return a nested function, or are tiny setters used at import"""
    for r in walk(fn_node):
        if isinstance(r, ast.Return) and isinstance(r.value, ast.Name):
            if any(isinstance(d, FUNC_TYPES) and d.name == r.value.id for d in walk(fn_node) if d is not fn_node):
                return True
    return False


def scratch_findings(repo: Repo, rels: Iterable[str]) -> List[Tuple[Module, ast.AST, str, str]]:
    """Functions that mutate a module/class-level mutable object AND (return it / clear it) - scratch buffers."""
    out = []
    for rel in rels:
        mod = repo.modules.get(rel)
        if mod is None:
            continue
        mm = _module_mutables(mod)
        for fi in repo.all_funcs:
            if fi.module is not mod or fi.parent_fn is not None:
                continue
            if _is_registration_fn(fi.node):
                continue
            cm = _class_mutables(fi.cls.node) if fi.cls is not None else {}
            # instance attributes assigned in __init__ shadow class-level ones: not shared
            inst_assigned = set()
            if fi.cls is not None:
                for m in fi.cls.methods.values():
                    for st in stores(m.node):
                        if st.kind == "assign" and st.path.startswith("self."):
                            inst_assigned.add(st.path[5:])
            muts = {}
            locs = _locals(fi.node)

            def shared_of(path):
                if path is None:
                    return None
                root = path.split("[")[0].replace("()", "")
                if root.endswith(".get"):
                    root = root[:-4]
                if root in mm and root not in locs:
                    return root
                if fi.cls is not None:
                    for pre in ("cls.", "self.", fi.cls.name + "."):
                        if root.startswith(pre) and root[len(pre):] in cm and root[len(pre):] not in inst_assigned:
                            return root
                return None
            # local aliases of a shared object (or of an element fetched from a shared container)
            aliases = {}
            for st in stores(fi.node, into_defs=False):
                if st.kind == "assign" and st.value is not None and "." not in st.path and "[" not in st.path:
                    sh = shared_of(ap(st.value))
                    if sh:
                        aliases[st.path] = sh
            for st in stores(fi.node, into_defs=True):
                if st.kind not in ("mutcall", "setitem", "augsetitem", "delitem"):
                    continue
                shared = shared_of(st.path) or aliases.get(st.path.split("[")[0])
                if shared:
                    muts.setdefault(shared, []).append(st)
            # any non-pure method call through an alias mutates the shared object (writers, buffers)
            for c in calls(fi.node, into_defs=True):
                if isinstance(c.func, ast.Attribute) and isinstance(c.func.value, ast.Name) and c.func.value.id in aliases \
                        and c.func.attr not in PURE_METHODS and c.func.attr not in MUTATORS_:
                    muts.setdefault(aliases[c.func.value.id], []).append(
                        Store_(aliases[c.func.value.id], "mutcall", c, c.func.value, c.func.attr))
            ret_alias = {a for a in aliases}
            for shared, sts in muts.items():
                methods = {s.method for s in sts if s.method}
                resets = methods & {"clear"}
                names_for = {shared} | {a for a, sh in aliases.items() if sh == shared}
                def hands_out(v) -> bool:
                    """the returned value IS the shared object (or an attribute / element / collection holding it),
                    not the result of calling something on it"""
                    if isinstance(v, (ast.Tuple, ast.List, ast.Set)):
                        return any(hands_out(e) for e in v.elts)
                    if isinstance(v, ast.Dict):
                        return any(hands_out(e) for e in v.values if e is not None)
                    if isinstance(v, ast.IfExp):
                        return hands_out(v.body) or hands_out(v.orelse)
                    if isinstance(v, ast.Starred):
                        return hands_out(v.value)
                    p_ = ap(v)
                    while p_ is None and isinstance(v, ast.Subscript):
                        v = v.value
                        p_ = ap(v)
                    if not p_ or "(" in p_ or isinstance(v, ast.Call):
                        return False        # the result of a call on it is a new value, not the object itself
                    return any(p_ == nm or p_.startswith(nm + ".") for nm in names_for)
                returned = any(isinstance(r, ast.Return) and r.value is not None and hands_out(r.value)
                               and not any(_copied(r.value, nm) for nm in names_for) for r in walk(fi.node))
                fills = methods - {"clear", "pop", "remove", "discard", "popitem"} or \
                    any(s.kind in ("setitem", "augsetitem") for s in sts)
                if fills and (resets or returned):
                    why = []
                    if returned:
                        why.append("returns the shared object itself (successive results alias)")
                    if resets:
                        in_finally = all(any(tc.section == "final" for tc in try_contexts(s.node, fi.node))
                                         for s in sts if s.method == "clear")
                        at_start = any(s.method == "clear" and s.node.lineno <= min(x.node.lineno for x in sts)
                                       for s in sts)
                        if not in_finally and not at_start:
                            why.append("is reset only on the normal path (an exception leaves stale content)")
                        elif not returned:
                            continue
                    if why:
                        out.append((mod, sts[0].node, f"{fi.qual}: shared scratch {shared}",
                                    f"module/class-level mutable `{shared}` is filled per call and " + "; ".join(why)))
    return out


def _locals(fn_node) -> Set[str]:
    out = {a.arg for a in fn_node.args.args + fn_node.args.kwonlyargs}
    if fn_node.args.vararg:
        out.add(fn_node.args.vararg.arg)
    if fn_node.args.kwarg:
        out.add(fn_node.args.kwarg.arg)
    globals_ = set()
    for n in walk(fn_node):
        if isinstance(n, (ast.Global, ast.Nonlocal)):
            globals_.update(n.names)
    for st in stores(fn_node, into_defs=False):
        if st.kind == "assign" and "." not in st.path and "[" not in st.path:
            out.add(st.path)
    return out - globals_


def _copied(expr, shared) -> bool:
    """`bytes(X)`, `X.copy()`, `list(X)`, `X[:]` ... : the returned value is a copy"""
    for n in ast.walk(expr):
        if isinstance(n, ast.Call):
            name = (ap(n.func) or "")
            if name.split(".")[-1] in ("bytes", "list", "dict", "tuple", "bytearray", "copy", "deepcopy", "copy_buffer") \
                    and (shared in paths_in(n)):
                return True
        if isinstance(n, ast.Subscript) and ap(n.value) == shared and isinstance(n.slice, ast.Slice):
            return True
    return False


def _value_deps(fn_node, expr, depth=0) -> Set[str]:
    """names a value expression depends on, expanding locals through their assignments"""
    out: Set[str] = set()
    if expr is None or depth > 8:
        return out
    for n in ast.walk(expr):
        if isinstance(n, ast.Name):
            out.add(n.id)
    more: Set[str] = set()
    for name in list(out):
        for st in stores(fn_node, into_defs=False):
            if st.path == name and st.kind == "assign" and st.value is not None and st.value is not expr:
                more |= _value_deps(fn_node, st.value, depth + 1)
    return out | more


PURE_METHODS = {"get", "copy", "copy_buffer", "keys", "items", "values", "index", "count", "decode", "hex", "startswith",
                "endswith", "find", "tell", "getvalue", "join", "format", "encode", "__len__", "read", "peek"}


def _inputs_of(m_node, at_node) -> Set[str]:
    """per-call inputs visible at `at_node`: parameters plus enclosing loop / comprehension targets"""
    ins = {a.arg for a in m_node.args.args + m_node.args.kwonlyargs if a.arg not in ("self", "cls")}
    from .core import ancestors
    for anc in ancestors(at_node):
        if anc is m_node:
            break
        if isinstance(anc, (ast.For, ast.AsyncFor)):
            ins |= {n.id for n in ast.walk(anc.target) if isinstance(n, ast.Name)}
        if isinstance(anc, (ast.ListComp, ast.SetComp, ast.DictComp, ast.GeneratorExp)):
            for g in anc.generators:
                ins |= {n.id for n in ast.walk(g.target) if isinstance(n, ast.Name)}
    return ins


def _whole_names(expr) -> Set[str]:
    """names used as whole objects in expr (a name used only through `.attr` is a projection)"""
    if expr is None:
        return set()
    names = {n.id for n in ast.walk(expr) if isinstance(n, ast.Name)}
    proj_only = set()
    for name in names:
        uses = [n for n in ast.walk(expr) if isinstance(n, ast.Name) and n.id == name]
        attr_uses = [n for n in ast.walk(expr) if isinstance(n, ast.Attribute) and isinstance(n.value, ast.Name)
                     and n.value.id == name]
        if uses and len(attr_uses) == len(uses):
            proj_only.add(name)
    return names - proj_only


def memo_table_findings(repo: Repo, classes: Iterable[str]) -> List[Tuple[FuncInfo, ast.AST, str, str]]:
    """Instance-level memoisation `self.T[k] = v` / `self.T = v` that the same method also reads back
    (lookup-then-store).  (1) The key must mention, as whole objects, every per-call input the stored value
    depends on; a slot without a key must not depend on per-call inputs at all.  (2) Every other method that
    mutates instance state the memoised computation reads must invalidate the memo on every path that
    performs the mutation (CFG)."""
    from .cfg import CFG
    from .core import facts
    out = []
    for cname in classes:
        for ci in repo.classes.get(cname, []):
            for m in ci.methods.values():
                if m.name in ("__init__", "clear", "reset"):
                    continue
                for st in stores(m.node, into_defs=False):
                    if not st.path.startswith("self.") or not isinstance(st.node, (ast.Assign, ast.AnnAssign)):
                        continue
                    if st.kind == "setitem":
                        table, key = st.path, st.target.slice if isinstance(st.target, ast.Subscript) else None
                    elif st.kind == "assign" and st.path.count(".") == 1:
                        table, key = st.path, None
                    else:
                        continue
                    attr = table[5:]
                    stored = st.value
                    if stored is None or isinstance(stored, ast.Constant):
                        continue
                    # read back in the same method: lookup feeding a return / a local that is used, under a miss test
                    lookups = [n for n in walk(m.node) if
                               (isinstance(n, ast.Subscript) and ap(n.value) == table and isinstance(n.ctx, ast.Load)) or
                               (isinstance(n, ast.Call) and ap(n.func) == table + ".get") or
                               (key is None and isinstance(n, ast.Attribute) and ap(n) == table and isinstance(n.ctx, ast.Load)
                                and not any(n is t for t in ast.walk(st.node.targets[0] if isinstance(st.node, ast.Assign) else st.node.target)))]
                    if not lookups:
                        continue
                    # the store must be conditional on a miss (a None / membership / equality test about the table or
                    # about a local read from it); an unconditional `self.x = ...` is plain state update, not a memo
                    lookup_locals = {s.path for s in stores(m.node, into_defs=False) if s.kind == "assign" and s.value is not None
                                     and any(n in list(ast.walk(s.value)) for n in lookups)}
                    guarded = False
                    for e, pol in facts(st.node, m.node):
                        names = paths_in(e)
                        if table in names or any(t.startswith(table) for t in names) or (names & lookup_locals):
                            guarded = True
                    if key is None:
                        # single slot: only the classic forms `if self.T is None: self.T = ...` /
                        # `if self.T[i] == x: return self.T[j]` count as a memo, never a plain state update
                        from .core import is_none_test
                        guarded = False
                        for e, pol in facts(st.node, m.node):
                            nt = is_none_test(e)
                            if nt and nt[0] == table and nt[1] == pol:
                                guarded = True
                            elif ap(e) == table and pol is False:
                                guarded = True
                            elif isinstance(e, ast.Compare) and any(isinstance(x, ast.Subscript) and ap(x.value) == table
                                                                    for x in ast.walk(e)):
                                guarded = True
                    if not guarded:
                        continue
                    # a memo also has a *hit*: the looked-up value is handed out (returned), or the stored value is the
                    # very local that was read from the table and re-bound on a miss
                    rets = [r for r in walk(m.node) if isinstance(r, ast.Return) and r.value is not None]

                    def from_table(e):
                        return any(n in lookups or (isinstance(n, ast.Name) and n.id in lookup_locals) for n in ast.walk(e))
                    hit = any(from_table(r.value) for r in rets) or \
                        (isinstance(stored, ast.Name) and stored.id in lookup_locals) or \
                        (key is None and len(lookups) >= 2) or \
                        (key is not None and any(isinstance(n, ast.Name) and n.id in lookup_locals and isinstance(n.ctx, ast.Load)
                                                 and not isinstance(getattr(n, "_parent", None), ast.Compare)
                                                 for n in walk(m.node)))   # ... or used in place (iterated, called)
                    if not hit:
                        continue
                    inputs = _inputs_of(m.node, st.node)
                    deps = _value_deps(m.node, stored) & inputs
                    if key is not None:
                        whole = _whole_names(key)
                        # expand locals used in the key transitively (key = (val, limit); limit = f(ctx))
                        frontier = {n.id for n in ast.walk(key) if isinstance(n, ast.Name)}
                        seen_l = set()
                        while frontier:
                            nm = frontier.pop()
                            if nm in seen_l:
                                continue
                            seen_l.add(nm)
                            for s2 in stores(m.node, into_defs=False):
                                if s2.kind == "assign" and s2.value is not None and s2.path == nm:
                                    whole |= _whole_names(s2.value)
                                    frontier |= {n.id for n in ast.walk(s2.value) if isinstance(n, ast.Name)} - seen_l
                        missing = sorted(d for d in deps if d not in whole)
                        if missing:
                            out.append((m, st.node, f"{ci.name}.{m.name}: memo self.{attr} keyed by every input of the cached value",
                                        f"memo key `{norm(key)}` omits / only projects input(s) {missing} that the cached value depends on"))
                    elif deps:
                        out.append((m, st.node, f"{ci.name}.{m.name}: cached self.{attr} does not depend on per-call inputs",
                                    f"self.{attr} is computed once from per-call input(s) {sorted(deps)} and reused for later calls "
                                    f"with other inputs"))
                    # staleness: other methods mutating state the computation reads
                    # what the memoised computation reads: the method's own body and the same-class helpers it calls
                    comp_nodes = [m.node]
                    seen_h = {m.name}
                    frontier_h = [m.node]
                    while frontier_h and len(comp_nodes) < 6:
                        cur_h = frontier_h.pop()
                        for c_ in walk(cur_h):
                            if isinstance(c_, ast.Call) and isinstance(c_.func, ast.Attribute) and isinstance(c_.func.value, ast.Name) \
                                    and c_.func.value.id == "self" and c_.func.attr in ci.methods and c_.func.attr not in seen_h:
                                seen_h.add(c_.func.attr)
                                comp_nodes.append(ci.methods[c_.func.attr].node)
                                frontier_h.append(ci.methods[c_.func.attr].node)
                    body_reads = {p_[5:].split(".")[0].split("[")[0].replace("()", "") for cn in comp_nodes for p_ in paths_in(cn)
                                  if p_.startswith("self.")} - {attr} - seen_h
                    # parts of the source the cached value depends on beyond the entry for its own key: a read under a
                    # constant key or of the whole container.  Then a writer of the source must drop the WHOLE memo.
                    wide_reads = set()
                    if key is not None:
                        for cn in comp_nodes:
                            for n_ in walk(cn):
                                src_path, k_ = None, None
                                if isinstance(n_, ast.Subscript) and isinstance(n_.ctx, ast.Load):
                                    src_path, k_ = ap(n_.value), n_.slice
                                elif isinstance(n_, ast.Call) and isinstance(n_.func, ast.Attribute) and n_.func.attr == "get" and n_.args:
                                    src_path, k_ = ap(n_.func.value), n_.args[0]
                                elif isinstance(n_, ast.Call) and isinstance(n_.func, ast.Attribute) and n_.func.attr in ("values", "items", "keys"):
                                    src_path, k_ = ap(n_.func.value), ast.Constant(value="*all*")
                                elif isinstance(n_, (ast.For, ast.comprehension)) and (ap(n_.iter) or "").startswith("self."):
                                    src_path, k_ = ap(n_.iter), ast.Constant(value="*all*")
                                if src_path and src_path.startswith("self.") and src_path != table and isinstance(k_, ast.Constant):
                                    wide_reads.add(src_path[5:].split(".")[0])
                    for other in ci.methods.values():
                        if other is m or other.name == "__init__":
                            continue
                        o_stores = [s for s in stores(other.node) if s.path.startswith("self.")]
                        muts = [s for s in o_stores if s.path[5:].split(".")[0].split("[")[0] in body_reads]
                        if not muts:
                            continue
                        invs = [s for s in o_stores if s.path == table or s.path.startswith(table + ".") or s.path.startswith(table + "[")]
                        bad = None
                        if not invs:
                            bad = muts[0]
                        else:
                            try:
                                cfg = CFG(other.node)
                                inv_nodes = {n for s in invs for n in cfg.stmt_nodes_containing(s.node)} | \
                                            {n for s in invs for n in cfg.nodes_for(s.node)}
                                for mu in muts:
                                    mnodes = set(cfg.stmt_nodes_containing(mu.node)) | set(cfg.nodes_for(mu.node))
                                    for mn in mnodes:
                                        if mn in inv_nodes:
                                            continue
                                        before = mn in cfg.reachable([cfg.entry], avoid=lambda n: n in inv_nodes, exc=False)
                                        after = cfg.exit in cfg.reachable([mn], avoid=lambda n: n in inv_nodes, exc=False)
                                        if before and after:
                                            bad = mu
                            except Exception:
                                bad = None
                        if bad is None and invs and wide_reads & {s.path[5:].split(".")[0].split("[")[0] for s in muts}:
                            whole = [s for s in invs if (s.kind == "mutcall" and s.method == "clear" and s.path == table) or
                                     (s.kind == "assign" and s.path == table)]
                            if not whole:
                                out.append((m, st.node, f"{ci.name}.{m.name}: memo self.{attr} dropped as a whole when {other.name} changes "
                                                        f"a source entry every cached value depends on",
                                            f"the cached value for one key also reads self.{sorted(wide_reads)} under a fixed key / as a whole, "
                                            f"but {other.name} only removes single entries of self.{attr} when it changes that source: the "
                                            f"other entries keep answers computed from the old state"))
                        if bad is not None:
                            touched = sorted({s.path[5:].split(".")[0].split("[")[0] for s in muts})
                            out.append((m, st.node, f"{ci.name}.{m.name}: memo self.{attr} invalidated whenever {other.name} changes what it depends on",
                                        f"{other.name} mutates self.{touched}, which the memoised computation reads, on a path that does "
                                        f"not invalidate self.{attr}: stale answers"))
    return out


def purity_obligations(ctx, rule_id: str, rels: Iterable[str], classes: Iterable[str] = (), desc: str = ""):
    """Emit the three purity lints as obligations under `rule_id` (one always-present coverage obligation)."""
    repo = ctx.repo
    rels = [r for r in rels if r.endswith(".py")]
    ctx.rule(rule_id, desc or "codec purity: no memoisation of mutable results, no shared module/class-level scratch "
                              "state handed out or left dirty, instance memo tables keyed by every input and "
                              "invalidated by every writer of the state they read")
    found = 0
    for mod, node, key, msg in memo_findings(repo, rels):
        ctx.ob(rule_id, f"no cache of a mutable result: {key}", False, f"{mod.rel}:{getattr(node, 'lineno', 0)}", msg)
        found += 1
    for mod, node, key, msg in scratch_findings(repo, rels):
        ctx.ob(rule_id, f"no shared scratch state: {key}", False, f"{mod.rel}:{getattr(node, 'lineno', 0)}", msg)
        found += 1
    for fi, node, key, msg in memo_table_findings(repo, classes):
        ctx.ob(rule_id, key, False, f"{fi.module.rel}:{getattr(node, 'lineno', 0)}", msg)
        found += 1
    present = [r for r in rels if r in repo.modules]
    ctx.ob(rule_id, f"purity lints ran over {len(present)} module(s)", bool(present), present[0] if present else "",
           "no analysed module present")
    return found
