"""C01 - LLUDP codec: structural agreement of serializer and deserializer (DESIGN.md §4 C01)."""
from __future__ import annotations

import ast
import struct

from ..consteval import CallVal, ConstEval, EnumVal, StructVal, Sym, enum_members, is_const
from ..core import (AnalysisError, conditions, clone_ast, match_as_if, ap, atoms, call_attr, calls, facts, find_calls, kw, norm, src,
                    stores, walk, parent, enclosing_stmt)
from ..miniinterp import run_block
from ..tmplmodel import parse_template
from .common import (alias_path, as_pair, namedtuple_fields, has_path_fact, class_methods_reachable, const_of, fmt_count, loops_over, spec_symbol,
                     struct_fmt_of_prim, has_eq_fact)

SER = "hippolyzer/lib/base/message/udpserializer.py"
DES = "hippolyzer/lib/base/message/udpdeserializer.py"
PACK = "hippolyzer/lib/base/message/data_packer.py"
TYPES = "hippolyzer/lib/base/message/msgtypes.py"
TPARSE = "hippolyzer/lib/base/message/template_parser.py"

# hand-written (unpacker, packer) pairs confirmed by reading to be mutual inverses on the wire domain
INVERSE_IDIOMS = {
    ("bytes", "_pack_string"): None,                       # variable width
    ("UUID(bytes=bytes(_))", "UUID(_).bytes"): 16,
    ("socket.inet_ntoa", "socket.inet_aton"): 4,
}


class _RenameArg(ast.NodeTransformer):
    def __init__(self, name):
        self.name = name

    def visit_Name(self, node):
        if node.id == self.name:
            return ast.copy_location(ast.Name(id="_", ctx=node.ctx), node)
        return node


def component_index(repo, mod, fn_node, expr, spec_names):
    """Which component (0/1) of a spec pair an expression denotes: v[0], spec.unpacker (NamedTuple field), or a
    name bound by unpacking the pair."""
    if isinstance(expr, ast.Subscript) and isinstance(expr.slice, ast.Constant) and isinstance(expr.slice.value, int):
        return expr.slice.value
    if isinstance(expr, ast.Call) and len(expr.args) == 1:
        # operator.itemgetter(i)(v), directly or through a module-level alias
        g = expr.func
        if isinstance(g, ast.Name):
            g = repo.module_assign(mod, g.id) or g
        if isinstance(g, ast.Call) and (ap(g.func) or "").split(".")[-1] == "itemgetter" and len(g.args) == 1 and \
                isinstance(g.args[0], ast.Constant) and isinstance(g.args[0].value, int):
            return g.args[0].value
    if isinstance(expr, ast.Attribute) and isinstance(expr.value, ast.Name):
        # the object may have been re-bound to NamedTupleClass(*spec)
        for st in stores(fn_node, into_defs=False):
            if st.path == expr.value.id and isinstance(st.value, ast.Call):
                fields = namedtuple_fields(repo, mod, ap(st.value.func) or "")
                if fields and expr.attr in fields:
                    return fields.index(expr.attr)
        for ci_list in repo.classes.values():
            for ci in ci_list:
                if ci.module is mod:
                    fields = namedtuple_fields(repo, mod, ci.name)
                    if fields and len(fields) == 2 and expr.attr in fields:
                        return fields.index(expr.attr)
    if isinstance(expr, ast.Name):
        # bound by tuple-unpacking in a for target / comprehension: for k, (u, p) in ... ; for k, v in ...: u, p = v
        for n in ast.walk(fn_node):
            tgt = None
            if isinstance(n, (ast.For, ast.comprehension)):
                tgt = n.target
            elif isinstance(n, ast.Assign) and len(n.targets) == 1 and isinstance(n.targets[0], ast.Tuple):
                tgt = n.targets[0]
            if tgt is None:
                continue
            for t in ast.walk(tgt):
                if isinstance(t, ast.Tuple) and len(t.elts) == 2 and all(isinstance(e, ast.Name) for e in t.elts):
                    names = [e.id for e in t.elts]
                    if expr.id in names and not (set(names) & {"k", "key", "msg_type"} and names.index(expr.id) == 0 and t is tgt and isinstance(n, (ast.For, ast.comprehension)) and False):
                        # skip the (key, value) outer pair of .items()
                        if isinstance(n, (ast.For, ast.comprehension)) and t is tgt:
                            continue
                        return names.index(expr.id)
    return None


def writer_stage(repo, which: str):
    """The writer's per-variable / per-block function, found among the functions reachable from
    UDPMessageSerializer.serialize (own helpers and collaborator objects): the one that calls TemplateDataPacker.pack
    ('var'), resp. the one that walks a template block's `.variables` ('block').  Falls back to the historical names."""
    sf = repo.fn("UDPMessageSerializer.serialize")
    fns = class_methods_reachable(repo, sf, depth=4)
    if which == "var":
        cands = [f for f in fns if any((ap(c.func) or "").endswith("TemplateDataPacker.pack") for c in calls(f.node))]
        legacy = "UDPMessageSerializer._serialize_var"
    else:
        cands = [f for f in fns if any(isinstance(n, ast.For) and (alias_path(f.node, n.iter) or "").endswith(".variables")
                                       for n in walk(f.node))]
        legacy = "UDPMessageSerializer._serialize_block"
    if len(cands) == 1:
        return cands[0]
    return repo.fn(legacy)


def parser_stage(repo, regex_name: str, legacy_name: str):
    """The function that turns a match of MessageTemplateParser.<regex_name> into a template object: the callee that
    _parse_template_file hands the match to (found structurally, so a renamed / moved-out stage function is still
    the anchor); falls back to the historical method name."""
    pc = repo.cls("MessageTemplateParser")
    for f in pc.methods.values():
        matched = set()
        for st in stores(f.node, into_defs=False):
            v = st.value
            if st.kind == "assign" and isinstance(v, ast.Call) and call_attr(v) == "match" and \
                    (ap(v.func) or "").endswith(f"{regex_name}.match"):
                matched.add(st.path)
        if not matched:
            continue
        for c in calls(f.node):
            if any(ap(a) in matched for a in c.args):
                tgt = None
                if isinstance(c.func, ast.Attribute) and isinstance(c.func.value, ast.Name) and c.func.value.id in ("self", "cls"):
                    tgt = repo.lookup_method(pc, c.func.attr)
                elif isinstance(c.func, ast.Name):
                    cands = [g for g in repo.funcs.get(c.func.id, []) if g.cls is None and g.parent_fn is None]
                    cands = [g for g in cands if g.module is pc.module] or cands
                    tgt = cands[0] if len(cands) == 1 else None
                if tgt is not None:
                    return tgt
    return repo.fn(f"MessageTemplateParser.{legacy_name}")


def callable_norm(repo, mod, node) -> str:
    """Normal form of a one-argument callable expression: a lambda, or a name bound to a module-level
    function whose body is a single `return <expr>` (docstring allowed), is reduced to its body with the
    parameter renamed to `_`; anything else to its normalised source."""
    import copy
    if isinstance(node, ast.Lambda) and len(node.args.args) == 1:
        body = _RenameArg(node.args.args[0].arg).visit(clone_ast(node.body))
        return norm(body)
    if isinstance(node, ast.Name):
        cands = [g for g in repo.funcs.get(node.id, []) if g.module is mod and g.cls is None and g.parent_fn is None]
        if len(cands) == 1 and len(cands[0].node.args.args) == 1:
            body = [st for st in cands[0].node.body
                    if not (isinstance(st, ast.Expr) and isinstance(st.value, ast.Constant))]
            if len(body) == 1 and isinstance(body[0], ast.Return) and body[0].value is not None:
                expr = _RenameArg(cands[0].node.args.args[0].arg).visit(clone_ast(body[0].value))
                return norm(expr)
    return norm(node)


def msgtype_tables(ctx):
    repo = ctx.repo
    tmod = repo.module(TYPES)
    members = enum_members(repo, repo.cls("MsgType", TYPES))
    ev = ConstEval(repo, tmod)
    sizes_node = repo.module_assign(tmod, "TYPE_SIZES")
    ctx.require(sizes_node is not None, "TYPE_SIZES vanished from msgtypes.py")
    sizes = ev.ev(sizes_node)
    ctx.require(isinstance(sizes, dict) and all(isinstance(k, EnumVal) for k in sizes),
                "TYPE_SIZES is not a literal MsgType-keyed table")
    return members, {k.name: v for k, v in sizes.items()}


def r1(ctx):
    repo = ctx.repo
    ctx.rule("C01.R1", "type tables total and paired: MsgType = TYPE_SIZES = SPECS keys, template keywords "
                       "covered by the parser, factory pairs share one struct of the tabled width")
    members, sizes = msgtype_tables(ctx)
    ctx.floor("C01.R1", "MsgType members", len(members), 20)
    packer = repo.cls("TemplateDataPacker", PACK)
    specs_node = repo.class_attr(packer, "SPECS")
    ctx.require(isinstance(specs_node, ast.Dict), "TemplateDataPacker.SPECS is not a dict literal")
    pmod = repo.module(PACK)
    ev = ConstEval(repo, pmod)
    spec_rows = {}
    for k, v in zip(specs_node.keys, specs_node.values):
        kv = ev.ev(k)
        ctx.require(isinstance(kv, EnumVal), f"SPECS key {src(k)} is not a MsgType member")
        spec_rows[kv.name] = v
    for m in members:
        ctx.ob("C01.R1", f"TYPE_SIZES has {m}", m in sizes, f"{TYPES}:1", "MsgType member without a size row")
        ctx.ob("C01.R1", f"TemplateDataPacker.SPECS has {m}", m in spec_rows, ctx.w(pmod, specs_node),
               "MsgType member without a pack/unpack pair: such a variable cannot be encoded")
    for m in spec_rows:
        ctx.ob("C01.R1", f"SPECS key {m} is a MsgType member", m in members, ctx.w(pmod, specs_node))

    # parser keyword map: evaluate _start_new_var for every type keyword the template uses (if-chain, dict
    # table or helper - the function is interpreted, not pattern-matched)
    pf = parser_stage(repo, "BLOCK_DATA_RE", "_start_new_var")
    tmpl = parse_template(repo.root, repo.overlay)
    kwmap = {}
    kw_in_template = sorted({v.type for m in tmpl.values() for b in m.blocks for v in b.vars})
    for kwd in kw_in_template:
        pev = ConstEval(repo, pf.module)

        def tsize_hook(base, attr):
            if isinstance(base, EnumVal) and base.cls == "MsgType" and attr == "size":
                return sizes.get(base.name, Sym("NO_SIZE_ROW"))
            return None
        pev.attr_hook = tsize_hook

        def mhook(node, fn, args, kwargs, local, _kwd=kwd):
            # the regex match object: group(1)=name, group(2)=type keyword, group(4)=explicit size
            if fn.endswith(".group") and len(args) == 1 and isinstance(args[0], int):
                return {1: "VarName", 2: _kwd, 3: " 4", 4: "4"}.get(args[0], Sym("group"))
            return None
        pev.call_hook = mhook
        env = {}
        try:
            out = run_block(pev, pf.node.body, env)
        except AnalysisError as e:
            raise AnalysisError(f"C01.R1: cannot evaluate _start_new_var for keyword {kwd!r}: {e}")
        vt = None
        if out.kind == "return" and isinstance(out.value, CallVal):
            vt = next((a for a in out.value.args if isinstance(a, EnumVal)), None)
        if vt is None:
            vt = next((v for v in env.values() if isinstance(v, EnumVal) and v.cls == "MsgType"), None)
        if vt is not None:
            kwmap.setdefault(kwd, set()).add(vt.name)
    ctx.floor("C01.R1", "template messages", len(tmpl), 400)
    used = {}
    nfixed = 0
    for m in tmpl.values():
        for b in m.blocks:
            for v in b.vars:
                used.setdefault(v.type, f"{m.name}.{b.name}.{v.name}")
                if v.type == "Fixed":
                    nfixed += 1
                if v.type in ("Fixed", "Variable"):
                    ok = v.size is not None and v.size > 0
                    if v.type == "Variable":
                        ok = ok and v.size in (1, 2)
                    if not ok:
                        ctx.ob("C01.R1", f"template size of {m.name}.{b.name}.{v.name}", False,
                               "message_template.msg", f"{v.type} variable with size {v.size}")
    ctx.floor("C01.R1", "Fixed variables in template", nfixed, 4)
    for kwd, example in sorted(used.items()):
        tgt = kwmap.get(kwd, set())
        ctx.ob("C01.R1", f"template keyword {kwd} parsed to one MsgType", len(tgt) == 1 and next(iter(tgt)) in members,
               pf.where, f"keyword used by {example} maps to {sorted(tgt)}")
    ctx.floor("C01.R1", "parser keywords", len(kwmap), 18)
    # the template's type keywords denote pairwise different wire types: the keyword -> MsgType map is injective
    by_type = {}
    for kwd, tgt in sorted(kwmap.items()):
        for t_ in tgt:
            by_type.setdefault(t_, []).append(kwd)
    for t_, kws in sorted(by_type.items()):
        ctx.ob("C01.R1", f"MsgType.{t_} is the parse of one template keyword", len(kws) == 1, pf.where,
               f"keywords {kws} are all parsed to MsgType.{t_}: the template distinguishes them (different widths / "
               f"codecs), so variables of one of them are framed and packed as the other")

    # factory rows / idiom rows
    for m, v in spec_rows.items():
        where = ctx.w(pmod, v)
        v = _row_value(repo, pmod, v)
        if isinstance(v, ast.Call) and as_pair(repo, pmod, v) is None:
            fname = ap(v.func)
            ctx.require(fname in ("_make_struct_spec", "_make_tuplecoord_spec"),
                        f"unknown SPECS factory {fname} for {m}: read it and extend C01.R1")
            fmt = None
            for a in v.args:
                val = ev.ev(a)
                if isinstance(val, str):
                    fmt = val
            fmt = fmt or (ev.ev(kw(v, "struct_fmt")) if kw(v, "struct_fmt") is not None else None)
            ctx.require(isinstance(fmt, str), f"SPECS[{m}] format is not a literal")
            lossy = sorted(set(fmt.lstrip("<>!=@")) & set("?cpPnNx"))
            ctx.ob("C01.R1", f"SPECS[{m}] struct codes are value-preserving", not lossy, where,
                   f"format {fmt!r} uses code(s) {lossy}: '?' collapses every non-zero byte to True, pad/native codes do "
                   f"not carry the wire value - not every value of the wire domain survives unpack-then-pack")
            try:
                size = struct.calcsize(fmt)
            except struct.error:
                ctx.ob("C01.R1", f"SPECS[{m}] format valid", False, where, f"bad struct format {fmt!r}")
                continue
            ctx.ob("C01.R1", f"SPECS[{m}] width == TYPE_SIZES[{m}]", size == sizes.get(m), where,
                   f"struct {fmt!r} is {size} bytes, TYPE_SIZES says {sizes.get(m)}: reader consumes the tabled width")
            if fname == "_make_tuplecoord_spec":
                ne = kw(v, "needed_elems")
                n_el = fmt_count(fmt)
                if ne is not None:
                    nev = ev.ev(ne)
                    ctx.ob("C01.R1", f"SPECS[{m}] needed_elems matches format", nev == n_el, where,
                           f"needed_elems={nev} but format {fmt!r} packs {n_el}")
                else:
                    cls_arg = ap(v.args[0]) if v.args else None
                    ci = repo.resolve_class(cls_arg, pmod) if cls_arg else None
                    if ci is not None and "__init__" in ci.methods:
                        npar = len(ci.methods["__init__"].node.args.args) - 1
                        ctx.ob("C01.R1", f"SPECS[{m}] format arity matches {ci.name}", npar == n_el, where,
                               f"{ci.name} has {npar} components, format {fmt!r} packs {n_el}")
        elif as_pair(repo, pmod, v) is not None:
            p0, p1 = (_row_value(repo, pmod, x) for x in as_pair(repo, pmod, v))
            key = (callable_norm(repo, pmod, p0), callable_norm(repo, pmod, p1))
            if key not in INVERSE_IDIOMS:
                raise AnalysisError(f"SPECS[{m}] pair {key} is not in the confirmed inverse-idiom table "
                                    f"(read it, then extend C01.R1.INVERSE_IDIOMS)")
            width = INVERSE_IDIOMS[key]
            if width is not None:
                ctx.ob("C01.R1", f"SPECS[{m}] idiom width == TYPE_SIZES[{m}]", width == sizes.get(m), where)
            else:
                ctx.ob("C01.R1", f"SPECS[{m}] variable-width idiom only on FIXED/VARIABLE", sizes.get(m) == -1, where)
        else:
            raise AnalysisError(f"SPECS[{m}] has unsupported shape {norm(v)}")

    # factories: both directions close over the same struct object
    for fname in ("_make_struct_spec", "_make_tuplecoord_spec"):
        f = repo.fn(fname, PACK)
        rets = [n for n in walk(f.node) if isinstance(n, ast.Return)]
        ctx.require(len(rets) == 1 and as_pair(repo, f.module, rets[0].value) is not None,
                    f"{fname} no longer returns one (unpacker, packer) pair")
        struct_locals = [s.path for s in stores(f.node, into_defs=False)
                         if s.kind == "assign" and isinstance(s.value, ast.Call) and ap(s.value.func) == "struct.Struct"]
        ctx.require(len(struct_locals) == 1, f"{fname}: expected exactly one struct.Struct local")
        sl = struct_locals[0]
        up, pk = as_pair(repo, f.module, rets[0].value)

        def uses(expr, method):
            # local names bound to the struct's bound method (`struct_unpack = struct_obj.unpack`) stand for it
            bound = {f"{sl}.{method}"} | {s_.path for s_ in stores(f.node, into_defs=False) if s_.kind == "assign"
                                          and s_.value is not None and ap(s_.value) == f"{sl}.{method}"}
            # direct mention, or a nested def (by name) all of whose returns use struct_obj.<method>
            if isinstance(expr, ast.Name):
                if expr.id in bound:
                    return True
                defs = [d for d in walk(f.node) if isinstance(d, ast.FunctionDef) and d.name == expr.id]
                if defs:
                    return all(any(ap(c.func) in bound for c in calls(d)) for d in defs)
                # a local bound (on every branch) to a callable expression
                vals = [s_.value for s_ in stores(f.node, into_defs=False) if s_.path == expr.id and s_.kind == "assign"
                        and s_.value is not None]
                if vals:
                    return all(uses(v, method) for v in vals)
            # a callable object: Cls(.., struct_obj, ..) whose __init__ keeps the struct in an attribute that
            # __call__ (own or inherited) uses
            if isinstance(expr, ast.Call) and (ap(expr.func) or ""):
                kci = repo.resolve_class(ap(expr.func), f.module)
                if kci is not None and repo.lookup_method(kci, "__call__") is not None:
                    init = repo.lookup_method(kci, "__init__")
                    callm = repo.lookup_method(kci, "__call__")
                    if init is not None:
                        ps = [a.arg for a in init.node.args.args][1:]
                        bound = {ps[i]: a for i, a in enumerate(expr.args) if i < len(ps)}
                        bound.update({k.arg: k.value for k in expr.keywords if k.arg})
                        params = [p_ for p_, a in bound.items() if ap(a) == sl]
                        attrs = {s_.path.split(".", 1)[1] for s_ in stores(init.node, into_defs=False)
                                 if s_.kind == "assign" and s_.path.startswith("self.") and s_.path.count(".") == 1
                                 and isinstance(s_.value, ast.Name) and s_.value.id in params}
                        return any(ap(c.func) == f"self.{a_}.{method}" for a_ in attrs for c in calls(callm.node))
            # functools.partial(<module function>, .., struct_obj, ..): the struct reaches the function under the
            # name of the parameter it is bound to
            if isinstance(expr, ast.Call) and (ap(expr.func) or "").split(".")[-1] == "partial" and expr.args and \
                    isinstance(expr.args[0], ast.Name):
                cands = [g for g in repo.funcs.get(expr.args[0].id, []) if g.module is f.module and g.cls is None
                         and g.parent_fn is None]
                if len(cands) == 1:
                    ps = [a.arg for a in cands[0].node.args.args]
                    bound = {ps[i]: a for i, a in enumerate(expr.args[1:]) if i < len(ps)}
                    bound.update({k.arg: k.value for k in expr.keywords if k.arg})
                    names = [p_ for p_, a in bound.items() if ap(a) == sl]
                    return any(ap(c.func) == f"{n_}.{method}" for n_ in names for c in calls(cands[0].node))
            if isinstance(expr, ast.Attribute):
                return ap(expr) == f"{sl}.{method}"
            return any(ap(c.func) == f"{sl}.{method}" for c in calls(expr, into_defs=True))
        ctx.ob("C01.R1", f"{fname} unpacker uses {sl}.unpack", uses(up, "unpack"), f.where,
               "unpacker does not decode with the factory's own struct")
        ctx.ob("C01.R1", f"{fname} packer uses {sl}.pack", uses(pk, "pack"), f.where,
               "packer does not encode with the factory's own struct")

    # _unpack_specs: index 0 = unpacker, index 1 = packer; pack/unpack dispatch on the right table
    us = repo.fn("_unpack_specs", PACK)
    idx = {}
    for st in stores(us.node):
        if st.kind == "assign" and st.path in ("cls.UNPACKERS", "cls.PACKERS") and st.value is not None:
            val = st.value
            comp = None
            if isinstance(val, ast.DictComp):
                comp = val.value
            elif isinstance(val, ast.Name):
                # a local dict filled in a loop: <local>[k] = <component>
                for s2 in stores(us.node, into_defs=False):
                    if s2.kind == "setitem" and s2.path == val.id and s2.value is not None:
                        comp = s2.value
            if comp is not None:
                ci_ = component_index(repo, us.module, us.node, comp, None)
                if ci_ is not None:
                    idx[st.path] = ci_
    if idx != {"cls.UNPACKERS": 0, "cls.PACKERS": 1}:
        # the split may be written any other way (shared helper, loop, tuple return): interpret the decorator body on a
        # two-row sample table and read the derived tables off the result
        sample = {"K0": ("U0", "P0"), "K1": ("U1", "P1")}
        env = {"cls": Sym("cls"), "cls.SPECS": sample}
        try:
            run_block(ConstEval(repo, us.module),
                      [st for st in us.node.body if not (isinstance(st, ast.Expr) and isinstance(st.value, ast.Constant))], env)
            for tbl in ("cls.UNPACKERS", "cls.PACKERS"):
                got = env.get(tbl)
                for comp_i in (0, 1):
                    if isinstance(got, dict) and got == {k: v[comp_i] for k, v in sample.items()}:
                        idx[tbl] = comp_i
        except AnalysisError:
            pass
    ctx.ob("C01.R1", "_unpack_specs: UNPACKERS=v[0], PACKERS=v[1]", idx == {"cls.UNPACKERS": 0, "cls.PACKERS": 1},
           us.where, f"derived tables take components {idx}")
    for meth, table in (("unpack", "UNPACKERS"), ("pack", "PACKERS")):
        f = repo.fn(f"TemplateDataPacker.{meth}")
        okk = any(isinstance(n, ast.Subscript) and ap(n.value) == f"cls.{table}" and ap(n.slice) == "data_type"
                  for n in walk(f.node))
        ctx.ob("C01.R1", f"TemplateDataPacker.{meth} dispatches on cls.{table}[data_type]", okk, f.where)


class _Subst(ast.NodeTransformer):
    def __init__(self, env):
        self.env = env

    def visit_Name(self, node):
        return clone_ast(self.env[node.id]) if node.id in self.env else node


def _memo_wrapper(body, a):
    """`c = <cache>(...)(param); return c` or `...; return lambda x: c(<expr of x>)`: (param, the lambda or None)"""
    from ..purity import _is_cache_expr
    body = [st for st in body if not isinstance(st, (ast.Import, ast.ImportFrom))]
    if len(body) != 2 or not isinstance(body[0], ast.Assign) or len(body[0].targets) != 1 or \
            not isinstance(body[0].targets[0], ast.Name) or not isinstance(body[1], ast.Return):
        return None
    c, val, ret = body[0].targets[0].id, body[0].value, body[1].value
    params = [x.arg for x in a.posonlyargs + a.args]
    if not (isinstance(val, ast.Call) and len(val.args) == 1 and isinstance(val.args[0], ast.Name) and
            val.args[0].id in params and not val.keywords):
        return None
    if not (_is_cache_expr(val.func) if isinstance(val.func, ast.Call) else _is_cache_expr(val)):
        return None
    if isinstance(ret, ast.Name) and ret.id == c:
        return val.args[0].id, None
    if isinstance(ret, ast.Lambda) and len(ret.args.args) == 1 and isinstance(ret.body, ast.Call) and \
            isinstance(ret.body.func, ast.Name) and ret.body.func.id == c and len(ret.body.args) == 1 and not ret.body.keywords:
        return val.args[0].id, ret
    return None


def _row_value(repo, mod, v, depth=0):
    """The expression a SPECS row stands for: module-level names are looked through, and so is a wrapper factory - a
    module-level function whose body is one `return <expr>` (docstring / comments allowed) - with its parameters
    replaced by the call's arguments."""
    while depth < 6:
        depth += 1
        if isinstance(v, ast.Name):
            nxt = repo.module_assign(mod, v.id)
            if nxt is None:
                return v
            v = nxt
            continue
        if isinstance(v, ast.Call) and isinstance(v.func, ast.Name) and \
                v.func.id not in ("_make_struct_spec", "_make_tuplecoord_spec", "_make_llsd_tuplecoord_spec"):
            cands = [g for g in repo.funcs.get(v.func.id, []) if g.cls is None and g.parent_fn is None and g.module is mod]
            if len(cands) != 1:
                return v
            body = [st for st in cands[0].node.body if not (isinstance(st, ast.Expr) and isinstance(st.value, ast.Constant))]
            a = cands[0].node.args
            memo = _memo_wrapper(body, a)
            if memo is not None:
                # a memoising wrapper computes what the wrapped callable computes (whether the cache may be shared is
                # the purity lint's business, C01.P1): look through it, applying the coercion it does on the way in
                pname, lam = memo
                params = [x.arg for x in a.posonlyargs + a.args]
                i = params.index(pname)
                inner = next((k.value for k in v.keywords if k.arg == pname), v.args[i] if i < len(v.args) else None)
                if inner is None:
                    return v
                if lam is None:
                    v = inner
                    continue
                inner = _row_value(repo, mod, inner, depth)
                if not (isinstance(inner, ast.Lambda) and len(inner.args.args) == 1 and not inner.args.defaults):
                    return v
                new = ast.Lambda(args=clone_ast(lam.args),
                                 body=_Subst({inner.args.args[0].arg: lam.body.args[0]}).visit(clone_ast(inner.body)))
                ast.copy_location(new, v)
                ast.fix_missing_locations(new)
                v = new
                continue
            if len(body) != 1 or not isinstance(body[0], ast.Return) or body[0].value is None or a.vararg or a.kwarg:
                return v
            params = [x.arg for x in a.posonlyargs + a.args]
            env = dict(zip(params[len(params) - len(a.defaults):], a.defaults))
            env.update(dict(zip(params, v.args)))
            env.update({k.arg: k.value for k in v.keywords if k.arg in params})
            if set(params) - set(env):
                return v
            new = _Subst(env).visit(clone_ast(body[0].value))
            ast.copy_location(new, v)
            ast.fix_missing_locations(new)
            v = new
            continue
        return v
    return v


def _actual_of_param(caller, helper, pname):
    """access path the (single) call of `helper` inside `caller` passes for the helper's parameter `pname`"""
    a = helper.node.args
    params = [x.arg for x in a.posonlyargs + a.args]
    static = any((ap(d) or "") == "staticmethod" for d in helper.node.decorator_list)
    if helper.cls is not None and not static and params:
        params = params[1:]
    if pname not in params:
        return None
    found = []
    for c in calls(caller.node):
        if (isinstance(c.func, ast.Attribute) and c.func.attr == helper.name) or (isinstance(c.func, ast.Name) and c.func.id == helper.name):
            i = params.index(pname)
            val = next((k.value for k in c.keywords if k.arg == pname), c.args[i] if i < len(c.args) else None)
            if val is not None:
                found.append(ap(val))
    return found[0] if len(found) == 1 and found[0] else None


def _var_alias(fn_node, name):
    """Resolve simple local alias chains: name -> access path it was assigned from."""
    seen = set()
    cur = name
    while cur not in seen:
        seen.add(cur)
        nxt = None
        for st in stores(fn_node, into_defs=False):
            if st.kind == "assign" and st.path == cur and st.value is not None and ap(st.value):
                nxt = ap(st.value)
                break
        if nxt is None:
            return cur
        cur = nxt
    return cur


def r2_r3(ctx):
    repo = ctx.repo
    ctx.rule("C01.R2", "writer and reader walk template.blocks / block.variables in template order and frame "
                       "each variable identically (length prefix UINT_BY_BYTES[var.size] iff MVT_VARIABLE)")
    ctx.rule("C01.R3", "block-count framing: U8 count iff MBT_VARIABLE on both sides; MBT_MULTIPLE uses tmpl number")
    ser_fns = class_methods_reachable(repo, repo.fn("UDPMessageSerializer.serialize"), depth=3)
    des_fns = class_methods_reachable(repo, repo.fn("UDPMessageDeserializer.parse_message_body"), depth=3)
    for side, fns in (("writer", ser_fns), ("reader", des_fns)):
        for suffix in (".blocks", ".variables"):
            loops = loops_over(fns, suffix)
            # msg.blocks loops are not template walks
            loops = [(f, l) for f, l in loops if "tmpl" in src(l.iter).lower() or "template" in src(l.iter).lower()]
            ctx.floor("C01.R2", f"{side} loops over template{suffix}", len(loops), 1)
            for f, l in loops:
                ok = ap(l.iter) is not None and not isinstance(l.iter, ast.Call) \
                    and not (isinstance(l.iter, ast.Subscript))
                ctx.ob("C01.R2", f"{side} {f.qual}: for {norm(l.target)} in {norm(l.iter)} is template order",
                       ok, ctx.w(f, l), "template order wrapped/reordered: the other side walks the plain sequence")

    # per-variable framing
    wv = writer_stage(repo, "var")
    rv = repo.fn("UDPMessageDeserializer._parse_var") if repo.fn_opt("UDPMessageDeserializer._parse_var") else None
    ctx.require(wv is not None and rv is not None, "anchor _serialize_var/_parse_var vanished")

    def len_prefix_ops(f, opname):
        out = []
        for c in find_calls(f.node, opname):
            if not c.args:
                continue
            spec = c.args[0]
            if isinstance(spec, ast.Subscript) and (ap(spec.value) or "").endswith("UINT_BY_BYTES"):
                idx = spec.slice
                path = ap(idx)
                if isinstance(idx, ast.Name):
                    path = _var_alias(f.node, idx.id)
                out.append((c, path))
        return out
    w_ops = len_prefix_ops(wv, "write")
    r_ops = len_prefix_ops(rv, "read")
    ctx.ob("C01.R2", "writer has exactly one UINT_BY_BYTES length prefix", len(w_ops) == 1, wv.where, f"found {len(w_ops)}")
    ctx.ob("C01.R2", "reader has exactly one UINT_BY_BYTES length prefix", len(r_ops) == 1, rv.where, f"found {len(r_ops)}")
    for side, f, ops in (("writer", wv, w_ops), ("reader", rv, r_ops)):
        for c, path in ops:
            ctx.ob("C01.R2", f"{side} length-prefix width is <template var>.size", bool(path) and path.endswith(".size")
                   and not path.endswith(".type.size"), ctx.w(f, c), f"width index is {path}")
            ctx.ob("C01.R2", f"{side} length prefix guarded by type == MVT_VARIABLE",
                   has_eq_fact(c, ".type", "MsgType.MVT_VARIABLE", f.node), ctx.w(f, c),
                   "prefix must be present exactly for Variable-typed variables")
    for c, _ in w_ops:
        lenarg = c.args[1] if len(c.args) > 1 else None
        written = None
        st = enclosing_stmt(c)
        # next write_bytes in the function after the prefix
        wb = [x for x in find_calls(wv.node, "write_bytes") if x.lineno > c.lineno]
        ok = isinstance(lenarg, ast.Call) and ap(lenarg.func) == "len" and wb and \
            ap(lenarg.args[0]) == ap(wb[0].args[0])
        ctx.ob("C01.R2", "writer prefix value is len() of the bytes written next", bool(ok), ctx.w(wv, c))
    # reader consumes read_bytes(size) where size is tmpl size or the prefix value
    rb = find_calls(rv.node, "read_bytes")
    ctx.ob("C01.R2", "reader consumes exactly one read_bytes per variable", len(rb) == 1, rv.where, f"found {len(rb)}")
    for c in rb:
        arg = c.args[0] if c.args else None
        ok = isinstance(arg, ast.Name)
        if ok:
            srcs = {ap(s.value) if s.value is not None and ap(s.value) else norm(s.value) if s.value is not None else "?"
                    for s in stores(rv.node, into_defs=False) if s.path == arg.id and s.kind == "assign"}
            ok = any(s.endswith(".size") for s in srcs) and any("read(" in s or s.endswith("read()") for s in srcs)
        ctx.ob("C01.R2", "reader byte count is tmpl size, overridden by the prefix for VARIABLE", bool(ok), ctx.w(rv, c))
    # unpack/pack are applied with the template variable's type
    for side, f, meth in (("writer", wv, "pack"), ("reader", rv, "unpack")):
        def _is_packer(c, _f=f):
            recv = (ap(c.func) or "").rsplit(".", 1)[0]
            if recv.startswith("TemplateDataPacker"):
                return True
            # an overridable class attribute whose default is the template packer (`DATA_PACKER = TemplateDataPacker`)
            parts = recv.split(".")
            if len(parts) == 2 and parts[0] in ("self", "cls") and _f.cls is not None:
                dv = repo.class_attr(_f.cls, parts[1])
                dci = repo.resolve_class(ap(dv) or "", _f.module) if dv is not None else None
                return dci is not None and any(k.name == "TemplateDataPacker" for k in repo.mro(dci))
            return False
        cs = [c for c in find_calls(f.node, meth) if _is_packer(c)]
        ctx.ob("C01.R2", f"{side} uses TemplateDataPacker.{meth} with the template type", len(cs) == 1 and
               len(cs[0].args) == 2 and (alias_path(f.node, cs[0].args[1]) or "").endswith(".type"), f.where)

    # R3 block counts
    wb_ = writer_stage(repo, "block")
    rbody = [f for f in des_fns]
    w_counts = [c for c in find_calls(wb_.node, "write") if c.args and spec_symbol(c.args[0]) and
                has_eq_fact(c, ".block_type", "MsgBlockType.MBT_VARIABLE", wb_.node)]
    r_counts = []
    for f in des_fns:
        for c in find_calls(f.node, "read"):
            if c.args and spec_symbol(c.args[0]) and has_eq_fact(c, ".block_type", "MsgBlockType.MBT_VARIABLE", f.node):
                r_counts.append((f, c))
    # the repeat count may be chosen through a helper / a dispatch table keyed by block type: resolve it per block type
    resolved_all = _reader_repeat_counts(repo, des_fns)
    resolved = resolved_all if not r_counts else {}
    rs_ = resolved_all.get("MBT_SINGLE")
    if rs_ is not None:
        one = ConstEval(repo, rs_[1].module).ev(rs_[0])
        ctx.ob("C01.R3", "reader repeats an MBT_SINGLE block exactly once", one == 1 and not isinstance(one, bool), DES,
               f"repeat count under MBT_SINGLE resolves to {norm(rs_[0])}")
    rv_ = resolved.get("MBT_VARIABLE")
    if rv_ is not None:
        expr, f_ = rv_
        if isinstance(expr, ast.Call) and call_attr(expr) == "read" and expr.args and spec_symbol(expr.args[0]):
            r_counts.append((f_, expr))
    ctx.ob("C01.R3", "writer emits one block count under MBT_VARIABLE", len(w_counts) == 1, wb_.where, f"found {len(w_counts)}")
    ctx.ob("C01.R3", "reader reads one block count under MBT_VARIABLE", len(r_counts) == 1, DES, f"found {len(r_counts)}")
    if len(w_counts) == 1 and len(r_counts) == 1:
        ws, rs = spec_symbol(w_counts[0].args[0]), spec_symbol(r_counts[0][1].args[0])
        ctx.ob("C01.R3", "block count spec equal on both sides", ws == rs, ctx.w(wb_, w_counts[0]), f"writer {ws} reader {rs}")
        cnt = w_counts[0].args[1] if len(w_counts[0].args) > 1 else None
        cnt_src = _var_alias(wb_.node, cnt.id) if isinstance(cnt, ast.Name) else (ap(cnt) if cnt is not None else None)
        # value written must be len(<sequence iterated>)
        loops = [l for l in walk(wb_.node) if isinstance(l, ast.For)]
        seqs = {ap(l.iter) for l in loops}
        okc = False
        if isinstance(cnt, ast.Name):
            for st in stores(wb_.node, into_defs=False):
                if st.path == cnt.id and isinstance(st.value, ast.Call) and ap(st.value.func) == "len" and \
                        ap(st.value.args[0]) in seqs:
                    okc = True
        elif isinstance(cnt, ast.Call) and ap(cnt.func) == "len" and ap(cnt.args[0]) in seqs:
            okc = True
        ctx.ob("C01.R3", "written block count is len() of the block list that is iterated", okc, ctx.w(wb_, w_counts[0]))
    # no count written/read under other block types: every write(se.X, count) in _serialize_block is guarded
    for c in find_calls(wb_.node, "write"):
        if c.args and spec_symbol(c.args[0]) and c not in w_counts:
            ctx.ob("C01.R3", f"unguarded count write {norm(c)}", False, ctx.w(wb_, c),
                   "block framing written outside the MBT_VARIABLE guard")
    # MULTIPLE
    multi_w = [n for n in walk(wb_.node) if isinstance(n, ast.Compare) and "tmpl_block.number" in {ap(n.left), *[ap(x) for x in n.comparators]}
               and has_eq_fact(n, ".block_type", "MsgBlockType.MBT_MULTIPLE", wb_.node)]
    ctx.ob("C01.R3", "writer checks block count against tmpl number under MBT_MULTIPLE", len(multi_w) >= 1, wb_.where)
    for n in multi_w:
        st = enclosing_stmt(n)
        raises = isinstance(st, ast.If) and any(isinstance(x, ast.Raise) for x in walk(st))
        ctx.ob("C01.R3", "MBT_MULTIPLE count mismatch raises", raises, ctx.w(wb_, n))
    multi_r = []
    for f in des_fns:
        for st in stores(f.node, into_defs=False):
            if st.kind == "assign" and st.value is not None and (ap(st.value) or "").endswith(".number") and \
                    has_eq_fact(st.node, ".block_type", "MsgBlockType.MBT_MULTIPLE", f.node):
                multi_r.append((f, st))
    if not multi_r and resolved_all:
        resolved = resolved_all
        rm = resolved.get("MBT_MULTIPLE")
        if rm is not None and (ap(rm[0]) or "").endswith(".number"):
            multi_r.append(rm)
        for bt, (expr, f_) in sorted(resolved.items()):
            if bt != "MBT_VARIABLE":
                ctx.ob("C01.R3", f"reader consumes no count bytes under {bt}",
                       not any(isinstance(n, ast.Call) and call_attr(n) in ("read", "read_bytes") for n in ast.walk(expr)),
                       DES, f"repeat count resolves to {norm(expr)}")
    ctx.ob("C01.R3", "reader repeat count is tmpl number under MBT_MULTIPLE", len(multi_r) == 1, DES)


def flat_ops(repo, f, opname, recvs, chain=None, depth=0):
    """(call, function, [(call site, caller), ..]) for every <recv>.<opname>(<spec>, ..) in the straight-line reading
    order of f; helpers (methods of the same class / same-module functions) that are handed the receiver are
    inlined at the call site, the receiver followed under the helper's parameter name."""
    chain = chain or []
    out = []
    for c in sorted(calls(f.node), key=lambda c: (c.lineno, c.col_offset)):
        if isinstance(c.func, ast.Attribute) and c.func.attr == opname and ap(c.func.value) in recvs \
                and c.args and spec_symbol(c.args[0]):
            out.append((c, f, chain))
            continue
        if depth >= 3:
            continue
        passed = [i for i, a in enumerate(c.args) if ap(a) in recvs]
        passed_kw = [k.arg for k in c.keywords if k.arg and ap(k.value) in recvs]
        if not passed and not passed_kw:
            continue
        tgt = None
        if isinstance(c.func, ast.Attribute) and isinstance(c.func.value, ast.Name) and f.cls is not None and \
                c.func.value.id in ("self", "cls", f.cls.name):
            tgt = repo.lookup_method(f.cls, c.func.attr)
        elif isinstance(c.func, ast.Name):
            cands = [g for g in repo.funcs.get(c.func.id, []) if g.module is f.module and g.cls is None and g.parent_fn is None]
            tgt = cands[0] if len(cands) == 1 else None
        if tgt is None or any(tgt is fn for _, fn in chain) or tgt is f:
            continue
        ps = [a.arg for a in tgt.node.args.args if a.arg not in ("self", "cls")]
        names = {ps[i] for i in passed if i < len(ps)} | set(passed_kw)
        out.extend(flat_ops(repo, tgt, opname, names, chain + [(c, f)], depth + 1))
    return out


def _reader_repeat_counts(repo, des_fns):
    """{block type name: (expression that builds the reader's repeat count under that block type, function)}:
    the `for .. in range(<count>)` loop of the body parser, its count followed through locals, helpers and constant
    dispatch tables with <block>.block_type fixed to each MsgBlockType member in turn."""
    out = {}
    for f in des_fns:
        loops = [l for l in walk(f.node) if isinstance(l, ast.For) and isinstance(l.iter, ast.Call) and
                 ap(l.iter.func) == "range" and len(l.iter.args) == 1]
        if len(loops) != 1:
            continue
        paths = {ap(n) for n in walk(f.node) if isinstance(n, ast.Attribute) and n.attr == "block_type" and ap(n)}
        # the template block being walked: `for <blk> in <template>.blocks` (its type may only be read in a helper)
        for l_ in walk(f.node):
            if isinstance(l_, ast.For) and isinstance(l_.target, ast.Name) and (alias_path(f.node, l_.iter) or "").endswith(".blocks"):
                paths.add(f"{l_.target.id}.block_type")
        if not paths:
            continue
        ev = ConstEval(repo, f.module)
        for bt in ("MBT_SINGLE", "MBT_MULTIPLE", "MBT_VARIABLE"):
            val = ev.ev(ast.parse(f"MsgBlockType.{bt}", mode="eval").body)
            if isinstance(val, (Sym, CallVal)):
                return {}
            env = {p: val for p in paths}
            expr, fn_, _ = _resolve_value(repo, f, loops[0].iter.args[0], env)
            if expr is not None:
                out[bt] = (expr, fn_)
        break
    return out


def r4(ctx):
    repo = ctx.repo
    ctx.rule("C01.R4", "header [U8 flags, U32 id, U8 extra-len] and ack trailer agree (specs, endianness, "
                       "element width literal, even number of order reversals)")
    sf = repo.fn("UDPMessageSerializer.serialize")
    hf = repo.fn("UDPMessageDeserializer._parse_message_header")
    bf = [f for f in class_methods_reachable(repo, repo.fn("UDPMessageDeserializer.parse_message_body"), depth=2)]
    # writer/reader construction endianness (helpers extracted from serialize are followed)
    sfs = class_methods_reachable(repo, sf, depth=3)

    def endian_of(f, arg):
        """the endianness literal a reader / writer is constructed with: a literal, or a class / module constant"""
        if isinstance(arg, ast.Constant):
            return arg.value
        p_ = ap(arg) or ""
        if f.cls is not None and p_.split(".")[0] in ("self", "cls", f.cls.name) and p_.count(".") == 1:
            v = repo.class_attr(f.cls, p_.split(".")[1])
            if v is not None:
                val = ConstEval(repo, f.module).ev(v)
                return val if isinstance(val, str) else None
        val = ConstEval(repo, f.module).ev(arg)
        return val if isinstance(val, str) else None

    def ctors(fns, cname):
        """(function, target variable, constructor call, endianness literal)"""
        out = []
        for f in fns:
            for st in stores(f.node, into_defs=False):
                v = st.value
                if st.kind == "assign" and isinstance(v, ast.Call) and call_attr(v) == cname and v.args:
                    e_ = endian_of(f, v.args[0])
                    if e_ is not None:
                        out.append((f, st.path, v, e_))
            # a factory helper that hands the freshly constructed reader / writer back (`return BufferReader("<", body)`)
            for r_ in walk(f.node):
                if isinstance(r_, ast.Return) and isinstance(r_.value, ast.Call) and call_attr(r_.value) == cname and r_.value.args:
                    e_ = endian_of(f, r_.value.args[0])
                    if e_ is not None:
                        out.append((f, "<returned>", r_.value, e_))
        return out
    w_ctors = ctors(sfs, "BufferWriter")
    # header writer: the one (in serialize) that receives the flags byte; body writer: the one handed to _serialize_block
    def flat_seq(f, opname, recvs):
        return [(c, fn, any(has_path_fact(site, "has_acks", True, sfn.node) for site, sfn in chain + [(c, fn)]))
                for c, fn, chain in flat_ops(repo, f, opname, recvs)]

    def flags_writer(t):
        return any(len(c.args) > 1 and "send_flags" in src(c.args[1]) for c, _, _ in flat_seq(sf, "write", {t[1]}))
    hdr_w = [t for t in w_ctors if t[0] is sf and flags_writer(t)]
    wb_fn = writer_stage(repo, "block")
    body_w = [t for t in w_ctors if any(call_attr(c) == wb_fn.name and c.args and ap(c.args[0]) == t[1]
                                        for c in calls(t[0].node))]
    if not body_w and wb_fn.cls is not None:
        # the block writer lives in a collaborator object that owns its buffer: the writer its spec writes go to is
        # an attribute bound to BufferWriter(<endianness>) by that class's constructor
        recvs = {ap(c.func.value) for c in find_calls(wb_fn.node, "write") if isinstance(c.func, ast.Attribute)
                 and c.args and spec_symbol(c.args[0])}
        for r_ in sorted(x for x in recvs if x and x.startswith("self.")):
            for k in repo.mro(wb_fn.cls):
                init = k.methods.get("__init__")
                if init is None:
                    continue
                for st in stores(init.node, into_defs=False):
                    v = st.value
                    if st.kind == "assign" and st.path == r_ and isinstance(v, ast.Call) and call_attr(v) == "BufferWriter" \
                            and v.args and endian_of(init, v.args[0]) is not None:
                        body_w.append((init, st.path, v, endian_of(init, v.args[0])))
    r_hdr = ctors([hf], "BufferReader")
    r_body = ctors(bf, "BufferReader")
    ctx.ob("C01.R4", "serializer builds one header writer and one body writer", len(hdr_w) == 1 and len(body_w) == 1,
           sf.where, f"header {[t[3] for t in hdr_w]} body {[t[3] for t in body_w]}")
    if len(hdr_w) == 1 and len(body_w) == 1:
        ctx.ob("C01.R4", "header endianness equal", all(e == hdr_w[0][3] for _, _, _, e in r_hdr) and bool(r_hdr),
               hf.where, f"writer {hdr_w[0][3]!r} reader {[e for _, _, _, e in r_hdr]}")
        ctx.ob("C01.R4", "body endianness equal", all(e == body_w[0][3] for _, _, _, e in r_body) and bool(r_body),
               DES, f"writer {body_w[0][3]!r} reader {[e for _, _, _, e in r_body]}")
    w_recv = hdr_w[0][1] if hdr_w else "writer"
    r_recvs = {t[1] for t in r_hdr} or {"reader"}

    def seq(f, opname, recvs):
        out = []
        for c in sorted(find_calls(f.node, opname, into_defs=False), key=lambda c: (c.lineno, c.col_offset)):
            if isinstance(c.func, ast.Attribute) and ap(c.func.value) in recvs and c.args and spec_symbol(c.args[0]):
                out.append(c)
        return out
    w_flat = flat_seq(sf, "write", {w_recv})
    r_flat = flat_seq(hf, "read", r_recvs)
    fn_of = {id(c): f for c, f, _ in w_flat + r_flat}
    # header part of writer: writes before the body; trailer: writes under the has_acks guard
    w_hdr = [c for c, _, a in w_flat if not a]
    w_ack = [c for c, _, a in w_flat if a]
    r_ack = [c for c, _, a in r_flat if a]
    r_hdrs = [c for c, _, a in r_flat if not a]
    ws = [spec_symbol(c.args[0]) for c in w_hdr]
    rs = [spec_symbol(c.args[0]) for c in r_hdrs]
    ctx.ob("C01.R4", "header spec sequence equal", ws == rs and len(ws) >= 3, sf.where, f"writer {ws} reader {rs}")
    # header field order: flags, packet id, extra length / offset
    def field_of_write(c):
        return norm(c.args[1]) if len(c.args) > 1 else "?"
    def field_of_read(c):
        st = enclosing_stmt(c)
        if isinstance(st, ast.Assign):
            return ap(st.targets[0]) or "?"
        return "?"
    wf = [field_of_write(c) for c in w_hdr]
    rf = [field_of_read(c) for c in r_hdrs]
    roles = [("send_flags", "send_flags"), ("packet_id", "packet_id"), ("extra", "offset")]
    for i, (wr, rr) in enumerate(roles):
        ok = i < len(wf) and i < len(rf) and wr in wf[i] and rr in rf[i]
        ctx.ob("C01.R4", f"header field {i} is {wr}/{rr}", ok, sf.where,
               f"writer field {wf[i] if i < len(wf) else None}, reader field {rf[i] if i < len(rf) else None}")
    # ack trailer
    LOOPS = (ast.For, ast.While, ast.ListComp, ast.GeneratorExp, ast.SetComp)
    w_elem = [c for c in w_ack if any(isinstance(a, LOOPS) for a in _anc(c))]
    w_cnt = [c for c in w_ack if c not in w_elem]
    r_elem = [c for c in r_ack if any(isinstance(a, LOOPS) for a in _anc(c))]
    r_cnt = [c for c in r_ack if c not in r_elem]
    ctx.ob("C01.R4", "ack trailer shape (one element loop, one count) on both sides",
           len(w_elem) == len(w_cnt) == len(r_elem) == len(r_cnt) == 1, sf.where,
           f"writer elem/count {len(w_elem)}/{len(w_cnt)} reader {len(r_elem)}/{len(r_cnt)}")
    if len(w_elem) == len(w_cnt) == len(r_elem) == len(r_cnt) == 1:
        es_w, es_r = spec_symbol(w_elem[0].args[0]), spec_symbol(r_elem[0].args[0])
        ctx.ob("C01.R4", "ack element spec equal", es_w == es_r, ctx.w(sf, w_elem[0]), f"{es_w} vs {es_r}")
        ctx.ob("C01.R4", "ack count spec equal", spec_symbol(w_cnt[0].args[0]) == spec_symbol(r_cnt[0].args[0]),
               ctx.w(sf, w_cnt[0]))
        ctx.ob("C01.R4", "ack count written after the elements", w_ack.index(w_cnt[0]) > w_ack.index(w_elem[0]), ctx.w(sf, w_cnt[0]),
               "reader takes the count from the last byte")
        cntarg = w_cnt[0].args[1] if len(w_cnt[0].args) > 1 else None
        counted = ap(cntarg.args[0]) if isinstance(cntarg, ast.Call) and ap(cntarg.func) == "len" and cntarg.args else None
        wfn = fn_of[id(w_cnt[0])]
        if counted and wfn is not sf and "." not in counted:
            # the trailer is written by a helper: the counted name is its parameter, bound at the call site in serialize
            counted = _actual_of_param(sf, wfn, counted) or counted
        ctx.ob("C01.R4", "ack count value is len(msg.acks)", bool(counted) and counted.endswith(".acks"), ctx.w(sf, w_cnt[0]),
               f"count written is `{norm(cntarg) if cntarg is not None else None}` (= len of `{counted}`)")
        # literal multiplier equals element width
        fmt = struct_fmt_of_prim(repo, es_r)
        width = struct.calcsize("<" + fmt) if fmt else None
        # the count variable: what the reader's count read is assigned to (in the header parser or a helper of it)
        cnt_fn = fn_of[id(r_cnt[0])]
        cnt_st = enclosing_stmt(r_cnt[0])
        cnt_name = ap(cnt_st.targets[0]) if isinstance(cnt_st, ast.Assign) and len(cnt_st.targets) == 1 else "num_acks"
        mults = [n for n in walk(cnt_fn.node) if isinstance(n, ast.BinOp) and isinstance(n.op, ast.Mult)
                 and cnt_name in {ap(n.left), ap(n.right)}]
        ctx.ob("C01.R4", "reader computes ack field length once", len(mults) == 1, cnt_fn.where)
        for mnode in mults:
            other = mnode.right if ap(mnode.left) == cnt_name else mnode.left
            v = ConstEval(repo, cnt_fn.module).ev(_deref_class_alias(cnt_fn.node, other))
            ctx.ob("C01.R4", "ack field length multiplier == element width", v == width, ctx.w(cnt_fn, mnode),
                   f"multiplier {v}, calcsize({fmt}) = {width}")
        # order reversals: reversed(...) / [::-1] / insert(0, ...) touching the ack sequence, on either side
        def reversals(f, elem_call):
            n = 0
            region = []
            for x in walk(f.node):
                if isinstance(x, ast.stmt) and (has_path_fact(x, "has_acks", True, f.node) or "acks" in src(x).lower()) \
                        and not isinstance(x, (ast.If, ast.For, ast.While, ast.With, ast.Try, ast.FunctionDef)):
                    region.append(x)
            seen = set()
            for st in region + ([a for a in _anc(elem_call) if isinstance(a, ast.For)] if elem_call is not None else []):
                nodes = [st.iter] if isinstance(st, ast.For) else list(walk(st))
                if isinstance(st, ast.For):
                    nodes = list(walk(st.iter))
                for x in nodes:
                    if id(x) in seen:
                        continue
                    seen.add(id(x))
                    if isinstance(x, ast.Call) and ap(x.func) == "reversed":
                        n += 1
                    elif isinstance(x, ast.Call) and call_attr(x) == "insert" and x.args and \
                            isinstance(x.args[0], ast.Constant) and x.args[0].value == 0:
                        n += 1
                    elif isinstance(x, ast.Call) and call_attr(x) == "reverse" and not x.args:
                        n += 1
                    elif isinstance(x, ast.Subscript) and isinstance(x.slice, ast.Slice) and x.slice.step is not None \
                            and isinstance(x.slice.step, ast.UnaryOp) and isinstance(x.slice.step.op, ast.USub):
                        n += 1
            return n
        def total_reversals(top, elem):
            inner = fn_of[id(elem)]
            n = reversals(inner, elem)
            if inner is not top:
                n += reversals(top, None)
            return n
        rev_w = total_reversals(sf, w_elem[0])
        rev_r = total_reversals(hf, r_elem[0])
        ctx.ob("C01.R4", "ack order reversals are even in total", (rev_w + rev_r) % 2 == 0, ctx.w(sf, w_elem[0]),
               f"writer reverses {rev_w}x, reader {rev_r}x: decoded ack order would be reversed")
        # result stored to msg.acks from the collected list
        ctx.ob("C01.R4", "reader stores the collected acks", any(s.path.endswith(".acks") for s in stores(hf.node)), hf.where)


def _anc(n):
    from ..core import ancestors
    return list(ancestors(n))


def r5(ctx):
    repo = ctx.repo
    ctx.rule("C01.R5", "default fill emits exactly the template's width for every MsgType (finite-domain "
                       "evaluation of the unset-value path of _serialize_var over the 20 types; helpers followed)")
    members, sizes = msgtype_tables(ctx)
    f = writer_stage(repo, "var")
    params = [a.arg for a in f.node.args.args]
    tv = next((p for p in params if "template" in p or "tmpl" in p), None)
    ctx.require(tv is not None, "_serialize_var: template variable parameter not found")
    fm = next((p for p in params if "fill" in p), None)
    ctx.require(fm is not None, "_serialize_var: fill_missing parameter not found")
    var_name = next((p for p in params if p not in ("self", "cls", "writer", tv, fm)), None)
    ctx.require(var_name is not None, "_serialize_var: value parameter not found")
    # the statement handling the unset value: the first `if <value> is None`
    unset_if = None
    for st in f.node.body:
        if isinstance(st, ast.If) and any(isinstance(e, ast.Compare) and ap(e.left) == var_name and pol and
                                          isinstance(e.ops[0], ast.Is) for e, pol in atoms(st.test, True)):
            unset_if = st
            break
    ctx.require(unset_if is not None, "_serialize_var: `if <value> is None` statement not found")
    ctx.require(any(fm in {n.id for n in ast.walk(x) if isinstance(n, ast.Name)} for x in ast.walk(unset_if)),
                "_serialize_var: the unset-value path no longer consults fill_missing")
    type_sizes = sizes

    class TmplVar:
        """abstract template variable handed to helpers"""

    def make_ev(mod):
        ev = ConstEval(repo, mod)

        def hook(base, attr):
            if isinstance(base, EnumVal) and base.cls == "MsgType" and attr == "size":
                return type_sizes.get(base.name, Sym("NO_SIZE_ROW"))
            return None
        ev.attr_hook = hook

        def binop_hook(op, a, b):
            if isinstance(op, ast.Mult):
                for x, y in ((a, b), (b, a)):
                    if x == b"\x00" and isinstance(y, Sym) and y.text == "TMPL_SIZE":
                        return Sym("ZEROFILL(TMPL_SIZE)")
            return None
        ev.binop_hook = binop_hook

        def call_hook(node, fn, args, kwargs, local):
            # follow helpers: self.x(...) / cls.x(...) / module-level function
            target = None
            if isinstance(node.func, ast.Attribute) and isinstance(node.func.value, ast.Name) and \
                    node.func.value.id in ("self", "cls") and f.cls is not None:
                target = repo.lookup_method(f.cls, node.func.attr)
            elif isinstance(node.func, ast.Name):
                cands = [g for g in repo.funcs.get(node.func.id, []) if g.module is f.module and g.cls is None
                         and g.parent_fn is None]
                target = cands[0] if len(cands) == 1 else None
            recv_env = {}
            if target is None and isinstance(node.func, ast.Attribute) and isinstance(node.func.value, ast.Name):
                # a method of the object whose fields the environment describes (template_var.make_fill_value()):
                # found by name among the repository's classes, the known fields travel as the callee's self.<field>
                recv = node.func.value.id
                fields = {k[len(recv) + 1:]: v for k, v in local.items() if isinstance(k, str) and k.startswith(recv + ".")}
                cands = [g for g in repo.funcs.get(node.func.attr, []) if g.cls is not None]
                if fields and len(cands) == 1 and cands[0].node.args.args:
                    target = cands[0]
                    sp = target.node.args.args[0].arg
                    recv_env = {f"{sp}.{k}": v for k, v in fields.items()}
                    recv_env[sp] = Sym("self:" + target.cls.name)
            if target is None:
                return None
            ps = [a.arg for a in target.node.args.args if a.arg not in ("self", "cls")]
            if recv_env:
                ps = [a.arg for a in target.node.args.args][1:]
            env2 = dict(recv_env)
            for pname, anode, aval in zip(ps, node.args, args):
                env2[pname] = aval
                # forward symbolic attribute bindings (template_var.type/.size) to the callee's parameter name
                src_name = ap(anode)
                if src_name:
                    for k, v in list(local.items()):
                        if isinstance(k, str) and k.startswith(src_name + "."):
                            env2[pname + k[len(src_name):]] = v
            for k in node.keywords:
                if k.arg:
                    env2[k.arg] = kwargs.get(k.arg)
                    src_name = ap(k.value)
                    if src_name:
                        for kk, v in list(local.items()):
                            if isinstance(kk, str) and kk.startswith(src_name + "."):
                                env2[k.arg + kk[len(src_name):]] = v
            ev2 = make_ev(target.module)
            out = run_block(ev2, [st_ for st_ in target.node.body
                                  if not (isinstance(st_, ast.Expr) and isinstance(st_.value, ast.Constant))], env2)
            if out.kind == "return":
                return out.value
            if out.kind == "raise":
                return Sym("RAISES")
            return None
        ev.call_hook = call_hook
        return ev
    ev = make_ev(f.module)
    where = ctx.w(f, unset_if)
    for m, mv in members.items():
        if m not in type_sizes:
            continue  # reported by C01.R1
        env = {var_name: None, f"{tv}.type": EnumVal("MsgType", m, mv), f"{tv}.size": Sym("TMPL_SIZE"), fm: True}
        try:
            out = run_block(ev, [unset_if], env)
        except AnalysisError as e:
            raise AnalysisError(f"C01.R5 for {m}: {e}")
        if out.kind == "raise":
            ctx.ob("C01.R5", f"fill[{m}] produces a value", False, where, "fill path raises for this type")
            continue
        val = env.get(var_name)
        width = None
        raw = False
        if isinstance(val, bytes):
            width = len(val)
        elif isinstance(val, CallVal) and val.func.split(".")[-1] == "RawBytes" and len(val.args) == 1:
            raw = True
            a = val.args[0]
            if isinstance(a, bytes):
                width = len(a)
            elif isinstance(a, Sym) and a.text == "ZEROFILL(TMPL_SIZE)":
                width = "TMPL_SIZE"
        exp_fixed = type_sizes[m]
        if m == "MVT_VARIABLE":
            ok = (not raw and width == 0)
            msg = f"VARIABLE default must be an empty payload behind the length prefix, got raw={raw} width={width}"
        elif m == "MVT_FIXED":
            ok = raw and width == "TMPL_SIZE"
            msg = f"FIXED default must be template_var.size zero bytes, got raw={raw} width={width}"
        else:
            ok = raw and (width == exp_fixed or width == "TMPL_SIZE")
            msg = f"default must be {exp_fixed} zero bytes, got raw={raw} width={width}"
        ctx.ob("C01.R5", f"fill[{m}] width", ok, where, msg)


def _sym_width(f, target_if, env, ev, m):
    """Width of RawBytes(b'\\x00' * E): re-evaluate E under env by locating the multiplication."""
    for n in walk(target_if):
        if isinstance(n, ast.BinOp) and isinstance(n.op, ast.Mult):
            l, r = ev.ev(n.left, env), ev.ev(n.right, env)
            if l == b"\x00" and not isinstance(r, (bytes,)):
                # is this the multiplication on the taken path? check its guards under env
                taken = True
                for e, pol in facts(n, target_if):
                    v = ev.ev(e, env)
                    if isinstance(v, (Sym, CallVal)) or bool(v) != pol:
                        taken = False
                        break
                if taken:
                    if isinstance(r, Sym) and r.text == "TMPL_SIZE":
                        return "TMPL_SIZE"
                    if isinstance(r, int):
                        return max(r, 0)
    return None


def r6(ctx):
    repo = ctx.repo
    ctx.rule("C01.R6", "zero-coded header peek window covers the worst case: length >= 2*(max msg-num bytes) "
                       "+ 2*extra-length (every header byte may double under zero-coding)")
    from .common import linform
    hf = repo.fn("UDPMessageDeserializer._parse_message_header")
    dmod = repo.module(DES)
    # widest message number: FF-prefix length + spec width, from _MSG_NUM_SPECS
    specs = repo.module_assign(dmod, "_MSG_NUM_SPECS")
    ctx.require(isinstance(specs, ast.Tuple), "_MSG_NUM_SPECS is not a tuple literal")
    maxnum = 0
    for i, row in enumerate(specs.elts):
        pr_ = as_pair(repo, dmod, row)
        ctx.require(pr_ is not None, "_MSG_NUM_SPECS row shape changed")
        fmt = struct_fmt_of_prim(repo, spec_symbol(pr_[1]) or "")
        ctx.require(fmt is not None, f"_MSG_NUM_SPECS row {i}: unknown spec {src(pr_[1])}")
        maxnum = max(maxnum, i + struct.calcsize("<" + fmt))
    cs = [c for c in find_calls(hf.node, "zero_code_expand") if has_path_fact(c, "zerocoded", True, hf.node)]
    ctx.ob("C01.R6", "header expands a zero-coded prefix under msg.zerocoded", len(cs) == 1, hf.where, f"found {len(cs)}")
    for c in cs:
        arg = c.args[0] if c.args else None
        if isinstance(arg, ast.Name):
            vals = [s.value for s in stores(hf.node, into_defs=False) if s.path == arg.id and s.value is not None
                    and has_path_fact(s.node, "zerocoded", True, hf.node)]
            arg = vals[-1] if vals else arg
        if not (isinstance(arg, ast.Subscript) and isinstance(arg.slice, ast.Slice)):
            ctx.ob("C01.R6", "zero-coded header window is a slice of the datagram", isinstance(arg, ast.Name), ctx.w(hf, c),
                   f"argument {norm(arg)}: window not analysable")
            continue
        sl = arg.slice
        if sl.upper is None:
            ctx.ob("C01.R6", "zero-coded header window unbounded (covers everything)", True, ctx.w(hf, c))
            continue
        hi = linform(repo, dmod, hf.node, sl.upper)
        lo = linform(repo, dmod, hf.node, sl.lower) if sl.lower is not None else {1: 0}
        if hi is None or lo is None:
            raise AnalysisError(f"C01.R6: header window bounds not linear: {norm(arg)}")
        diff = dict(hi)
        for k, v in lo.items():
            diff[k] = diff.get(k, 0) - v
        offs = [k for k in diff if k != 1 and diff[k] != 0]
        b = sum(diff[k] for k in offs if str(k).endswith(".offset"))
        others = [k for k in offs if not str(k).endswith(".offset")]
        a = diff.get(1, 0)
        ctx.ob("C01.R6", "header window length >= 2*max_msg_num + 2*offset",
               not others and b >= 2 and a >= 2 * maxnum, ctx.w(hf, c),
               f"window length = {a} + {b}*offset{' + ' + str(others) if others else ''}; worst case needs "
               f"{2 * maxnum} + 2*offset (msg num {maxnum} bytes and the extra field are zero-coded too)")


def _taken_assign(ev, fn_node, env, target, _depth=0):
    """Value AST assigned to `target` on the branch of the function's if-chains taken under env."""
    found = []

    def rec(stmts):
        for st in stmts:
            if isinstance(st, ast.Match):
                st = match_as_if(st) or st
            if isinstance(st, ast.If):
                t = ev.ev(st.test, env)
                if isinstance(t, (Sym, CallVal)) and _depth < 3:
                    # the test may read once-assigned locals that are computable under env (a row looked up in a
                    # constant table, a key computed from the environment): evaluate them first
                    for nm in sorted({n.id for n in ast.walk(st.test) if isinstance(n, ast.Name)} - set(env)):
                        if nm == target:
                            continue
                        v = _taken_assign(ev, fn_node, env, nm, _depth + 1)
                        if v is not None:
                            val = ev.ev(v, env)
                            if not isinstance(val, (Sym, CallVal)):
                                env[nm] = val
                    t = ev.ev(st.test, env)
                if isinstance(t, (Sym, CallVal)):
                    continue
                rec(st.body if t else st.orelse)
            elif isinstance(st, ast.Assign) and len(st.targets) == 1 and ap(st.targets[0]) == target:
                found.append(st.value)
            elif isinstance(st, ast.Assign) and len(st.targets) == 1 and isinstance(st.targets[0], ast.Tuple) and \
                    target in [ap(e) for e in st.targets[0].elts]:
                # a, b = <value>: the component of <value> at the target's position
                i = [ap(e) for e in st.targets[0].elts].index(target)
                if isinstance(st.value, ast.Tuple) and len(st.value.elts) == len(st.targets[0].elts):
                    found.append(st.value.elts[i])
                else:
                    pick = ast.Subscript(value=st.value, slice=ast.Constant(value=i), ctx=ast.Load())
                    found.append(ast.fix_missing_locations(ast.copy_location(pick, st.value)))
            elif isinstance(st, (ast.For, ast.While, ast.With, ast.Try)):
                rec(st.body)
    rec(fn_node.body)
    return found[-1] if found else None


def _taken_return(ev, stmts, env):
    """AST of the value returned on the path taken under env (sequential semantics, decidable tests only)."""
    for st in stmts:
        if isinstance(st, ast.Match):
            st = match_as_if(st) or st
        if isinstance(st, ast.If):
            t = ev.ev(st.test, env)
            if isinstance(t, (Sym, CallVal)):
                return None
            r = _taken_return(ev, st.body if t else st.orelse, env)
            if r is not None:
                return r
        elif isinstance(st, ast.Return):
            return st.value
        elif isinstance(st, ast.Assign) and len(st.targets) == 1 and isinstance(st.targets[0], ast.Name):
            env[st.targets[0].id] = ev.ev(st.value, env)
        elif isinstance(st, ast.For) and not st.orelse:
            # a search loop over a constant table (`for known, prefix, fmt in TABLE: if key == known: return ...`):
            # the first iteration whose body returns decides; the loop targets stay bound in env for the caller
            seq = ev.ev(st.iter, env)
            if not isinstance(seq, (tuple, list)):
                return None
            for item in seq:
                if isinstance(st.target, ast.Name):
                    env[st.target.id] = item
                elif isinstance(st.target, ast.Tuple) and all(isinstance(e, ast.Name) for e in st.target.elts) and \
                        isinstance(item, (tuple, list)) and len(item) == len(st.target.elts):
                    for e, x in zip(st.target.elts, item):
                        env[e.id] = x
                else:
                    return None
                if any(isinstance(n, (ast.Break, ast.Continue)) for b in st.body for n in ast.walk(b)):
                    return None
                r = _taken_return(ev, st.body, env)
                if r is not None:
                    return r
    return None


class _LambdaFn:
    """FuncInfo stand-in for a lambda row of a dispatch table (a body with no statements)."""
    def __init__(self, fi, lam):
        self.module, self.cls, self.where, self.qual = fi.module, None, fi.where, fi.qual + ".<lambda>"
        self.node = ast.FunctionDef(name="<lambda>", args=lam.args, body=[ast.Return(value=lam.body)], decorator_list=[])


def _dispatch_row(repo, mod, ev, callee, env):
    """Row (value AST) of a module/class-level dict literal selected by TABLE[key] / TABLE.get(key) when the key is
    decidable under env; None otherwise."""
    table = key = None
    if isinstance(callee, ast.Subscript):
        table, key = callee.value, callee.slice
    elif isinstance(callee, ast.Call) and isinstance(callee.func, ast.Attribute) and callee.func.attr == "get" and callee.args:
        table, key = callee.func.value, callee.args[0]
    if table is None:
        return None
    lit = None
    if isinstance(table, ast.Name):
        lit = repo.module_assign(mod, table.id)
    elif isinstance(table, ast.Attribute) and isinstance(table.value, ast.Name):
        ci = repo.resolve_class(table.value.id, mod)
        if ci is not None:
            lit = repo.class_attr(ci, table.attr)
    if not isinstance(lit, ast.Dict):
        return None
    kv = ev.ev(key, env)
    if isinstance(kv, (Sym, CallVal)):
        return None
    ev_t = ConstEval(repo, mod)
    for k, v in zip(lit.keys, lit.values):
        if k is not None and ev_t.ev(k) == kv:
            return v
    return None


def _resolve_value(repo, fi, node, env, depth=0):
    """Follow a value expression to the expression that actually builds it: locals through the assignment
    taken under env, calls to same-module functions / self. helpers through the return taken under env.
    Returns (expression AST, function it lives in, env there)."""
    if node is None or depth > 6:
        return node, fi, env
    ev = ConstEval(repo, fi.module)
    if isinstance(node, ast.Name):
        v = _taken_assign(ev, fi.node, env, node.id)
        if v is not None and v is not node:
            return _resolve_value(repo, fi, v, env, depth + 1)
        return node, fi, env
    if isinstance(node, ast.Subscript) and isinstance(node.slice, ast.Constant) and isinstance(node.slice.value, int) \
            and isinstance(node.value, ast.Call):
        # component of a tuple-returning helper (`a, b = helper(..)`): follow the helper's taken return
        inner, fi2, env2 = _resolve_value(repo, fi, node.value, env, depth + 1)
        if isinstance(inner, ast.Tuple) and node.slice.value < len(inner.elts) and inner is not node.value:
            return _resolve_value(repo, fi2, inner.elts[node.slice.value], env2, depth + 1)
        return node, fi, env
    if isinstance(node, ast.Call):
        target = None
        # callable chosen from a constant dispatch table: TABLE[key](...) / TABLE.get(key)(...) / f = TABLE.get(key); f(...)
        callee = node.func
        if isinstance(callee, ast.Name):
            cv = _taken_assign(ev, fi.node, env, callee.id)
            if cv is not None:
                callee = cv
        row = _dispatch_row(repo, fi.module, ev, callee, env)
        if isinstance(row, ast.Lambda):
            ps = [a.arg for a in row.args.args]
            env2 = dict(env)
            for pname, anode in zip(ps, node.args):
                val = ev.ev(anode, env)
                env2[pname] = val
                # attribute paths of the argument keep their meaning under the parameter's name
                apath = ap(anode)
                if apath:
                    for k, v in env.items():
                        if k.startswith(apath + "."):
                            env2[pname + k[len(apath):]] = v
            return _resolve_value(repo, _LambdaFn(fi, row), row.body, env2, depth + 1)
        if isinstance(row, ast.Name):
            node = ast.copy_location(ast.Call(func=row, args=node.args, keywords=node.keywords), node)
        # <record>.method(..): the receiver is a local holding a constant table row
        if isinstance(node.func, ast.Attribute) and isinstance(node.func.value, ast.Name):
            rname = node.func.value.id
            rv = env.get(rname)
            if rv is None:
                va = _taken_assign(ev, fi.node, env, rname)
                if va is not None:
                    rv = ev.ev(va, env)
            from ..consteval import RecordVal
            if isinstance(rv, RecordVal):
                rc = repo.classes.get(rv.cls, [])
                m = repo.lookup_method(rc[0], node.func.attr) if len(rc) == 1 else None
                if m is not None:
                    ps = [a.arg for a in m.node.args.args]
                    env2 = {ps[0]: rv} if ps else {}
                    for pname, anode in zip(ps[1:], node.args):
                        env2[pname] = ev.ev(anode, env)
                    r = _taken_return(ConstEval(repo, m.module), m.node.body, env2)
                    if r is not None:
                        return _resolve_value(repo, m, r, env2, depth + 1)
        if isinstance(node.func, ast.Name):
            cands = [g for g in repo.funcs.get(node.func.id, []) if g.module is fi.module and g.cls is None and g.parent_fn is None]
            target = cands[0] if len(cands) == 1 else None
        elif isinstance(node.func, ast.Attribute) and isinstance(node.func.value, ast.Name) and \
                node.func.value.id in ("self", "cls") and fi.cls is not None:
            target = repo.lookup_method(fi.cls, node.func.attr)
        if target is not None:
            ps = [a.arg for a in target.node.args.args if a.arg not in ("self", "cls")]
            env2 = {}
            pairs = list(zip(ps, node.args)) + [(k.arg, k.value) for k in node.keywords if k.arg]
            for pname, anode in pairs:
                env2[pname] = ev.ev(anode, env)
                # attribute paths of the argument keep their meaning under the parameter's name
                apath = ap(anode)
                if apath:
                    for k_, v_ in env.items():
                        if k_.startswith(apath + "."):
                            env2[pname + k_[len(apath):]] = v_
            ev2 = ConstEval(repo, target.module)
            r = _taken_return(ev2, target.node.body, env2)
            if r is not None:
                return _resolve_value(repo, target, r, env2, depth + 1)
    return node, fi, env


def _num_layout(value_node, ev=None, env=None, resolve_name=None, _depth=0):
    """(ff_prefix_len, struct fmt) of a message-number byte expression like b'\xff\xff' + struct.pack('!H', n)
    or struct.pack('!BBH', 0xff, 0xff, n).  Operands that are not literals are evaluated under env (fields of a
    constant table row, module constants)."""
    ff = 0
    fmt = None

    def const(n, typ):
        if isinstance(n, ast.Constant) and isinstance(n.value, typ):
            return n.value
        if ev is not None and isinstance(n, (ast.Name, ast.Attribute, ast.Subscript)):
            v = ev.ev(n, env or {})
            if isinstance(v, typ) and not isinstance(v, bool):
                return v
        return None
    skip = set()
    for n in ast.walk(value_node):
        if id(n) in skip:
            continue
        if isinstance(n, ast.Name) and resolve_name is not None and _depth < 4 and const(n, bytes) is None and \
                const(n, str) is None and const(n, int) is None:
            # a local that holds part of the byte string (num_bytes = struct.pack(..)): look into its assignment
            sub = resolve_name(n.id)
            if sub is not None and sub is not n:
                lay = _num_layout(sub, ev, env, resolve_name, _depth + 1)
                if lay is not None:
                    ff += lay[0]
                    fmt = lay[1] or fmt
                continue
        bv = const(n, bytes) if not isinstance(n, ast.Call) else None
        if bv is not None:
            for sub in ast.walk(n):
                skip.add(id(sub))
            if set(bv) - {0xFF}:
                return None
            ff += len(bv)
        elif isinstance(n, ast.Call) and isinstance(n.func, ast.Attribute) and n.func.attr == "pack" and ev is not None \
                and isinstance(ev.ev(n.func.value, env or {}), StructVal):
            # <precompiled struct>.pack(n): the struct object is a constant (module constant / field of a table row)
            f = ev.ev(n.func.value, env or {}).fmt
            for sub in ast.walk(n.func):
                skip.add(id(sub))
            if len(n.args) != 1:
                return None
            fmt = f
        elif isinstance(n, ast.Call) and ap(n.func) == "struct.pack" and n.args and const(n.args[0], str) is not None:
            f = const(n.args[0], str)
            for sub in ast.walk(n.args[0]):
                skip.add(id(sub))
            body = f.lstrip("<>!=@")
            order = f[:len(f) - len(body)]
            lead = 0
            for a in n.args[1:-1]:
                if isinstance(a, ast.Constant) and a.value == 0xFF:
                    lead += 1
                elif isinstance(a, ast.Starred) and ev is not None:
                    # *ff_prefix: a constant tuple of 0xFF fillers
                    tv = ev.ev(a.value, env or {})
                    if isinstance(tv, (tuple, list)) and all(x == 0xFF for x in tv):
                        lead += len(tv)
                        for sub in ast.walk(a):
                            skip.add(id(sub))
                    else:
                        return None
                else:
                    return None
            if lead:
                if body[:lead] != "B" * lead:
                    return None
                ff += lead
                body = body[lead:]
            fmt = order + body
    return (ff, fmt) if fmt else None


def r7(ctx):
    repo = ctx.repo
    ctx.rule("C01.R7", "message-number framing tables agree: per frequency the bytes built by the template "
                       "dictionary/parser (FF-prefix + width) match the reader's _MSG_NUM_SPECS row, its "
                       "frequency name, the body skip length and the header byte order")
    dmod = repo.module(DES)
    specs = repo.module_assign(dmod, "_MSG_NUM_SPECS")
    rows = []
    ctx.require(isinstance(specs, (ast.Tuple, ast.List)), "C01.R7: _MSG_NUM_SPECS is not a tuple literal")
    for row in specs.elts:
        pr_ = as_pair(repo, dmod, row)
        ctx.require(pr_ is not None, f"C01.R7: _MSG_NUM_SPECS row `{norm(row)}` is not a (name, spec) pair")
        nm = pr_[0].value if isinstance(pr_[0], ast.Constant) else None
        rows.append((nm, struct_fmt_of_prim(repo, spec_symbol(pr_[1]) or "")))
    freq = enum_members(repo, repo.cls("MsgFrequency", TYPES))
    ctx.floor("C01.R7", "MsgFrequency members", len(freq), 4)
    td = "hippolyzer/lib/base/message/template_dict.py"
    bmi = repo.fn("TemplateDictionary.build_message_ids")
    bd = repo.fn("TemplateDictionary.build_dictionaries")
    snt = parser_stage(repo, "MESSAGE_HEADER_RE", "_start_new_template")
    glen = repo.fn("MessageTemplate.get_msg_freq_num_len")
    hf = repo.fn("UDPMessageDeserializer._parse_message_header")
    hdr_order = {c.args[0].value for c in find_calls(hf.node, "BufferReader") if c.args and isinstance(c.args[0], ast.Constant)}
    for m, mv in freq.items():
        fv = EnumVal("MsgFrequency", m, mv)
        for f, var in ((bmi, "frequency"), (snt, "frequency")):
            ev = ConstEval(repo, f.module)
            env = {var: fv, "template.frequency": fv, "new_template.frequency": fv}
            # the expression finally stored into <template>.freq_num_bytes, followed through locals and helpers
            sts = [st_ for st_ in stores(f.node, into_defs=False) if st_.kind == "assign" and st_.path.endswith(".freq_num_bytes")]
            node = None
            fi_n, env_n = f, dict(env)
            if sts:
                # the store taken under this frequency (several stores may sit on different branches)
                taken = _taken_assign(ev, f.node, dict(env), sts[-1].path)
                node, fi_n, env_n = _resolve_value(repo, f, taken if taken is not None else sts[-1].value, dict(env))
                if isinstance(node, ast.Name):
                    node = None
            if node is None and sts:
                raise AnalysisError(f"C01.R7: {f.qual}: cannot follow the value stored into freq_num_bytes for {m} "
                                    f"(`{norm(sts[-1].value)}`)")
            ctx.ob("C01.R7", f"{f.qual}: builds number bytes for {m}", node is not None, f.where)
            if node is None:
                continue
            ev_n = ConstEval(repo, fi_n.module)
            fn_node_n = getattr(fi_n, "node", None)

            def _local(name, _ev=ev_n, _fn=fn_node_n, _env=env_n):
                return _taken_assign(_ev, _fn, _env, name) if _fn is not None else None
            # locals of the building function that are computable under this frequency (a row looked up in a constant
            # table, a format taken from it, a filler tuple sized from the format) become part of the environment
            if fn_node_n is not None:
                for _ in range(3):
                    for nm in sorted({x.id for x in ast.walk(fn_node_n) if isinstance(x, ast.Name)} - set(env_n)):
                        va = _local(nm)
                        if va is not None:
                            val_ = ev_n.ev(va, env_n)
                            if is_const(val_) or type(val_).__name__ == "RecordVal":
                                env_n[nm] = val_
            lay = _num_layout(node, ev_n, env_n, _local)
            if lay is None:
                raise AnalysisError(f"C01.R7: {f.qual} number bytes for {m} not analysable: {norm(node)}")
            k, fmt = lay
            body = fmt.lstrip("<>!=@")
            order = fmt[:len(fmt) - len(body)]
            ok_row = k < len(rows) and rows[k][1] == body
            ctx.ob("C01.R7", f"{f.qual}: {m} -> FF*{k} + '{body}' matches _MSG_NUM_SPECS[{k}]", ok_row, ctx.w(f, node),
                   f"reader row {rows[k] if k < len(rows) else None}")
            if struct.calcsize("<" + body) > 1:
                ctx.ob("C01.R7", f"{f.qual}: {m} multi-byte number byte order equals header reader", {order or "@"} == hdr_order,
                       ctx.w(f, node), f"packed {order!r}, header reader {sorted(hdr_order)}")
            if f is bmi:
                # frequency name used as dictionary key must be the reader's row name
                ev2 = ConstEval(repo, bd.module)
                # first element of the (frequency name, num) key stored into message_dict
                nm = None
                for st_ in stores(bd.node, into_defs=False):
                    if st_.kind == "setitem" and st_.path.endswith(".message_dict") and isinstance(st_.target, ast.Subscript):
                        keyn = st_.target.slice
                        if isinstance(keyn, ast.Name):
                            keyn, _, _ = _resolve_value(repo, bd, keyn, {"template.frequency": fv})
                        if isinstance(keyn, ast.Tuple) and keyn.elts:
                            first, fi2, env2 = _resolve_value(repo, bd, keyn.elts[0], {"template.frequency": fv})
                            nm = ConstEval(repo, fi2.module).ev(first, env2)
                ctx.ob("C01.R7", f"lookup key name for {m} equals reader row name", k < len(rows) and nm == rows[k][0], bd.where,
                       f"dictionary key {nm!r}, reader row {rows[k][0] if k < len(rows) else None!r}")
                # body skip length
                ev3 = ConstEval(repo, glen.module)
                from ..miniinterp import run_block as _rb
                try:
                    out = _rb(ev3, glen.node.body, {"self.frequency": fv})
                    ln = out.value.value if isinstance(out.value, EnumVal) else out.value
                except AnalysisError as e:
                    raise AnalysisError(f"C01.R7: get_msg_freq_num_len: {e}")
                ctx.ob("C01.R7", f"get_msg_freq_num_len({m}) == len(number bytes)", ln == k + struct.calcsize("<" + body),
                       glen.where, f"returns {ln}, bytes are {k}+{struct.calcsize('<' + body)}")
    # reader: the FF-prefix length is the number of LEADING 0xFF bytes.  _parse_msg_num is interpreted on every 3-byte
    # window over {00, 01, FF}: the frequency row it picks and the bytes it skips must be those of the leading run
    pn = repo.fn("_parse_msg_num", DES)
    import itertools as _it
    n_win = 0
    bad_win = []
    for win in _it.product((0x00, 0x01, 0xFF), repeat=3):
        window = bytes(win)
        lead = len(window) - len(window.lstrip(b"\xff"))
        consumed = []
        pev = ConstEval(repo, pn.module)

        def rhook(node, fn, args, kwargs, local, _w=window, _c=consumed):
            last = fn.split(".")[-1]
            if last == "read_bytes" and args and isinstance(args[0], int):
                if kwargs.get("peek") is True:
                    return _w[:args[0]]
                _c.append(args[0])
                return _w[:args[0]]
            if last == "seek" and args and isinstance(args[0], int) and len(args) == 2:
                _c.append(args[0])
                return 0
            return None
        pev.call_hook = rhook
        try:
            out = run_block(pev, [st_ for st_ in pn.node.body if not (isinstance(st_, ast.Expr) and isinstance(st_.value, ast.Constant))],
                            {a.arg: Sym(a.arg) for a in pn.node.args.args})
        except AnalysisError as e:
            raise AnalysisError(f"C01.R7: cannot evaluate _parse_msg_num on window {window.hex()}: {e}")
        n_win += 1
        got_name = out.value[0] if out.kind == "return" and isinstance(out.value, (tuple, list)) and out.value else None
        exp_name = rows[lead][0] if lead < len(rows) else None
        if got_name != exp_name or sum(consumed) != lead:
            bad_win.append((window.hex(), got_name, sum(consumed), exp_name, lead))
    ctx.ob("C01.R7", "reader takes the LEADING 0xFF run as the frequency prefix (all 27 windows over {00,01,FF})", not bad_win,
           pn.where, f"e.g. window {bad_win[0][0]}: frequency {bad_win[0][1]!r}, {bad_win[0][2]} prefix byte(s) skipped; the "
           f"leading run is {bad_win[0][4]} -> {bad_win[0][3]!r}" if bad_win else "")
    ctx.floor("C01.R7", "message-number windows evaluated", n_win, 27)
    # writer puts freq_num_bytes then extra; reader skips num_len + offset
    sf = repo.fn("UDPMessageSerializer.serialize")
    order_ok = False
    where_w = sf.where
    for f in class_methods_reachable(repo, sf, depth=3):
        wbs = sorted(find_calls(f.node, "write_bytes", into_defs=False), key=lambda c: (c.lineno, c.col_offset))
        for i, c in enumerate(wbs):
            if c.args and (ap(c.args[0]) or "").endswith(".freq_num_bytes"):
                recv = ap(c.func.value) if isinstance(c.func, ast.Attribute) else None
                same = [x for x in wbs if isinstance(x.func, ast.Attribute) and ap(x.func.value) == recv]
                where_w = ctx.w(f, c)
                order_ok = len(same) >= 2 and same[0] is c and (ap(same[1].args[0]) or "").endswith(".extra")
    ctx.ob("C01.R7", "body writer emits freq_num_bytes then extra first", order_ok, where_w)
    bfs = class_methods_reachable(repo, repo.fn("UDPMessageDeserializer.parse_message_body"), depth=2)
    seeks = [(f, c) for f in bfs for c in find_calls(f.node, "seek")]
    oks = any(isinstance(c.args[0], ast.BinOp) and isinstance(c.args[0].op, ast.Add) and
              {"get_msg_freq_num_len", "offset"} <= {x.split(".")[-1].replace("()", "") for x in
                                                     [ap(c.args[0].left) or "", ap(c.args[0].right) or ""]}
              for f, c in seeks if c.args)
    ctx.ob("C01.R7", "body reader skips get_msg_freq_num_len() + offset", oks, DES)


def r8(ctx):
    repo = ctx.repo
    ctx.rule("C01.R8", "reader accepts every framing the writer can emit: the 'message is empty' rejection tests "
                       "only which block lists were seen (zero-count Variable blocks are legal), and the ack "
                       "trailer is written under exactly the condition the reader reads it under")
    bfs = class_methods_reachable(repo, repo.fn("UDPMessageDeserializer.parse_message_body"), depth=2)
    n = 0
    for f in bfs:
        for r in [x for x in walk(f.node) if isinstance(x, ast.Raise)]:
            # rejections outside the per-variable loop that look at the collected blocks
            fs = facts(r, f.node)
            blockish = [(e, pol) for e, pol in fs if any((p or "").endswith(".blocks") or ".blocks." in (p or "") or
                                                         ".blocks[" in (p or "")
                                                         for p in [ap(x) for x in ast.walk(e)
                                                                   if isinstance(x, (ast.Attribute, ast.Subscript, ast.Call))])]
            if not blockish or any(isinstance(a, (ast.For, ast.While)) for a in _anc(r) if a is not f.node):
                continue
            n += 1
            for e, pol in blockish:
                p = ap(e)
                plain = p is not None and p.endswith(".blocks") and not isinstance(e, ast.Call)
                ctx.ob("C01.R8", f"{f.qual}: rejection after the block walk tests plain `{norm(e)}`", plain, ctx.w(f, r),
                       "an emptiness test over block *entries* rejects legal messages whose Variable blocks all have count 0")
    ctx.floor("C01.R8", "emptiness rejections", n, 1)
    # ack trailer presence condition equal on both sides
    sf = repo.fn("UDPMessageSerializer.serialize")
    hf = repo.fn("UDPMessageDeserializer._parse_message_header")

    def ack_guard(f, opname, ack_side):
        """spec writes/reads that belong to the ack trailer with the atoms of the conditions they sit under.
        Writer side: every conditional spec write on the header writer (the three header fields are
        unconditional).  Reader side: spec reads under the has_acks flag."""
        out = []
        from ..core import conditions
        recvs = {ap(c.func.value) for c in find_calls(f.node, opname, into_defs=False)
                 if isinstance(c.func, ast.Attribute) and ap(c.func.value)}
        recvs |= {st.path for st in stores(f.node, into_defs=False) if st.kind == "assign" and
                  isinstance(st.value, ast.Call) and call_attr(st.value) in ("BufferWriter", "BufferReader")}
        if ack_side == "writer":
            # the header writer is the one whose buffer the function returns
            returned = {ap(n) for r_ in walk(f.node) if isinstance(r_, ast.Return) and r_.value is not None
                        for n in ast.walk(r_.value) if isinstance(n, (ast.Name, ast.Attribute)) and ap(n) in recvs}
            recvs = returned or recvs
        for c, fn, chain in flat_ops(repo, f, opname, recvs):
            conds = [cond for site, sfn in chain + [(c, fn)] for cond in conditions(site, sfn.node)]
            atoms_ = set()
            branchy = False
            for cond in conds:
                if cond.kind == "early-exit":
                    ifst = parent(cond.test)
                    exit_branch = ifst.body if not cond.polarity else ifst.orelse
                    if isinstance(ifst, ast.If) and exit_branch and isinstance(exit_branch[-1], ast.Raise):
                        continue  # a rejection (raise) is not a framing condition
                if cond.kind in ("if", "early-exit"):
                    branchy = True
                for e, pol in atoms(cond.test, cond.polarity):
                    atoms_.add((re_sub_recv(src(e)), pol))
            if ack_side == "reader":
                if any(has_path_fact(site, "has_acks", True, sfn.node) for site, sfn in chain + [(c, fn)]):
                    out.append((c, atoms_))
            elif branchy:
                out.append((c, atoms_))
        return out

    def re_sub_recv(text):
        import re
        return re.sub(r"\b(msg|message|self)\.", "M.", text)
    w = ack_guard(sf, "write", "writer")
    r = ack_guard(hf, "read", "reader")
    ctx.floor("C01.R8", "ack trailer reads", len(r), 2)
    ctx.ob("C01.R8", "serializer writes an ack trailer (element loop + count) under a condition", len(w) >= 2, sf.where,
           f"found {len(w)} conditional spec writes on the header writer")
    r_atoms = set.intersection(*[a for _, a in r]) if r else set()
    for c, a in w:
        extra = {x for x in a if x not in r_atoms and x != ("M.has_acks", True)}
        if ("M.has_acks", True) not in a:
            extra.add(("M.has_acks flag not tested", False))
        ctx.ob("C01.R8", f"ack trailer write `{norm(c)}` guarded exactly like the reader's trailer read", not extra,
               ctx.w(sf, c), f"writer adds condition(s) {sorted(extra)}: the ACK flag is already in the header, so the "
               f"reader would still strip a trailer")


def r11(ctx):
    repo = ctx.repo
    ctx.rule("C01.R11", "framing totality: the writer rejects a Variable block count only when it does not fit the count "
                        "spec (every count the reader accepts can be written), and the reader strips the ack trailer "
                        "under the ACK flag alone")
    wb_ = writer_stage(repo, "block")
    ev = ConstEval(repo, wb_.module)
    counts = [c for c in find_calls(wb_.node, "write") if c.args and spec_symbol(c.args[0]) and
              has_eq_fact(c, ".block_type", "MsgBlockType.MBT_VARIABLE", wb_.node)]
    ctx.require(len(counts) == 1, "C01.R11: block count write not found (see C01.R3)")
    fmt = struct_fmt_of_prim(repo, spec_symbol(counts[0].args[0]))
    max_val = (1 << (8 * struct.calcsize("<" + fmt))) - 1
    cnt = counts[0].args[1]
    cnt_names = {ap(cnt)} if ap(cnt) else set()
    if isinstance(cnt, ast.Call) and ap(cnt.func) == "len":
        cnt_names = set()
    # every local that holds len(block_list)
    for st in stores(wb_.node, into_defs=False):
        if st.kind == "assign" and isinstance(st.value, ast.Call) and ap(st.value.func) == "len":
            cnt_names.add(st.path)
    n_checked = 0
    for r in [x for x in walk(wb_.node) if isinstance(x, ast.Raise)]:
        from ..core import conditions
        for cond in conditions(r, wb_.node):
            if cond.kind not in ("if", "early-exit"):
                continue
            names = {n.id for n in ast.walk(cond.test) if isinstance(n, ast.Name)}
            hit = names & cnt_names
            if not hit:
                continue
            name = sorted(hit)[0]
            rejected = []
            undecided = False
            for n in range(0, max_val + 1):
                v = ev.ev(cond.test, {name: n})
                if isinstance(v, (Sym, CallVal)):
                    undecided = True
                    break
                if bool(v) == cond.polarity:
                    rejected.append(n)
            if undecided:
                continue   # compares with the template's own number (MBT_MULTIPLE): C01.R3
            n_checked += 1
            ctx.ob("C01.R11", f"_serialize_block: rejection `{norm(cond.test)}` refuses no count that fits the {fmt!r} count byte",
                   not rejected, ctx.w(wb_, r), f"refuses representable count(s) {rejected[:3]}{'...' if len(rejected) > 3 else ''} "
                   f"which the reader accepts")
    ctx.stats["C01.R11.count_rejections"] = n_checked
    # reader: everything that handles the trailer depends on the ACK flag alone
    hf0 = repo.fn("UDPMessageDeserializer._parse_message_header")
    from ..core import conditions
    n = 0
    # the trailer handling may live in helpers that the header parser calls under the ACK flag: their statements
    # inherit that condition from the call site (and any further condition there counts as an extra one)
    sites = [(hf0, st, []) for st in stores(hf0.node, into_defs=False)]
    for c in calls(hf0.node):
        tgt = None
        if isinstance(c.func, ast.Attribute) and isinstance(c.func.value, ast.Name) and c.func.value.id in ("self", "cls") \
                and hf0.cls is not None:
            tgt = repo.lookup_method(hf0.cls, c.func.attr)
        if tgt is not None and tgt is not hf0 and has_path_fact(c, "has_acks", True, hf0.node):
            sites.extend((tgt, st, list(conditions(c, hf0.node))) for st in stores(tgt.node, into_defs=False))
    for hf, st, inherited in sites:
        if st.kind not in ("assign", "augassign") or "." in st.path:
            continue
        if not inherited and not has_path_fact(st.node, "has_acks", True, hf.node):
            continue
        # only the statements that cut the trailer off: the size bookkeeping and the data snip
        if not (st.kind == "augassign" or (isinstance(st.value, ast.Subscript) and isinstance(st.value.slice, ast.Slice))):
            continue
        extra = []
        for cond in list(conditions(st.node, hf.node)) + inherited:
            if cond.kind == "early-exit":
                ifst = parent(cond.test)
                exit_branch = ifst.body if not cond.polarity else ifst.orelse
                if isinstance(ifst, ast.If) and exit_branch and isinstance(exit_branch[-1], ast.Raise):
                    continue
            if cond.kind in ("while",):
                continue
            for e, pol in atoms(cond.test, cond.polarity):
                if not ((ap(e) or "").endswith("has_acks") and pol):
                    extra.append(norm(e))
        n += 1
        ctx.ob("C01.R11", f"{hf.name}: `{norm(st.node)}` (trailer cut) depends on the ACK flag alone", not extra,
               ctx.w(hf, st.node), f"also conditioned on {extra}: with the flag set the writer always emits the count byte, "
               f"so it must always be cut off")
    ctx.floor("C01.R11", "trailer cut statements", n, 2)


def r9(ctx):
    """The string packer/decoder inverse idiom is also a C01 clause (value round-trip of text variables)."""
    from ..engine import RenamedCtx
    from . import c02
    ctx.rule("C01.R9", "text variables: packer appends exactly one terminator and the reader strips exactly one "
                       "(re-runs C02.R4 under C01)")
    c02.r4(RenamedCtx(ctx, {"C02.R4": "C01.R9"}))


def r10(ctx):
    repo = ctx.repo
    ctx.rule("C01.R10", "changing the extra header bytes re-frames the body: Message.extra's setter forces the lazy parse "
                        "before it changes raw_extra / offset (the pending raw body was cut with the old offset)")
    from ..cfg import CFG
    f = repo.fn("Message.extra.setter")
    cfg = CFG(f.node)
    parse_nodes = [n for n in cfg.nodes if n.ast is not None and n.kind == "stmt" and
                   (any(call_attr(c) in ("ensure_parsed",) for c in calls(n.ast)) or
                    any(isinstance(x, ast.Attribute) and x.attr == "blocks" and isinstance(x.ctx, ast.Load) for x in walk(n.ast)))]
    sts = [st for st in stores(f.node, into_defs=False) if st.kind in ("assign", "augassign") and
           st.path.split(".")[-1] in ("raw_extra", "offset")]
    ctx.floor("C01.R10", "stores to raw_extra/offset in the extra setter", len(sts), 2)
    for st in sts:
        nodes = cfg.stmt_nodes_containing(st.node) or cfg.nodes_for(st.node)
        # no path from entry to the store that avoids the forced parse
        reach = cfg.reachable([cfg.entry], avoid=lambda n: n in parse_nodes, exc=False)
        ok = bool(parse_nodes) and not any(n in reach for n in nodes)
        ctx.ob("C01.R10", f"Message.extra setter: `{norm(st.node)}` happens after ensure_parsed()", ok, ctx.w(f, st.node),
               "a lazily held body would be parsed later with the new offset against bytes framed with the old one")


def _deref_class_alias(fn_node, expr):
    """`layout = PacketLayout` ... `layout.ACK_LENGTH` -> `PacketLayout.ACK_LENGTH` (a local bound once to a dotted name)"""
    from .common import assigned_value
    if isinstance(expr, ast.Attribute) and isinstance(expr.value, ast.Name):
        al = assigned_value(fn_node, expr.value.id)
        if len(al) == 1 and isinstance(al[0], (ast.Name, ast.Attribute)) and ap(al[0]):
            return ast.copy_location(ast.Attribute(value=al[0], attr=expr.attr, ctx=ast.Load()), expr)
    return expr


def _groups_read(repo, f, depth):
    """group numbers (> 0) read from the match object in f, also in one call `m.group(1, 2, 3)`, and in the helpers the
    match is handed to (a module function, a method of this class, a constructor classmethod of a record class)"""
    out = set()
    for c in find_calls(f.node, "group"):
        if c.args and all(isinstance(a, ast.Constant) and isinstance(a.value, int) for a in c.args):
            out |= {a.value for a in c.args if a.value > 0}
    if depth >= 2:
        return out
    params = [a.arg for a in f.node.args.args if a.arg not in ("self", "cls")]
    for c in calls(f.node):
        if not any(isinstance(a, ast.Name) and a.id in params for a in c.args):
            continue
        tgt = None
        if isinstance(c.func, ast.Name):
            cands = [g for g in repo.funcs.get(c.func.id, []) if g.module is f.module and g.cls is None and g.parent_fn is None]
            tgt = cands[0] if len(cands) == 1 else None
        elif isinstance(c.func, ast.Attribute) and isinstance(c.func.value, ast.Name):
            if c.func.value.id in ("self", "cls") and f.cls is not None:
                tgt = repo.lookup_method(f.cls, c.func.attr)
            else:
                ci = repo.resolve_class(c.func.value.id, f.module)
                tgt = repo.lookup_method(ci, c.func.attr) if ci is not None else None
        if tgt is not None and tgt is not f:
            out |= _groups_read(repo, tgt, depth + 1)
    return out


def r12(ctx):
    """The template parser reads the shipped template file through three regular expressions.  They are constants
    of the source, the template is a data file: apply each pattern (stdlib `re`, no repository code runs) to every
    line of its kind and compare the captured groups with an independent whitespace tokenisation of that line."""
    import os
    import re as _re
    from ..tmplmodel import TEMPLATE_REL
    repo = ctx.repo
    ctx.rule("C01.R12", "template grammar agreement: MESSAGE_HEADER_RE / BLOCK_HEADER_RE / BLOCK_DATA_RE capture, on every "
                        "line of message_template.msg of their kind, exactly the tokens an independent tokenisation "
                        "of that line yields (name, type, size / count / frequency ...)")
    pc = repo.cls("MessageTemplateParser")
    pats = {}
    for name in ("MESSAGE_HEADER_RE", "BLOCK_HEADER_RE", "BLOCK_DATA_RE"):
        v = repo.class_attr(pc, name)
        if v is None:
            v = repo.module_assign(pc.module, name)
        ctx.require(isinstance(v, ast.Call) and (ap(v.func) or "").endswith("compile") and v.args,
                    f"C01.R12: MessageTemplateParser.{name} is not a re.compile(<literal>) constant")
        lit = ConstEval(repo, pc.module).ev(v.args[0])
        ctx.require(isinstance(lit, str), f"C01.R12: pattern of {name} is not a literal")
        flags = 0
        try:
            pats[name] = _re.compile(lit, flags)
        except _re.error as e:
            ctx.ob("C01.R12", f"{name} compiles", False, ctx.w(pc.module, v), f"invalid pattern: {e}")
            return
    # which groups the parser takes from each match (read from the _start_new_* methods)
    used = {}
    for name, meth in (("MESSAGE_HEADER_RE", "_start_new_template"), ("BLOCK_HEADER_RE", "_start_new_block"),
                       ("BLOCK_DATA_RE", "_start_new_var")):
        f = parser_stage(repo, name, meth)
        gs = sorted(_groups_read(repo, f, 0))
        ctx.require(bool(gs), f"C01.R12: {meth} reads no match group")
        used[name] = gs
    path = os.path.join(repo.root, TEMPLATE_REL)
    if TEMPLATE_REL in repo.overlay:
        text = repo.overlay[TEMPLATE_REL]
    else:
        with open(path, encoding="utf8", errors="replace") as fh:
            text = fh.read()
    depth = 0
    counts = {"MESSAGE_HEADER_RE": 0, "BLOCK_HEADER_RE": 0, "BLOCK_DATA_RE": 0}
    bad = {k: [] for k in counts}
    for ln, line in enumerate(text.splitlines(), 1):
        code = line.split("//", 1)[0]
        if not code.strip():
            continue
        opens, closes = code.count("{"), code.count("}")
        d = depth + opens
        words = code.replace("{", " ").replace("}", " ").split()
        kind = {1: "MESSAGE_HEADER_RE", 2: "BLOCK_HEADER_RE", 3: "BLOCK_DATA_RE"}.get(d)
        minw = {1: 5, 2: 2, 3: 2}.get(d, 99)
        if kind and len(words) >= minw and words[0] != "version":
            counts[kind] += 1
            m = pats[kind].match(line)
            # independent expectation, by group number as the parser uses them
            if kind == "MESSAGE_HEADER_RE":
                exp = {1: words[0], 2: words[1], 3: words[2], 4: words[3], 5: words[4], 7: words[5] if len(words) > 5 else None}
            else:
                exp = {1: words[0], 2: words[1], 4: words[2] if len(words) > 2 else None}
            got = {g: (m.group(g) if m and g <= (m.re.groups) else None) for g in used[kind]} if m else None
            if got is None or any(got.get(g) != exp.get(g) for g in used[kind] if g in exp):
                bad[kind].append((ln, " ".join(words), got))
        depth = d - closes
    tm = parse_template(repo.root, repo.overlay)
    n_vars = sum(len(b.vars) for m_ in tm.values() for b in m_.blocks)
    n_blocks = sum(len(m_.blocks) for m_ in tm.values())
    ctx.require(counts["BLOCK_DATA_RE"] == n_vars and counts["BLOCK_HEADER_RE"] == n_blocks and
                counts["MESSAGE_HEADER_RE"] == len(tm),
                f"C01.R12: line classification disagrees with the template model ({counts} vs {len(tm)}/{n_blocks}/{n_vars})")
    for kind in counts:
        b = bad[kind]
        ctx.ob("C01.R12", f"{kind} captures the tokens of every line of its kind", not b, f"{pc.module.rel}:{pc.node.lineno}",
               f"{len(b)} of {counts[kind]} lines are read differently, e.g. line {b[0][0]} `{b[0][1]}` -> {b[0][2]}" if b else "")


def r19(ctx):
    """One body reader.  Every method of the deserializer that builds a message's blocks (add_block / create_block_list)
    gets the body through the zero-coding expansion when the message is flagged zero-coded: it holds the
    `zero_code_expand` call under the `.zerocoded` fact itself, or every method of the class that calls it does (the
    expanded body is handed down).  A second, specialised body parser that branches off in front of the expansion reads
    a zero-coded body as if it were plain."""
    repo = ctx.repo
    ctx.rule("C01.R19", "every block-building body parser of the deserializer sits behind the zero-coding expansion: it (or every "
                        "caller inside the class) expands the body under msg.zerocoded before reading it")
    ci = repo.cls("UDPMessageDeserializer")
    meths = {}
    for k in repo.mro(ci):
        for nm, f in k.methods.items():
            meths.setdefault(nm, f)
    # helpers and collaborator classes of the deserializer's module take part too (block reading moved out of the class)
    pool = list(meths.values())
    for g in repo.all_funcs:
        if g.module is ci.module and g.parent_fn is None and all(g is not x for x in pool):
            pool.append(g)

    def builds(f):
        return any(isinstance(c.func, ast.Attribute) and c.func.attr in ("add_block", "create_block_list") for c in calls(f.node))

    def expanded_names(f):
        """locals of f that hold the result of zero_code_expand applied under the .zerocoded fact"""
        out = set()
        for st_ in stores(f.node, into_defs=False):
            if st_.kind == "assign" and "." not in st_.path and st_.value is not None and any(
                    isinstance(c, ast.Call) and call_attr(c) == "zero_code_expand" and has_path_fact(c, "zerocoded", True, f.node)
                    for c in ast.walk(st_.value)):
                out.add(st_.path)
        return out

    def is_factory(g):
        """hands back a reader / body built from the expanded body (`return BufferReader("<", raw_body)` after the expansion)"""
        names = expanded_names(g)
        return not builds(g) and bool(names) and any(
            isinstance(r, ast.Return) and r.value is not None and any(isinstance(n, ast.Name) and n.id in names for n in ast.walk(r.value))
            for r in walk(g.node))

    def called_name(c):
        return c.func.attr if isinstance(c.func, ast.Attribute) else c.func.id if isinstance(c.func, ast.Name) else None

    def expands(f):
        if any(has_path_fact(c, "zerocoded", True, f.node) for c in find_calls(f.node, "zero_code_expand")):
            return True
        # ... or it gets its reader / body from a factory helper that does (`reader = self._make_body_reader(msg, raw_body)`)
        return any(g is not f and g.name == called_name(c) and is_factory(g) for c in calls(f.node) for g in pool)

    def callers(f):
        # by name, whatever the receiver (self.x(..), x(..), Helper(..).x(..)); constructing a collaborator counts as
        # calling its __init__
        names = {f.name} | ({f.cls.name} if f.cls is not None and f.name == "__init__" else set())
        return [g for g in pool if g is not f and any(called_name(c) in names for c in calls(g.node))]

    def hands_down(g, f, depth):
        """every call of f in g passes a body g expanded itself, or a parameter of g that arrives expanded"""
        names = {f.name} | ({f.cls.name} if f.cls is not None and f.name == "__init__" else set())
        mine = expanded_names(g)
        params = {a.arg for a in g.node.args.args}
        ok_all = True
        for c in calls(g.node):
            if called_name(c) not in names:
                continue
            argn = {n.id for a in list(c.args) + [k.value for k in c.keywords] for n in ast.walk(a) if isinstance(n, ast.Name)}
            direct = any(isinstance(x, ast.Call) and call_attr(x) == "zero_code_expand" for a in c.args for x in ast.walk(a))
            if direct or (argn & mine):
                continue
            if (argn & params) and behind(g, depth + 1):
                continue
            ok_all = False
        return ok_all

    def behind(f, depth=0):
        if expands(f):
            return True
        cs = callers(f)
        return bool(cs) and depth < 3 and all(hands_down(g, f, depth) for g in cs)
    builders = [f for f in pool
                if any(isinstance(c.func, ast.Attribute) and c.func.attr in ("add_block", "create_block_list") for c in calls(f.node))]
    ctx.floor("C01.R19", "block-building methods of the deserializer", len(builders), 1)
    for f in sorted(builders, key=lambda g: g.name):
        ctx.ob("C01.R19", f"{f.qual}: blocks are built from a body that went through the zero-coding expansion", behind(f), f.where,
               f"{f.qual} builds blocks but neither it nor every caller inside the class expands the body under msg.zerocoded: a "
               f"zero-coded message of the kind it handles is parsed as if it were plain (wrong values or a parse error)")


def run(ctx):
    r19(ctx)
    r18(ctx)
    r17(ctx)
    r16(ctx)
    r15(ctx)
    r14(ctx)
    r13(ctx)
    r12(ctx)
    r11(ctx)
    r10(ctx)
    r9(ctx)
    r8(ctx)
    r7(ctx)
    r6(ctx)
    r1(ctx)
    r2_r3(ctx)
    r4(ctx)
    r5(ctx)
    ctx.assume("value-level equality (float corner cases; text/binary guessing beyond the ambiguous-name clause R13) is not decided statically")


def r13(ctx):
    """Blob variables stay bytes.  Whether a Variable/Fixed field is text or a blob is guessed from its name
    (MessageTemplateVariable.probably_binary / probably_text).  Reading a field as bytes is always value-preserving;
    reading it as text is not (the terminator is stripped and the value becomes a str).  So a variable of the bundled
    template whose name carries hints from more than one of the classifier's hint lists must take the lossless reading:
    the reader may never text-decode it.  Both predicates are evaluated by interpreting the class on every
    Variable/Fixed variable name of message_template.msg; the reader's decision is read off the conditions that guard
    its text-decoding return."""
    repo = ctx.repo
    ctx.rule("C01.R13", "blob variables stay bytes: a Variable/Fixed variable of the bundled template whose name matches more "
                        "than one of the classifier's hint lists (ambiguous) is never text-decoded by the reader")
    ci = repo.cls("MessageTemplateVariable")
    mt = enum_members(repo, repo.cls("MsgType", TYPES))
    tm = parse_template(repo.root, repo.overlay)
    names = {}
    for m in tm.values():
        for b in m.blocks:
            for v in b.vars:
                if v.type in ("Variable", "Fixed"):
                    names.setdefault((v.name, v.type), f"{m.name}.{b.name}")
    ctx.floor("C01.R13", "Variable/Fixed variables in the template", len(names), 100)

    def body(f):
        return [st for st in f.node.body if not (isinstance(st, ast.Expr) and isinstance(st.value, ast.Constant))]
    init = repo.lookup_method(ci, "__init__")
    getters = {p_: repo.lookup_method(ci, p_) for p_ in ("probably_binary", "probably_text")}
    ctx.require(init is not None and all(getters.values()), "C01.R13: MessageTemplateVariable lost __init__ / probably_binary / probably_text")
    ips = [a.arg for a in init.node.args.args]
    ctx.require(len(ips) >= 4, "C01.R13: MessageTemplateVariable.__init__(name, tp, size) changed shape")

    def classify(name, typ):
        tv = EnumVal("MsgType", "MVT_" + typ.upper(), mt["MVT_" + typ.upper()])
        env = {ips[0]: Sym("self:" + ci.name), ips[1]: name, ips[2]: tv, ips[3]: 1}
        run_block(ConstEval(repo, init.module), body(init), env)
        res = {}
        for p_, g in getters.items():
            sp = g.node.args.args[0].arg
            e2 = {sp + k[len(ips[0]):]: v for k, v in env.items() if k == ips[0] or k.startswith(ips[0] + ".")}
            out = run_block(ConstEval(repo, g.module), body(g), e2)
            if out.kind != "return" or not isinstance(out.value, bool):
                raise AnalysisError(f"C01.R13: {p_}({name!r}) does not evaluate to a bool ({out.kind}: {out.value!r})")
            res[p_] = out.value
        return res
    # the classifier's hint lists: string collections consulted by the class (directly, or through module constants / helpers)
    fns = [init] + list(getters.values())
    seen_f = {id(f.node) for f in fns}
    work = list(fns)
    while work:
        f = work.pop()
        for c in calls(f.node):
            tgt = None
            if isinstance(c.func, ast.Attribute) and isinstance(c.func.value, ast.Name) and c.func.value.id in ("self", "cls"):
                tgt = repo.lookup_method(ci, c.func.attr)
            elif isinstance(c.func, ast.Name):
                cands = [g for g in repo.funcs.get(c.func.id, []) if g.cls is None and g.parent_fn is None and g.module is ci.module]
                tgt = cands[0] if len(cands) == 1 else None
            if tgt is not None and id(tgt.node) not in seen_f:
                seen_f.add(id(tgt.node))
                fns.append(tgt)
                work.append(tgt)
    hint_lists = []
    for f in fns:
        for n in walk(f.node):
            lit = n
            if isinstance(n, ast.Name):
                lit = repo.module_assign(f.module, n.id)
            elif isinstance(n, ast.Attribute) and isinstance(n.value, ast.Name) and n.value.id in ("self", "cls"):
                lit = repo.class_attr(ci, n.attr)
            if isinstance(lit, ast.Call) and (ap(lit.func) or "") in ("frozenset", "set", "tuple") and len(lit.args) == 1:
                lit = lit.args[0]
            if isinstance(lit, (ast.Tuple, ast.List, ast.Set)) and len(lit.elts) >= 3 and \
                    all(isinstance(e, ast.Constant) and isinstance(e.value, str) for e in lit.elts):
                toks = tuple(e.value for e in lit.elts)
                if toks not in hint_lists:
                    hint_lists.append(toks)
    ctx.floor("C01.R13", "hint lists of the name classifier", len(hint_lists), 2)
    # the reader's text-decoding returns and the conditions on the two predicates that guard them
    rf = None

    def decodes_text(f, expr, depth=0):
        """expr text-decodes bytes: a `.decode(..)` call, a call of a helper (method of the same class / function of the
        same module) one of whose returns does, or a local of f bound to such an expression"""
        for c in ast.walk(expr):
            if isinstance(c, ast.Call) and isinstance(c.func, ast.Attribute) and c.func.attr == "decode":
                return True
            if isinstance(c, ast.Call) and depth < 2:
                tgt = None
                if isinstance(c.func, ast.Attribute) and isinstance(c.func.value, ast.Name) and c.func.value.id in ("self", "cls") \
                        and f.cls is not None:
                    tgt = repo.lookup_method(f.cls, c.func.attr)
                elif isinstance(c.func, ast.Name):
                    cs_ = [g for g in repo.funcs.get(c.func.id, []) if g.cls is None and g.parent_fn is None and g.module is f.module]
                    tgt = cs_[0] if len(cs_) == 1 else None
                if tgt is not None and tgt is not f and any(
                        isinstance(r, ast.Return) and r.value is not None and decodes_text(tgt, r.value, depth + 1)
                        for r in walk(tgt.node)):
                    return True
        if isinstance(expr, ast.Name) and depth < 2:
            vals = [st_.value for st_ in stores(f.node, into_defs=False) if st_.kind == "assign" and st_.path == expr.id
                    and st_.value is not None]
            return any(decodes_text(f, v, depth + 1) for v in vals)
        return False
    cands = [f for gl in repo.funcs.values() for f in gl
             if f.module.rel.startswith("hippolyzer/lib/base/message/")
             and any(isinstance(n, ast.Attribute) and n.attr == "probably_text" for n in walk(f.node))
             and any(isinstance(r, ast.Return) and r.value is not None and decodes_text(f, r.value) for r in walk(f.node))]
    rf = cands[0] if len(cands) == 1 else next((f for f in cands if f.module.rel == DES), None)
    ctx.require(rf is not None, "C01.R13: no reader function consults probably_text")
    text_rets = [r for r in walk(rf.node) if isinstance(r, ast.Return) and r.value is not None and decodes_text(rf, r.value)]
    ctx.floor("C01.R13", "text-decoding returns in the reader", len(text_rets), 1)

    # once-assigned locals that hold a predicate (is_blob = var.probably_binary) stand for it in the guards
    pred_locals = {}
    for st_ in stores(rf.node, into_defs=False):
        if st_.kind == "assign" and "." not in st_.path and st_.value is not None and \
                any(isinstance(n, ast.Attribute) and n.attr in getters for n in ast.walk(st_.value)):
            pred_locals.setdefault(st_.path, []).append(st_.value)
    pred_locals = {k: v[0] for k, v in pred_locals.items() if len(v) == 1}

    def text_decoded(pb, pt):
        for r in text_rets:
            possible = True
            for c in conditions(r, rf.node):
                exprs = [c.test] + [pred_locals[n.id] for n in ast.walk(c.test) if isinstance(n, ast.Name) and n.id in pred_locals]
                attrs = {n.attr for e_ in exprs for n in ast.walk(e_) if isinstance(n, ast.Attribute) and n.attr in getters}
                if not attrs:
                    continue
                env = {}
                for e_ in exprs:
                    for n in ast.walk(e_):
                        if isinstance(n, ast.Attribute) and n.attr in getters and ap(n):
                            env[ap(n)] = pb if n.attr == "probably_binary" else pt
                for nm, vexpr in pred_locals.items():
                    lv = ConstEval(repo, rf.module).ev(vexpr, env)
                    if not isinstance(lv, (Sym, CallVal)):
                        env[nm] = lv
                val = ConstEval(repo, rf.module).ev(c.test, env)
                if isinstance(val, (Sym, CallVal)):
                    continue
                if bool(val) != c.polarity:
                    possible = False
                    break
            if possible:
                return True
        return False
    n_amb = 0
    for (name, typ), where_ in sorted(names.items()):
        hits = [i for i, toks in enumerate(hint_lists) if any(t in name for t in toks)]
        if len(hits) < 2:
            continue
        n_amb += 1
        cl = classify(name, typ)
        ok = not text_decoded(cl["probably_binary"], cl["probably_text"])
        ctx.ob("C01.R13", f"ambiguously named variable {name} ({typ}) is read as bytes", ok, rf.where,
               f"{where_}.{name} matches hints of {len(hits)} lists, is classified binary={cl['probably_binary']} "
               f"text={cl['probably_text']} and reaches the reader's text-decoding return: a blob that happens to be "
               f"NUL-terminated UTF-8 comes back as a str without its last byte")
    ctx.floor("C01.R13", "ambiguously named variables", n_amb, 3)


def r14(ctx):
    """The writer finds a template by name (message_templates), the reader by (frequency, number) (message_dict).
    Both indexes are filled by TemplateDictionary.build_dictionaries from one template list: a template that is
    entered into one of them only can be encoded but not decoded (or the other way round)."""
    repo = ctx.repo
    ctx.rule("C01.R14", "the by-name index (writer) and the by-number index (reader) of TemplateDictionary are filled for the same "
                        "templates: both stores happen under the same conditions over the same template list")
    bd = repo.fn("TemplateDictionary.build_dictionaries")
    fns = class_methods_reachable(repo, bd, depth=2)
    sites = {}
    for f in fns:
        for st in stores(f.node, into_defs=False):
            tail = st.path.split(".")[-1]
            if tail in ("message_templates", "message_dict") and st.kind in ("setitem", "assign", "mutcall"):
                if st.kind == "assign" and not isinstance(st.value, ast.DictComp):
                    continue          # `self.message_dict = {}` initialisation
                if st.kind == "mutcall" and st.method not in ("update", "setdefault"):
                    continue
                sites.setdefault(tail, []).append((f, st))
    ctx.require(set(sites) == {"message_templates", "message_dict"},
                f"C01.R14: build_dictionaries (and its helpers) no longer fill both indexes ({sorted(sites)})")

    def shape(f, st):
        """(iterable, frozenset of (test, polarity)) under which the store runs"""
        if st.kind == "assign" and isinstance(st.value, ast.DictComp):
            gens = st.value.generators
            its = tuple(norm(g.iter) for g in gens)
            conds = frozenset((norm(i), True) for g in gens for i in g.ifs)
            return its, conds
        loops = [a for a in _anc(st.node) if isinstance(a, (ast.For, ast.While))]
        its = tuple(norm(l.iter) if isinstance(l, ast.For) else norm(l.test) for l in loops)
        conds = frozenset((norm(c.test), c.polarity) for c in conditions(st.node, f.node) if c.kind != "while")
        return its, conds
    shapes = {k: {shape(f, st) for f, st in v} for k, v in sites.items()}
    a, b = shapes["message_templates"], shapes["message_dict"]
    only_a = {c for _, cs in a for c in cs} - {c for _, cs in b for c in cs}
    only_b = {c for _, cs in b for c in cs} - {c for _, cs in a for c in cs}
    f0, st0 = sites["message_dict"][0]
    ctx.ob("C01.R14", "build_dictionaries: message_templates[...] and message_dict[...] are stored for the same templates",
           not only_a and not only_b and {i for i, _ in a} == {i for i, _ in b}, ctx.w(f0, st0.node),
           f"by-name store runs over {sorted(i for i, _ in a)} under {sorted(only_a) or 'no extra condition'}; by-number store "
           f"over {sorted(i for i, _ in b)} under {sorted(only_b) or 'no extra condition'}: a template in one index only "
           f"encodes but cannot be decoded (or vice versa)")


def r15(ctx):
    """A lazily decoded message still has its body: Message.ensure_parsed parses whenever a raw body is present.  The
    message refers to the deserializer that read its header only weakly; making the parse depend on that referent being
    alive silently turns `decode(encode(m))` into a message without blocks (D42)."""
    repo = ctx.repo
    ctx.rule("C01.R15", "a deferred message is parsed whenever it still has a raw body: in Message.ensure_parsed the hand-over to "
                        "parse_message_body depends on nothing but the presence of the raw body")
    f = repo.fn("Message.ensure_parsed")
    pcs = [c for g in class_methods_reachable(repo, f, depth=1) for c in calls(g.node)
           if isinstance(c.func, ast.Attribute) and c.func.attr == "parse_message_body"]
    ctx.require(len(pcs) >= 1, "C01.R15: Message.ensure_parsed no longer hands the message to parse_message_body")
    for c in pcs:
        g = next(g for g in class_methods_reachable(repo, f, depth=1) if any(x is c for x in ast.walk(g.node)))
        extra = []
        for cond in conditions(c, g.node):
            for a_, pol in atoms(cond.test, cond.polarity):
                if (ap(a_) or "").endswith("raw_body"):
                    continue
                extra.append(f"{norm(a_)} is {pol}")
        ctx.ob("C01.R15", "ensure_parsed: parse_message_body is reached whenever the raw body is present", not extra,
               ctx.w(g, c), f"the parse also requires {extra}: when that fails the message silently keeps empty blocks although its "
               f"body was never parsed (the deserializer reference is weak)")


def r16(ctx):
    """Three-component quaternion forms drop W; every reader recomputes it as a non-negative number
    (Quaternion.__init__).  The writer must therefore hand out the components of the representative with W >= 0:
    Quaternion.data(3) negates X, Y, Z when W is negative, and the tuple-coord packers ask the value for the components
    they need (data(needed_elems)) instead of slicing the full tuple, which would bypass that (D45)."""
    repo = ctx.repo
    ctx.rule("C01.R16", "quaternions packed without W keep their rotation: Quaternion.data(3) flips the sign of X, Y, Z when W is "
                        "negative, and the tuple-coord packers narrow through data(needed_elems)")
    qc = repo.cls("Quaternion", "hippolyzer/lib/base/datatypes.py")
    df = repo.lookup_method(qc, "data")
    ctx.require(df is not None, "C01.R16: Quaternion.data vanished")
    flips = []
    for r in walk(df.node):
        if isinstance(r, ast.Return) and isinstance(r.value, ast.Tuple) and len(r.value.elts) == 3 and \
                all(isinstance(e, ast.UnaryOp) and isinstance(e.op, ast.USub) for e in r.value.elts):
            conds = conditions(r, df.node)
            on_w = any(isinstance(a_, ast.Compare) and (ap(a_.left) or "").endswith(".W") and len(a_.ops) == 1 and
                       isinstance(a_.ops[0], (ast.Lt, ast.LtE)) == pol and isinstance(a_.ops[0], (ast.Lt, ast.LtE, ast.Gt, ast.GtE))
                       for c in conds for a_, pol in atoms(c.test, c.polarity))
            if on_w:
                flips.append(r)
    ctx.ob("C01.R16", "Quaternion.data(3) returns the negated components when W is negative", bool(flips), df.where,
           "the three-component form keeps X, Y, Z as they are whatever the sign of W; the reader recomputes W >= 0, so a "
           "quaternion with negative W comes back as a different rotation")
    for fname in ("_make_tuplecoord_spec", "_make_llsd_tuplecoord_spec"):
        cands = [g for g in repo.funcs.get(fname, []) if g.module.rel == PACK]
        if not cands:
            continue
        f = cands[0]
        # the factory itself plus every same-module function / class it refers to by name (helpers handed to partial(),
        # callable classes, nested closures), two levels deep
        nodes, seen_n, frontier = [f.node], {f.name}, [f.node]
        for _ in range(2):
            nxt = []
            for nd in frontier:
                for x in ast.walk(nd):
                    nm = x.id if isinstance(x, ast.Name) else None
                    if nm and nm not in seen_n:
                        for g in repo.funcs.get(nm, []):
                            if g.module is f.module and g.cls is None and g.parent_fn is None:
                                seen_n.add(nm)
                                nodes.append(g.node)
                                nxt.append(g.node)
                        for ci_ in repo.classes.get(nm, []):
                            if ci_.module is f.module:
                                seen_n.add(nm)
                                nodes.append(ci_.node)
                                nxt.append(ci_.node)
            frontier = nxt
        narrowed = [c for nd in nodes for c in ast.walk(nd) if isinstance(c, ast.Call) and isinstance(c.func, ast.Attribute)
                    and c.func.attr == "data"]
        ok = bool(narrowed) and all(c.args or c.keywords for c in narrowed)
        ctx.ob("C01.R16", f"{fname}: a TupleCoord value is narrowed through data(<needed components>)", ok, f.where,
               "the packer takes the full component tuple (`.data()`) and slices it: the sign normalisation of the "
               "three-component form is bypassed")


def r17(ctx):
    """Packing a str adds exactly one NUL terminator (_pack_string), so the string view of a Variable field may remove at
    most one: JankStringyBytes - what the reader returns for fields that are neither classified text nor binary - compares
    equal to a str through __str__, and an rstrip() there makes 'bye\\x00' decode to a value unequal to what was encoded
    (D52).  Also: the tuple-coord packers never slice a raw sequence - a plain (x, y, z, w) goes through the coord type."""
    repo = ctx.repo
    ctx.rule("C01.R17", "string view of stringy bytes removes at most the one terminator packing adds; tuple-coord packers narrow "
                        "plain sequences through the coord type, never by slicing them")
    jc = repo.cls("JankStringyBytes", "hippolyzer/lib/base/datatypes.py")
    sf = repo.lookup_method(jc, "__str__")
    ctx.require(sf is not None, "C01.R17: JankStringyBytes.__str__ vanished")
    greedy = [c for c in ast.walk(sf.node) if isinstance(c, ast.Call) and isinstance(c.func, ast.Attribute)
              and c.func.attr in ("rstrip", "strip", "lstrip", "replace", "split", "partition", "rpartition")]
    ctx.ob("C01.R17", "JankStringyBytes.__str__ removes at most one trailing NUL", not greedy,
           ctx.w(sf, greedy[0]) if greedy else sf.where,
           f"`{norm(greedy[0])[:60]}` removes every trailing NUL (or cuts at one): _pack_string adds exactly one, so a str ending in NUL "
           f"written to an unclassified Variable field decodes to a value that is != the str that was encoded" if greedy else "")
    for fname in ("_make_tuplecoord_spec", "_make_llsd_tuplecoord_spec"):
        cands = [g for g in repo.funcs.get(fname, []) if g.module.rel == PACK]
        if not cands:
            continue
        f = cands[0]
        nodes = [f.node] + [g.node for c in ast.walk(f.node) if isinstance(c, ast.Call) and isinstance(c.func, ast.Name)
                            for g in repo.funcs.get(c.func.id, []) if g.module is f.module and g.cls is None]
        raw_slices = []
        for nd in nodes:
            for sub in ast.walk(nd):
                if isinstance(sub, ast.Subscript) and isinstance(sub.slice, ast.Slice) and isinstance(sub.value, ast.Name):
                    # a slice of a bare name: fine only if that name was (re)bound from a .data(...) call / coord construction on every path
                    nm = sub.value.id
                    binds = [s_ for s_ in stores(nd) if s_.kind == "assign" and s_.path == nm and s_.value is not None]
                    from_coord = binds and all(
                        (isinstance(b.value, ast.Call) and ((isinstance(b.value.func, ast.Attribute) and b.value.func.attr == "data")
                                                            or ap(b.value.func) in ("typ", "coord_cls", "cls")))
                        for b in binds)
                    unconditional = any(not [c for c in conditions(b.node, nd) if c.kind in ("if", "early-exit")] for b in binds)
                    if not (from_coord and unconditional):
                        raw_slices.append(sub)
        ctx.ob("C01.R17", f"{fname}: no raw sequence is sliced to the needed components", not raw_slices,
               ctx.w(f, raw_slices[0]) if raw_slices else f.where,
               f"`{norm(raw_slices[0])}` takes the leading components of whatever was passed in: for a plain (x, y, z, w) with negative w "
               f"the sign normalisation of the coord type is bypassed and the value decodes as a different rotation" if raw_slices else "")


def r18(ctx):
    """The reader refuses zero-coded bodies that expand beyond a fixed cap (zero_code_expand).  The writer zero-codes any
    body whose message carries the flag, whatever its size: a template-conformant message with enough blocks is encoded
    into a datagram its own reader rejects.  Necessary condition for the round trip over the whole quantified domain: the
    writer knows the same bound (refuses such a body, or sends it without zero-coding)."""
    repo = ctx.repo
    ctx.rule("C01.R18", "the writer never zero-codes a body the reader's expansion cap rejects: the cap constant of zero_code_expand "
                        "has a counterpart on the writer's side")
    zes = [g for g in repo.funcs.get("zero_code_expand", [])]
    if len(zes) != 1:
        ctx.note("C01.R18 not decided: zero_code_expand is not a single function any more")
        return
    ze = zes[0]
    ev = ConstEval(repo, ze.module)
    caps = set()
    helpers = list(class_methods_reachable(repo, ze, depth=1)) if ze.cls is not None else [ze]
    helpers += [g for c in ast.walk(ze.node) if isinstance(c, ast.Call) and isinstance(c.func, ast.Name)
                for g in repo.funcs.get(c.func.id, []) if g.module is ze.module and g.cls is None and g not in helpers]
    for g in helpers:
        # defaults of parameters (max_size=CONST) count as constants inside the function
        a_ = g.node.args
        pdefs = dict(zip([x.arg for x in (a_.posonlyargs + a_.args)][len(a_.posonlyargs + a_.args) - len(a_.defaults):], a_.defaults))
        pdefs.update({k.arg: d for k, d in zip(a_.kwonlyargs, a_.kw_defaults) if d is not None})
        env_d = {k: ev.ev(v) for k, v in pdefs.items()}
        for cmp_ in [n for n in ast.walk(g.node) if isinstance(n, ast.Compare) and len(n.ops) == 1 and isinstance(n.ops[0], (ast.Gt, ast.GtE))]:
            if any(isinstance(x, ast.Call) and ap(x.func) == "len" for x in ast.walk(cmp_.left)) or isinstance(cmp_.left, ast.Name):
                v = ev.ev(cmp_.comparators[0], env_d)
                if isinstance(v, int) and not isinstance(v, bool) and v > 255:
                    caps.add(v)
    for g in []:
        for cmp_ in [n for n in walk(g.node) if isinstance(n, ast.Compare) and len(n.ops) == 1 and isinstance(n.ops[0], (ast.Gt, ast.GtE))]:
            if isinstance(cmp_.left, ast.Call) and ap(cmp_.left.func) == "len" or \
                    (isinstance(cmp_.left, ast.BinOp) and any(isinstance(x, ast.Call) and ap(x.func) == "len" for x in ast.walk(cmp_.left))):
                v = ev.ev(cmp_.comparators[0])
                if isinstance(v, int) and v > 255:
                    caps.add(v)
    if not caps:
        ctx.note("C01.R18 not decided: no constant expansion cap found in zero_code_expand (C03.R1 decides boundedness)")
        return
    sf = repo.fn("UDPMessageSerializer.serialize")
    evw = ConstEval(repo, sf.module)
    found = False
    for g in class_methods_reachable(repo, sf, depth=3):
        for cmp_ in [n for n in walk(g.node) if isinstance(n, ast.Compare)]:
            for side in [cmp_.left] + list(cmp_.comparators):
                v = evw.ev(side)
                if isinstance(v, int) and v in caps:
                    found = True
    ctx.ob("C01.R18", "serialize: a body beyond the reader's zero-coding cap is refused or sent un-coded", found, sf.where,
           f"zero_code_expand refuses anything that expands beyond {sorted(caps)} bytes, the writer zero-codes bodies of any size: "
           f"e.g. MultipleObjectUpdate with 255 ObjectData blocks of 60 bytes and the ZEROCODED flag is encoded into a datagram "
           f"that raises 'Unreasonably large zerocoded message' when decoded")
