"""C02 - pass-through fidelity: raw-body ownership, restore-on-failure, lazy-parse trigger,
bytes-preserving text heuristic, trailing-block tolerance (DESIGN.md section 4, C02).

Only necessary structural conditions are armed; everything merely unusual is a NOTE.
"""
from __future__ import annotations

import ast
import struct
from collections import deque

from ..cfg import CFG
from ..consteval import ConstEval
from ..core import (AnalysisError, ancestors, ap, atoms, conditions, call_attr, calls, facts, find_calls, handler_names,
                    handler_reraises, is_none_test, norm, set_parents, src, stores, try_contexts, walk)
from .common import (as_pair, class_methods_reachable, has_path_fact, loops_over, spec_symbol, struct_fmt_of_prim,
                     store_index, call_index)


def _writers(repo, attr):
    """All (top-level function, Store) whose stored-to path ends in .attr (one shared walk of the tree)."""
    return list(store_index(repo).get(attr, []))


SER = "hippolyzer/lib/base/message/udpserializer.py"
DES = "hippolyzer/lib/base/message/udpdeserializer.py"
MSG = "hippolyzer/lib/base/message/message.py"
PACK = "hippolyzer/lib/base/message/data_packer.py"

# Appendix A.1 owner table.  Deserializer-side owners are widened to the self-call closure of the
# anchors (helper extraction must not change the verdict); Message-side owners are exact.
MSG_RAW_OWNERS = {"Message.__init__", "Message.blocks.setter"}
DESER_FIELD_EXTRA_OWNERS = {
    "LLUDPMessageLogEntry.message": "re-attaches the weakref after un-pickling",
    "LLUDPMessageLogEntry.freeze": "detaches the weakref around pickling and re-attaches it",
}
# calls that cannot fail and may therefore sit between the clear and the restore
TOTAL_CALLS = {"weakref.ref"}
LOG_PREFIXES = ("LOG.", "logger.", "logging.", "log.")     # logging never propagates handler errors
CATCHES_DECODE_ERROR = {"*", "UnicodeDecodeError", "UnicodeError", "ValueError", "Exception", "BaseException"}
NUL = b"\x00"


# --------------------------------------------------------------------------- helpers

def _msg_param(fi, ctx):
    """Name of the Message parameter of a deserializer/serializer method."""
    args = [a for a in fi.node.args.args if a.arg not in ("self", "cls")]
    for a in args:
        if a.annotation is not None and (ap(a.annotation) or src(a.annotation)).split(".")[-1].strip("'\"") == "Message":
            return a.arg
    for a in args:
        if a.arg in ("msg", "message"):
            return a.arg
    raise AnalysisError(f"{fi.qual}: cannot identify the Message parameter")


def _message_related(repo, ci):
    """ci is Message, one of its bases (a field of Message may live in, and be written by methods of, a base class
    it was pulled up into) or a subclass."""
    msg = repo.cls("Message", MSG)
    return ci is not None and (any(c == ci for c in repo.mro(msg)) or any(c == msg for c in repo.mro(ci)))


def _msg_owner(repo, f):
    """f is one of Message's own owner methods (__init__ / the blocks setter), wherever in Message's MRO it lives."""
    if f.cls is None or not f.qual.startswith(f.cls.name + "."):
        return False
    msg = repo.cls("Message", MSG)
    key = f.qual[len(f.cls.name) + 1:]
    return f"Message.{key}" in MSG_RAW_OWNERS and any(c == f.cls for c in repo.mro(msg))


def _is_message_field_store(repo, f, st):
    """`self.<attr>` inside a class other than Message is that class' own attribute."""
    recv = st.path.rsplit(".", 1)[0]
    if recv == "self" and f.cls is not None:
        return _message_related(repo, f.cls)
    return True


def _single_assign_aliases(fn_node, pred):
    """Local names stored exactly once in fn_node (plain assignment) whose value satisfies pred."""
    by_name = {}
    for st in stores(fn_node, into_defs=True):
        if "." in st.path or "[" in st.path:
            continue
        by_name.setdefault(st.path, []).append(st)
    out = {}
    for name, sts in by_name.items():
        if len(sts) == 1 and sts[0].kind == "assign" and sts[0].value is not None and pred(sts[0].value) \
                and isinstance(sts[0].node, (ast.Assign, ast.AnnAssign)) and isinstance(sts[0].target, ast.Name):
            # tuple-unpacking targets carry the whole tuple as value: reject
            tg = sts[0].node.targets[0] if isinstance(sts[0].node, ast.Assign) else sts[0].node.target
            if isinstance(tg, ast.Name):
                out[name] = sts[0]
    return out


def _expand(fn_node, expr, depth=0):
    """Replace a local name that is stored exactly once by the expression it was assigned."""
    if depth > 6 or not isinstance(expr, ast.Name):
        return expr
    al = _single_assign_aliases(fn_node, lambda v: True)
    if expr.id in al:
        return _expand(fn_node, al[expr.id].value, depth + 1)
    return expr


def _norm_encoding(node):
    if isinstance(node, ast.Constant) and isinstance(node.value, str):
        return node.value.lower().replace("-", "").replace("_", "")
    return None


def _is_nul(node, ev=None):
    """node is b"\\x00": literally, or a module/class constant that evaluates to it (ev: ConstEval of the module)"""
    if isinstance(node, ast.Constant):
        return node.value == NUL
    if ev is not None and isinstance(node, (ast.Name, ast.Attribute)):
        return ev.ev(node) == NUL
    return False


# --------------------------------------------------------------------------- R1

def r1(ctx):
    repo = ctx.repo
    ctx.rule("C02.R1", "raw-body ownership: Message.raw_body/.deserializer/._blocks written only by their owners; "
                       "serializer re-emits an unparsed body verbatim and never also re-encodes; the retained "
                       "window starts where the serializer's header ends")
    hf = repo.fn("UDPMessageDeserializer._parse_message_header")
    pb = repo.fn("UDPMessageDeserializer.parse_message_body")
    des_owners = {f.qual for f in class_methods_reachable(repo, hf, depth=3)} | \
                 {f.qual for f in class_methods_reachable(repo, pb, depth=3)}
    des_cls = hf.cls

    def direct_owner(f, extra=()):
        if _msg_owner(repo, f) or f.qual in extra:
            return True
        return f.cls is not None and des_cls is not None and f.cls == des_cls and f.qual in des_owners

    def owner_ok(f, extra=()):
        # an owner, or a helper (method, function, context manager) that only owners call - transitively
        return direct_owner(f, extra) or _only_called_by(repo, f, lambda g: direct_owner(g, extra))

    # ---- who may write raw_body
    raw_w = [(f, st) for f, st in _writers(repo, "raw_body") if _is_message_field_store(repo, f, st)]
    ctx.floor("C02.R1", "stores to Message.raw_body", len(raw_w), 4)
    for f, st in raw_w:
        ok = owner_ok(f)
        msg = "" if ok else "raw_body written outside its owners: the lazy-parse state machine no longer " \
                            "guarantees that an unparsed body is the bytes that arrived"
        if ok and _msg_owner(repo, f):
            ok = st.kind == "assign" and isinstance(st.value, ast.Constant) and st.value.value is None
            msg = "" if ok else "Message itself may only clear raw_body (a constructed/clobbered message has no wire body)"
        ctx.ob("C02.R1", f"{f.qual}: store {st.path} = {norm(st.value) if st.value is not None else st.kind}",
               ok, ctx.w(f, st.node), msg)
    # ---- deserializer weakref
    des_w = [(f, st) for f, st in _writers(repo, "deserializer") if _is_message_field_store(repo, f, st)]
    ctx.floor("C02.R1", "stores to Message.deserializer", len(des_w), 4)
    for f, st in des_w:
        ctx.ob("C02.R1", f"{f.qual}: store {st.path} = {norm(st.value) if st.value is not None else st.kind}",
               owner_ok(f, DESER_FIELD_EXTRA_OWNERS), ctx.w(f, st.node),
               "Message.deserializer written outside its owners")
    # ---- _blocks
    blk_w = [(f, st) for f, st in _writers(repo, "_blocks") if _is_message_field_store(repo, f, st)]
    ctx.floor("C02.R1", "stores to Message._blocks", len(blk_w), 2)
    for f, st in blk_w:
        ok = _msg_owner(repo, f)
        msg = "Message._blocks written outside Message.__init__ / the blocks setter"
        if not ok and owner_ok(f):
            # the restore site of the D2 repair: only while undoing a failed parse
            ok = any(tc.section in ("handler", "final") for tc in try_contexts(st.node))
            if not ok:
                sites = [c for g, c in call_index(repo).get(f.name, []) if g.cls is not None and g.cls == f.cls]
                ok = bool(sites) and all(any(tc.section in ("handler", "final") for tc in try_contexts(c)) for c in sites)
            msg = "deserializer may reset _blocks only while undoing a failed parse (except/finally)"
        ctx.ob("C02.R1", f"{f.qual}: store {st.path} ({st.kind})", ok, ctx.w(f, st.node), msg)

    # ---- serializer: verbatim re-emission
    sf = repo.fn("UDPMessageSerializer.serialize")
    m = _msg_param(sf, ctx)

    def is_raw_load(v):
        return isinstance(v, ast.Attribute) and ap(v) == f"{m}.raw_body"
    aliases = _single_assign_aliases(sf.node, is_raw_load)

    def is_raw_expr(e):
        return is_raw_load(e) or (isinstance(e, ast.Name) and e.id in aliases)

    def raw_fact(node):
        """True: raw body known present; False: known absent; None: unknown."""
        for e, pol in facts(node, sf.node):
            nt = is_none_test(e)
            if nt and (nt[0] in aliases or nt[0] == f"{m}.raw_body"):
                return (not nt[1]) if pol else nt[1]
            if is_raw_expr(e):
                return pol
        return None

    rets = [n for n in walk(sf.node) if isinstance(n, ast.Return) and n.value is not None]
    out_writers = set()
    for r in rets:
        for n in walk(r.value):
            if isinstance(n, ast.Attribute) and isinstance(n.value, ast.Name):
                out_writers.add(n.value.id)
    raw_writes, mangled = [], []
    for c in calls(sf.node, into_defs=True):
        if call_attr(c) not in ("write_bytes", "write"):
            continue
        for a in c.args:
            if is_raw_expr(a):
                raw_writes.append(c)
            elif any(is_raw_expr(x) for x in walk(a)):
                mangled.append(c)
    ctx.ob("C02.R1", "serialize: unparsed raw body is written verbatim", len(raw_writes) >= 1 and not mangled, sf.where,
           "no write_bytes(<msg.raw_body>) with the untouched value" if not raw_writes else
           f"raw body transformed before being written: {norm(mangled[0]) if mangled else ''}")
    # one snapshot: the presence test and the write must look at the same read of msg.raw_body - the lazy parse
    # (another thread inspecting the message) clears the field between two reads
    reads = [n for n in walk(sf.node, into_defs=True) if isinstance(n, ast.Attribute) and ap(n) == f"{m}.raw_body"
             and isinstance(n.ctx, ast.Load)]
    ctx.ob("C02.R1", "serialize: msg.raw_body is read once (test and write use one snapshot)", len(reads) == 1, sf.where,
           f"{len(reads)} reads of {m}.raw_body: a lazy parse triggered between the presence test and the write hands "
           f"write_bytes a body that is gone (None) - the unmodified datagram is not forwarded")
    for c in raw_writes:
        ctx.ob("C02.R1", f"serialize: {norm(c)} guarded by raw body present", raw_fact(c) is True, ctx.w(sf, c),
               "raw write not dominated by a `raw_body is not None` test")
        recv = ap(c.func.value) if isinstance(c.func, ast.Attribute) else None
        ctx.ob("C02.R1", f"serialize: {norm(c)} goes to the returned buffer", recv in out_writers, ctx.w(sf, c),
               f"written to {recv}, returned buffer comes from {sorted(out_writers)}")
    # nothing else is written on the raw path, and the re-encode path is disjoint from it
    for c in calls(sf.node, into_defs=True):
        if c in raw_writes:
            continue
        name = call_attr(c)
        if name in ("write", "write_bytes") and raw_fact(c) is True:
            ctx.ob("C02.R1", f"serialize: extra write on the raw path {norm(c)}", False, ctx.w(sf, c),
                   "bytes other than the raw body are written while the raw body is re-emitted")
    reenc = []
    for n in walk(sf.node, into_defs=True):
        if isinstance(n, ast.Attribute) and ap(n) == f"{m}.blocks":
            reenc.append(n)
        elif isinstance(n, ast.Call) and isinstance(n.func, ast.Attribute) and ap(n.func.value) in ("self", "cls") \
                and n.func.attr not in ("template_dict",) and repo.lookup_method(sf.cls, n.func.attr) is not None:
            # a helper that is only handed the output writer and never looks at the blocks / re-codes anything is a
            # framing helper (header, ack trailer): its writes are judged by the framing analysis below
            callee = repo.lookup_method(sf.cls, n.func.attr)
            closure = class_methods_reachable(repo, callee, depth=3)
            touches = any((isinstance(x, ast.Attribute) and x.attr in ("blocks", "_blocks")) or
                          (isinstance(x, ast.Call) and call_attr(x) in ("zero_code_compress", "pack"))
                          for g in closure for x in walk(g.node, into_defs=True))
            handed_out = any(ap(a) in out_writers for a in list(n.args) + [k.value for k in n.keywords])
            if touches or not handed_out:
                reenc.append(n)
    ctx.floor("C02.R1", "re-encode sites in serialize", len(reenc), 1)
    for n in reenc:
        ctx.ob("C02.R1", f"serialize: re-encode site {norm(n)} only without a raw body", raw_fact(n) is False, ctx.w(sf, n),
               "touching msg.blocks (which triggers the lazy parse) or re-encoding while a raw body is present: an "
               "unparseable body is no longer forwardable / would be emitted twice")

    # ---- framing around the body: unconditional writes are the header, writes under msg.has_acks the ack trailer
    # (the flag under which the header parser cuts the trailer off the retained body); nothing else may be
    # written to the datagram under some other condition
    hdr_w = 0
    nhdr = ntrail = 0
    from .c01 import flat_ops          # writes of serialize in reading order, helpers handed the writer inlined
    for c, g, chain in flat_ops(repo, sf, "write", set(out_writers)):
        conds = _output_conditions(c, g.node)
        for site, caller in chain:
            conds = conds + _output_conditions(site, caller.node)
        if not conds:
            fmt = struct_fmt_of_prim(repo, spec_symbol(c.args[0]))
            ctx.require(fmt is not None, f"serialize: unknown header spec {src(c.args[0])}")
            hdr_w += struct.calcsize("<" + fmt)
            nhdr += 1
            continue
        on_flag = all(pol and (ap(e) or "").endswith(".has_acks") for e, pol in conds)
        ntrail += 1
        ctx.ob("C02.R1", f"serialize: trailer write {norm(c)} emitted exactly under {m}.has_acks", on_flag, ctx.w(g, c),
               f"written under {[norm(e) + ('' if p else ' (negated)') for e, p in conds]}: the header parser strips the "
               f"appended-ack trailer iff the ACK flag is set, so it must be written back iff the flag is set")
    ctx.floor("C02.R1", "serializer header writes", nhdr, 3)
    ctx.floor("C02.R1", "serializer trailer writes", ntrail, 1)
    data_params0 = [a.arg for a in hf.node.args.args if a.arg not in ("self", "cls")]
    strips = [st for st in stores(hf.node, into_defs=False) if st.kind == "assign" and st.path in data_params0]
    ctx.ob("C02.R1", "header parser: ack trailer cut off the datagram before the body is retained", len(strips) >= 1, hf.where,
           "the retained raw body would still contain the appended acks, which serialize writes again")
    for st in strips:
        ctx.ob("C02.R1", f"header parser: trailer cut `{norm(st.node)}` exactly under has_acks",
               has_path_fact(st.node, "has_acks", True, hf.node), ctx.w(hf, st.node),
               "trailer stripped under a different condition than the one serialize writes it back under")
    hm = _msg_param_or_local(hf)
    from .common import dealias_class_locals
    hf_node = dealias_class_locals(repo, hf)        # `layout = PacketLayout; data[layout.PHL_NAME:]`
    sets = [st for st in stores(hf_node) if st.path == f"{hm}.raw_body" and st.kind == "assign"]
    ctx.floor("C02.R1", "raw_body set sites in the header parser", len(sets), 1)
    data_params = [a.arg for a in hf.node.args.args if a.arg not in ("self", "cls")]
    ev = ConstEval(repo, hf.module)
    for st in sets:
        v = st.value
        while isinstance(v, ast.Call) and ap(v.func) in ("bytes", "memoryview", "bytearray") and len(v.args) == 1:
            v = v.args[0]
        if not (isinstance(v, ast.Subscript) and isinstance(v.slice, ast.Slice) and isinstance(v.value, ast.Name)):
            raise AnalysisError(f"C02.R1: raw_body is set from {norm(st.value)}: window shape not analysable")
        lo = ev.ev(v.slice.lower) if v.slice.lower is not None else 0
        ctx.ob("C02.R1", "header parser: raw_body window is a suffix of the datagram parameter",
               v.value.id in data_params and v.slice.upper is None and v.slice.step is None, ctx.w(hf, st.node),
               f"window {norm(v)}: must run from the end of the header to the end of the (ack-stripped) datagram")
        ctx.ob("C02.R1", "header parser: raw_body window starts where the serializer's header ends",
               isinstance(lo, int) and not isinstance(lo, bool) and lo == hdr_w, ctx.w(hf, st.node),
               f"window starts at {lo}, serializer writes {hdr_w} header bytes before the raw body")


def _output_conditions(node, fn_node):
    """Atomic conditions under which `node` contributes to the output: enclosing branches and earlier early
    *returns*; guards that only raise are not output conditions (no datagram is produced at all)."""
    raising = {id(n.test) for n in walk(fn_node) if isinstance(n, ast.If) and (
        (n.body and isinstance(n.body[-1], ast.Raise)) or (n.orelse and isinstance(n.orelse[-1], ast.Raise)))}
    out = []
    for c in conditions(node, fn_node):
        if c.kind in ("early-exit", "assert") and (id(c.test) in raising or c.kind == "assert"):
            continue
        out.extend(atoms(c.test, c.polarity))
    return out


def _only_called_by(repo, f, allowed, depth=0, seen=()):
    """f has call sites (by name, over-approximate) and every one of them lies in a function that is allowed, or in
    a function that itself is only called by allowed ones."""
    if depth > 3 or f.full in seen:
        return False
    sites = [(g, c) for g, c in call_index(repo).get(f.name, []) if g != f]
    if not sites:
        return False
    for g, _c in sites:
        if allowed(g):
            continue
        if not _only_called_by(repo, g, allowed, depth + 1, seen + (f.full,)):
            return False
    return True


def _msg_param_or_local(hf):
    """The header parser builds the Message itself: name of the local bound to Message(...)."""
    for st in stores(hf.node, into_defs=False):
        if st.kind == "assign" and isinstance(st.value, ast.Call) and (ap(st.value.func) or "").split(".")[-1] == "Message" \
                and isinstance(st.target, ast.Name):
            return st.target.id
    raise AnalysisError(f"{hf.qual}: no local bound to Message(...)")


# --------------------------------------------------------------------------- R2

def _strip_total_calls(fn_node):
    """Deep copy of the function in which calls that cannot fail are replaced by constants, so the CFG
    builder does not give them exceptional edges (propagation edges of finally copies are kept)."""
    from ..core import clone_ast as _clone_ast
    fn2 = _clone_ast(fn_node)

    class T(ast.NodeTransformer):
        def visit_ExceptHandler(self, node):
            # `except Exception` lets KeyboardInterrupt / SystemExit / other BaseExceptions through: for the
            # restore rule it is not a catch-all (the CFG builder would treat it as one)
            self.generic_visit(node)
            if node.type is not None:
                elts = node.type.elts if isinstance(node.type, ast.Tuple) else [node.type]
                if not any((ap(e) or "").split(".")[-1] == "BaseException" for e in elts):
                    for e in elts:
                        if isinstance(e, ast.Name) and e.id == "Exception":
                            e.id = "NotEveryBaseException"
                        elif isinstance(e, ast.Attribute) and e.attr == "Exception":
                            e.attr = "NotEveryBaseException"
            return node

        def visit_Call(self, node):
            self.generic_visit(node)
            name = ap(node.func) or ""
            plain_log = name.startswith(LOG_PREFIXES) and not any(
                isinstance(x, ast.Call) for a in list(node.args) + [k.value for k in node.keywords] for x in ast.walk(a))
            if name in TOTAL_CALLS or plain_log:
                return ast.copy_location(ast.Constant(value=None), node)
            return node
    T().visit(fn2)
    ast.fix_missing_locations(fn2)
    set_parents(fn2)
    return fn2


def _bool_flags(fn_node):
    """Locals that are only ever assigned the constants True/False."""
    good = {}
    for st in stores(fn_node, into_defs=False):
        if "." in st.path or "[" in st.path:
            continue
        is_flag = st.kind == "assign" and isinstance(st.value, ast.Constant) and isinstance(st.value.value, bool) \
            and isinstance(st.target, ast.Name)
        good[st.path] = good.get(st.path, True) and is_flag
    return {k for k, v in good.items() if v}


def _in_body(node_ast, if_ast):
    if node_ast is None:
        return False
    chain = [node_ast] + list(ancestors(node_ast))
    for i, a in enumerate(chain):
        if a is if_ast and i > 0:
            return any(chain[i - 1] is s for s in if_ast.body)
    return False


def _flag_aware_witness(cfg, start, target, avoid, flags, follow_start_exc=True):
    """Shortest path from `start` to a node satisfying `target` that avoids `avoid` nodes, pruning
    branches contradicted by the known value of boolean flag locals (try/finally + success flag)."""
    init = (start, frozenset())
    prev = {init: None}
    dq = deque([init])
    while dq:
        state = dq.popleft()
        n, env = state
        envd = dict(env)
        if n is not start and target(n):
            path = []
            s = state
            while s is not None:
                path.append(s[0])
                s = prev[s]
            return list(reversed(path))
        succs = [(s, False) for s in n.succs] + [(s, True) for s in n.exc_succs]
        if n is start and not follow_start_exc:
            succs = [(s, e) for s, e in succs if not e]
        new_env = env
        if n.kind == "stmt" and isinstance(n.ast, ast.Assign) and len(n.ast.targets) == 1 \
                and isinstance(n.ast.targets[0], ast.Name) and n.ast.targets[0].id in flags \
                and isinstance(n.ast.value, ast.Constant):
            envd[n.ast.targets[0].id] = bool(n.ast.value.value)
            new_env = frozenset(envd.items())
        if n.kind == "test" and isinstance(n.ast, ast.If):
            t, pol = n.ast.test, True
            while isinstance(t, ast.UnaryOp) and isinstance(t.op, ast.Not):
                t, pol = t.operand, not pol
            if isinstance(t, ast.Name) and t.id in envd:
                truth = envd[t.id] == pol
                if truth:
                    succs = [(s, e) for s, e in succs if _in_body(s.ast, n.ast)]
                else:
                    succs = [(s, e) for s, e in succs if not _in_body(s.ast, n.ast)]
        for s, is_exc in succs:
            if avoid(s):
                continue
            st2 = (s, env if is_exc and n.kind == "stmt" and not isinstance(n.ast, ast.Assign) else new_env)
            if st2 not in prev:
                prev[st2] = state
                dq.append(st2)
    return None


def _helper_effect(repo, fi, call, kind):
    """A `self.h(...)` call whose callee clears ('clear') or restores ('restore') <param>.raw_body.
    For restore returns the caller-side argument expression that is stored back."""
    if not (isinstance(call.func, ast.Attribute) and ap(call.func.value) in ("self", "cls") and fi.cls is not None):
        return None
    h = repo.lookup_method(fi.cls, call.func.attr)
    if h is None:
        return None
    params = [a.arg for a in h.node.args.args if a.arg not in ("self", "cls")]
    for st in stores(h.node, into_defs=False):
        if st.kind != "assign" or not st.path.endswith(".raw_body") or st.value is None:
            continue
        if kind == "clear" and isinstance(st.value, ast.Constant) and st.value.value is None:
            return True
        if kind == "restore" and isinstance(st.value, ast.Name) and st.value.id in params:
            idx = params.index(st.value.id)
            if idx < len(call.args):
                return call.args[idx]
            for k in call.keywords:
                if k.arg == st.value.id:
                    return k.value
    return None


def r2(ctx):
    repo = ctx.repo
    ctx.rule("C02.R2", "failed parse restores the raw body: from every statement that clears msg.raw_body no path "
                       "reaches an exceptional exit of parse_message_body without storing the saved body back "
                       "(statement CFG with exception edges; success flags followed)")
    pb = repo.fn("UDPMessageDeserializer.parse_message_body")
    m = _msg_param(pb, ctx)
    fn2 = _strip_total_calls(pb.node)
    cfg = CFG(fn2)
    flags = _bool_flags(fn2)

    def is_raw_load(v):
        return isinstance(v, ast.Attribute) and ap(v) == f"{m}.raw_body"
    saved = _single_assign_aliases(fn2, is_raw_load)

    def stmt_calls(node):
        return [c for c in calls(node.ast)] if node.kind == "stmt" and node.ast is not None else []

    def is_restore(node):
        if node.kind != "stmt" or node.ast is None:
            return False
        a = node.ast
        if isinstance(a, ast.Assign) and any(ap(t) == f"{m}.raw_body" for t in a.targets):
            return isinstance(a.value, ast.Name) and a.value.id in saved
        for c in stmt_calls(node):
            v = _helper_effect(repo, pb, c, "restore")
            if isinstance(v, ast.Name) and v.id in saved:
                return True
        return False

    def is_clear(node):
        if node.kind != "stmt" or node.ast is None:
            return False
        a = node.ast
        if isinstance(a, ast.Assign):
            for t in a.targets:
                if ap(t) == f"{m}.raw_body" and not is_restore(node):
                    return True        # None or anything that is not the saved body
                if ap(t) == f"{m}.blocks":
                    return True        # the blocks setter drops the raw body
        for c in stmt_calls(node):
            if _helper_effect(repo, pb, c, "clear") or msg_method_clears(c) is not None:
                return True
        return False

    def msg_method_clears(c):
        """`<msg>.meth(..)` where Message.meth (also inherited) stores None into self.raw_body: that method"""
        if not (isinstance(c.func, ast.Attribute) and ap(c.func.value) == m):
            return None
        meth = repo.lookup_method(repo.cls("Message", MSG), c.func.attr)
        if meth is None:
            return None
        for st in stores(meth.node, into_defs=False):
            if st.path == "self.raw_body" and st.kind == "assign" and isinstance(st.value, ast.Constant) and st.value.value is None:
                return meth
        return None

    clears = [n for n in cfg.nodes if is_clear(n)]
    ctx.floor("C02.R2", "statements clearing msg.raw_body in parse_message_body", len(clears), 1)
    ctx.stats["C02.R2.restore nodes"] = sum(1 for n in cfg.nodes if is_restore(n))
    for c in clears:
        own_exc = bool(stmt_calls(c)) and not isinstance(c.ast, ast.Assign)
        # a clearing method of the message that itself calls nothing cannot fail half-way
        cm = [msg_method_clears(x) for x in stmt_calls(c)]
        if own_exc and cm and all(x is not None and not calls(x.node) for x in cm):
            own_exc = False
        wit = _flag_aware_witness(cfg, c, lambda n: n is cfg.raise_exit, is_restore, flags, follow_start_exc=own_exc)
        ctx.ob("C02.R2", f"{pb.qual}: after `{norm(c.ast)}` every exceptional exit restores raw_body",
               wit is None, ctx.w(pb, c.ast),
               "a failure here leaves the message without its raw body: it can no longer be forwarded byte-identically",
               path=cfg.describe_path(wit) if wit else None)
    # the value put back is the one saved before the clear
    ctx.ob("C02.R2", f"{pb.qual}: raw body saved into a once-assigned local before it is cleared", bool(saved), pb.where,
           "no local holds the original msg.raw_body (assigned exactly once): nothing to restore from")
    for name, st in saved.items():
        nodes = cfg.nodes_for(st.node)
        for c in clears:
            wit = cfg.witness_path(cfg.entry, lambda n: n is c, avoid=lambda n: n in nodes, exc=False) if nodes else [c]
            ctx.ob("C02.R2", f"{pb.qual}: `{name}` holds the body on every path to `{norm(c.ast)}`", wit is None,
                   ctx.w(pb, c.ast), "the clear can be reached without the saved copy having been taken")
    # not armed: blocks / deserializer put back (observable only through later re-parsing, not in the forwarded bytes)
    handler_stores = {st.path for st in stores(pb.node) if any(tc.section in ("handler", "final") for tc in try_contexts(st.node))}
    if f"{m}._blocks" not in handler_stores and f"{m}.blocks" not in handler_stores:
        ctx.note("C02.R2: failed parse does not discard the partially built msg._blocks (not armed: forwarded bytes come from raw_body)")
    if f"{m}.deserializer" not in handler_stores:
        ctx.note("C02.R2: failed parse does not re-attach msg.deserializer (not armed: later .blocks access would not re-parse)")


# --------------------------------------------------------------------------- R3

def r3(ctx):
    repo = ctx.repo
    ctx.rule("C02.R3", "lazy-parse trigger: Message._blocks is read only by the `blocks` getter, which runs "
                       "ensure_parsed() first; ensure_parsed hands the message to parse_message_body")
    getter = repo.fn("Message.blocks", MSG)
    loads = []
    for f in repo.all_funcs:
        if f.parent_fn is not None:
            continue
        for n in walk(f.node, into_defs=True):
            if isinstance(n, ast.Attribute) and n.attr == "_blocks" and isinstance(n.ctx, ast.Load):
                recv = ap(n.value)
                if recv == "self" and f.cls is not None and not _message_related(repo, f.cls):
                    continue
                loads.append((f, n))
    ctx.floor("C02.R3", "reads of Message._blocks", len(loads), 1)
    for f, n in loads:
        ctx.ob("C02.R3", f"{f.qual}: read of {ap(n)}", f == getter, ctx.w(f, n),
               "_blocks read outside the `blocks` getter: the body may not have been parsed yet (raw/parsed state "
               "observed out of step)")
    cfg = CFG(getter.node)
    rets = [n for n in cfg.nodes if n.kind == "stmt" and isinstance(n.ast, ast.Return)]
    ctx.floor("C02.R3", "returns in Message.blocks", len(rets), 1)

    def triggers(n):
        if n.ast is None or n.kind not in ("stmt", "test", "with"):
            return False
        head = n.ast if n.kind == "stmt" else getattr(n.ast, "test", n.ast)
        return any(ap(c.func) == "self.ensure_parsed" for c in calls(head))
    for r in rets:
        wit = cfg.witness_path(cfg.entry, lambda n: n is r, avoid=triggers, exc=False)
        ctx.ob("C02.R3", f"Message.blocks: `{norm(r.ast)}` preceded by ensure_parsed() on every path",
               wit is None, ctx.w(getter, r.ast),
               "blocks can be returned without the lazy parse having run",
               path=cfg.describe_path(wit) if wit else None)
    ep = repo.fn("Message.ensure_parsed", MSG)
    pcs = [c for c in find_calls(ep.node, "parse_message_body") if c.args and ap(c.args[0]) == "self"]
    ctx.ob("C02.R3", "Message.ensure_parsed hands self to parse_message_body", len(pcs) >= 1, ep.where,
           "the lazy trigger no longer reaches the body parser")
    for c in pcs:
        extra = [norm(e) for e, pol in facts(c, ep.node)
                 if not any(isinstance(x, ast.Attribute) and x.attr in ("raw_body", "deserializer") for x in walk(e))]
        if extra:
            ctx.note(f"C02.R3: ensure_parsed's parse call has additional guards {extra}")


# --------------------------------------------------------------------------- R4

def _simple_callee(repo, fn_, call):
    """(FuncInfo, parameter names without self/cls) of a helper called as Class.m(..) / self.m(..) / f(..)"""
    g = None
    if isinstance(call.func, ast.Attribute) and isinstance(call.func.value, ast.Name):
        owner = fn_.cls if call.func.value.id in ("self", "cls") else repo.resolve_class(call.func.value.id, fn_.module)
        g = repo.lookup_method(owner, call.func.attr) if owner is not None else None
    elif isinstance(call.func, ast.Name):
        cands = [x for x in repo.funcs.get(call.func.id, []) if x.module is fn_.module and x.cls is None and x.parent_fn is None]
        g = cands[0] if len(cands) == 1 else None
    if g is None:
        return None, []
    decos = {(ap(d) or "").split(".")[-1] for d in g.node.decorator_list}
    ps = [a.arg for a in g.node.args.args]
    if g.cls is not None and "staticmethod" not in decos:
        ps = ps[1:]
    return g, ps


def _term_test(repo, fn_, e, X, depth=0):
    """e (a condition that holds) says: X ends with the NUL terminator - directly, or through a predicate helper"""
    ev = ConstEval(repo, fn_.module)
    if isinstance(e, ast.Call) and call_attr(e) == "endswith" and isinstance(e.func, ast.Attribute) \
            and ap(e.func.value) == X and len(e.args) == 1 and _is_nul(e.args[0], ev):
        return True
    if isinstance(e, ast.Call) and depth < 3 and any(ap(a) == X for a in e.args):
        g, ps = _simple_callee(repo, fn_, e)
        if g is not None:
            rets = [r for r in walk(g.node) if isinstance(r, ast.Return)]
            idx = next(i for i, a in enumerate(e.args) if ap(a) == X)
            if len(rets) == 1 and rets[0].value is not None and idx < len(ps):
                return _term_test(repo, g, rets[0].value, ps[idx], depth + 1)
    return False


def _strips_one_terminator(repo, fn_, recv, X, depth=0):
    """recv is X without exactly one trailing terminator: X[:-1], X.removesuffix(NUL), or a helper whose every return is
    its parameter itself or such a strip of it (the [:-1] ones under a terminator test of their own)"""
    ev = ConstEval(repo, fn_.module)
    if isinstance(recv, ast.Subscript) and ap(recv.value) == X and isinstance(recv.slice, ast.Slice):
        s_ = recv.slice
        up = s_.upper
        return s_.lower is None and s_.step is None and isinstance(up, ast.UnaryOp) and isinstance(up.op, ast.USub) \
            and isinstance(up.operand, ast.Constant) and up.operand.value == 1
    if isinstance(recv, ast.Call) and call_attr(recv) == "removesuffix" and isinstance(recv.func, ast.Attribute) \
            and ap(recv.func.value) == X and len(recv.args) == 1 and _is_nul(recv.args[0], ev):
        return True
    if isinstance(recv, ast.Call) and depth < 3 and any(ap(a) == X for a in recv.args):
        g, ps = _simple_callee(repo, fn_, recv)
        idx = next(i for i, a in enumerate(recv.args) if ap(a) == X)
        if g is None or idx >= len(ps):
            return False
        p = ps[idx]
        rets = [r for r in walk(g.node) if isinstance(r, ast.Return)]
        strips = 0
        for r in rets:
            if r.value is not None and ap(r.value) == p:
                continue
            if r.value is None or not _strips_one_terminator(repo, g, r.value, p, depth + 1):
                return False
            sliced = isinstance(r.value, ast.Subscript)
            if sliced and not any(pol and _term_test(repo, g, e, p) for e, pol in facts(r, g.node)):
                return False
            strips += 1
        return strips >= 1
    return False


def r4(ctx):
    repo = ctx.repo
    ctx.rule("C02.R4", "bytes-preserving text heuristic: _parse_var decodes only NUL-terminated data, strictly, "
                       "inside a UnicodeDecodeError guard, removing exactly the one terminator that _pack_string "
                       "appends unconditionally; every other result is the bytes unchanged (or a bytes subclass)")
    pv = repo.fn("UDPMessageDeserializer._parse_var")
    unpacked = _single_assign_aliases(pv.node, lambda v: isinstance(v, ast.Call) and call_attr(v) == "unpack")
    ctx.require(len(unpacked) == 1, f"_parse_var: expected exactly one local holding TemplateDataPacker.unpack(...), found {sorted(unpacked)}")
    X = next(iter(unpacked))
    rets = [n for n in walk(pv.node) if isinstance(n, ast.Return)]
    ctx.floor("C02.R4", "returns in _parse_var", len(rets), 2)

    # the packer paired with the bytes-typed variables
    packer = repo.cls("TemplateDataPacker", PACK)
    specs = repo.class_attr(packer, "SPECS")
    ctx.require(isinstance(specs, ast.Dict), "TemplateDataPacker.SPECS is not a dict literal")
    pack_names = set()
    for k, v in zip(specs.keys, specs.values):
        if (ap(k) or "").split(".")[-1] in ("MVT_VARIABLE", "MVT_FIXED"):
            pair = as_pair(repo, packer.module, v)
            ctx.require(pair is not None and isinstance(pair[1], ast.Name),
                        f"SPECS[{src(k)}] is not an (unpacker, packer-name) pair")
            ctx.ob("C02.R4", f"SPECS[{(ap(k) or '').split('.')[-1]}] unpacker keeps the bytes", ap(pair[0]) == "bytes",
                   ctx.w(packer.module, v), f"unpacker is {norm(pair[0])}")
            pack_names.add(pair[1].id)
    ctx.require(len(pack_names) == 1, f"MVT_VARIABLE/MVT_FIXED packers: {sorted(pack_names)}")
    ps = repo.fn(next(iter(pack_names)), PACK)
    pparam = ps.node.args.args[0].arg

    # ---- packer side: str -> encode + exactly one NUL, on every path; everything else verbatim
    enc_pack = None
    n_str = 0
    for r in [n for n in walk(ps.node) if isinstance(n, ast.Return)]:
        fs = facts(r, ps.node)
        is_str = None
        is_none = False
        for e, pol in fs:
            if isinstance(e, ast.Call) and ap(e.func) == "isinstance" and len(e.args) == 2 and ap(e.args[0]) == pparam \
                    and ap(e.args[1]) == "str":
                is_str = pol
            nt = is_none_test(e)
            if nt and nt[0] == pparam and nt[1] == pol:
                is_none = True
        if is_none:
            continue
        v = _expand(ps.node, r.value) if r.value is not None else None
        if is_str:
            n_str += 1
            ok = isinstance(v, ast.BinOp) and isinstance(v.op, ast.Add) and _is_nul(v.right, ConstEval(repo, ps.module))
            left = _expand(ps.node, v.left) if ok else None
            ok = ok and isinstance(left, ast.Call) and call_attr(left) == "encode" and isinstance(left.func, ast.Attribute) \
                and ap(left.func.value) == pparam
            if ok:
                enc_pack = _norm_encoding(left.args[0]) if left.args else "utf8"
            ctx.ob("C02.R4", f"{ps.qual}: str packed as encode() + exactly one NUL ({norm(r)})", bool(ok), ctx.w(ps, r),
                   "the terminator is not appended exactly once on every path: _parse_var strips exactly one, so a "
                   "decoded text value would re-encode to different bytes")
        elif is_str is False:
            ok = v is not None and (ap(v) == pparam or (isinstance(v, ast.Call) and ap(v.func) == "bytes"
                                                         and len(v.args) == 1 and ap(v.args[0]) == pparam))
            ctx.ob("C02.R4", f"{ps.qual}: non-str value packed verbatim ({norm(r)})", bool(ok), ctx.w(ps, r),
                   "bytes / JankStringyBytes values must be written back unchanged")
        else:
            ctx.ob("C02.R4", f"{ps.qual}: return {norm(r)} is typed by an isinstance(…, str) test", False, ctx.w(ps, r),
                   "cannot tell whether this path packs text or bytes")
    ctx.floor("C02.R4", "str-typed returns in the string packer", n_str, 1)

    # ---- reader side: the returns of _parse_var, followed into helpers that are handed the unpacked value
    # (`return self._guess_repr(unpacked, tmpl_variable)` -> the helper's returns, under its parameter name)
    ret_sites, work, seen_fns = [], [(pv, X, False)], set()
    while work:
        fn_, Xn, optional = work.pop()
        if fn_.full in seen_fns:
            continue
        seen_fns.add(fn_.full)
        for r in [n for n in walk(fn_.node) if isinstance(n, ast.Return)]:
            v = r.value
            if optional and (v is None or (isinstance(v, ast.Constant) and v.value is None)):
                continue        # "could not decode": the caller tests the result for None and falls back
            tgt = None
            opt_next = optional
            if isinstance(v, ast.Name) and v.id != Xn:
                # `text = self._decode(data)` ... `if text is not None: return text`
                srcs = [st.value for st in stores(fn_.node, into_defs=False) if st.path == v.id and st.kind == "assign"]
                nn = any((nt := is_none_test(e)) and nt[0] == v.id and nt[1] != pol for e, pol in facts(r, fn_.node))
                if len(srcs) == 1 and isinstance(srcs[0], ast.Call) and nn:
                    v, opt_next = srcs[0], True
            if isinstance(v, ast.Call) and any(ap(a) == Xn for a in list(v.args) + [k.value for k in v.keywords]):
                if isinstance(v.func, ast.Attribute) and isinstance(v.func.value, ast.Name) and fn_.cls is not None \
                        and v.func.value.id in ("self", "cls", fn_.cls.name):
                    tgt = repo.lookup_method(fn_.cls, v.func.attr)
                elif isinstance(v.func, ast.Name):
                    cands = [g for g in repo.funcs.get(v.func.id, []) if g.module is fn_.module and g.cls is None and g.parent_fn is None]
                    tgt = cands[0] if len(cands) == 1 else None
                elif isinstance(v.func, ast.Attribute) and isinstance(v.func.value, ast.Name):
                    # a method of a collaborator handed in as a parameter (`tmpl_variable.interpret(unpacked)`): the
                    # class named by the parameter's annotation, else the only class in the tree with such a method
                    ann = next((a_.annotation for a_ in fn_.node.args.args + fn_.node.args.kwonlyargs
                                if a_.arg == v.func.value.id and a_.annotation is not None), None)
                    oc = repo.resolve_class((ap(ann) or (ann.value if isinstance(ann, ast.Constant) else "") or "").split(".")[-1],
                                            fn_.module) if ann is not None else None
                    if oc is not None:
                        tgt = repo.lookup_method(oc, v.func.attr)
                    else:
                        cands = [g for g in repo.funcs.get(v.func.attr, []) if g.cls is not None and g.parent_fn is None]
                        tgt = cands[0] if len(cands) == 1 else None
            if tgt is not None:
                decos = {(ap(d) or "").split(".")[-1] for d in tgt.node.decorator_list}
                ps = [a.arg for a in tgt.node.args.args]
                if tgt.cls is not None and "staticmethod" not in decos:
                    ps = ps[1:]
                pname = None
                for i, a in enumerate(v.args):
                    if ap(a) == Xn and i < len(ps):
                        pname = ps[i]
                for k in v.keywords:
                    if ap(k.value) == Xn and k.arg in ps:
                        pname = k.arg
                if pname is not None:
                    work.append((tgt, pname, opt_next))
                    continue
            ret_sites.append((fn_, r, Xn))
    n_dec = 0
    for fn_, r, Xn in ret_sites:
        v = r.value
        key = f"{fn_.qual}: {norm(r)}"
        where = ctx.w(fn_, r)
        if v is None:
            ctx.ob("C02.R4", f"{key} returns a value", False, where, "variable decoded to None")
            continue
        decs = [c for c in calls(v) if call_attr(c) == "decode"]
        if not decs:
            same = isinstance(v, ast.Name) and v.id == Xn
            sub = False
            if isinstance(v, ast.Call) and len(v.args) == 1 and not v.keywords and ap(v.args[0]) == Xn:
                ci = repo.resolve_class(ap(v.func) or "", fn_.module)
                if ap(v.func) == "bytes":
                    sub = True
                elif ci is not None:
                    sub = any("bytes" in c.base_names for c in repo.mro(ci)) and \
                        not any(b in ("str",) for c in repo.mro(ci) for b in c.base_names)
            ctx.ob("C02.R4", f"{key} keeps the data unchanged", same or sub, where,
                   "neither the unpacked value itself nor a bytes(-subclass) wrapper of it: the re-encoded field would differ")
            continue
        n_dec += 1
        ok_shape = v is decs[0] and len(decs) == 1 and isinstance(v.func, ast.Attribute)
        ctx.ob("C02.R4", f"{key} returns the decode() result itself", ok_shape, where,
               "text is post-processed after decoding (strip/rstrip/replace…): not the inverse of `encode + one NUL`")
        d = decs[0]
        recv = d.func.value if isinstance(d.func, ast.Attribute) else None
        one = recv is not None and _strips_one_terminator(repo, fn_, recv, Xn)
        ctx.ob("C02.R4", f"{key} removes exactly one terminator", one, where,
               f"decodes {norm(recv) if recv is not None else '?'}: must be <data>[:-1] or removesuffix(NUL) - "
               f"_pack_string appends exactly one NUL")
        guarded = any(pol and _term_test(repo, fn_, e, Xn) for e, pol in facts(r, fn_.node))
        for e, pol in facts(r, fn_.node):
            if pol and isinstance(e, ast.Call) and call_attr(e) == "endswith" and isinstance(e.func, ast.Attribute) \
                    and ap(e.func.value) == Xn and len(e.args) == 1 and _is_nul(e.args[0], ConstEval(repo, fn_.module)):
                guarded = True
            if isinstance(e, ast.Compare) and len(e.ops) == 1 and isinstance(e.left, ast.Subscript) and ap(e.left.value) == Xn \
                    and (isinstance(e.ops[0], ast.Eq) and pol or isinstance(e.ops[0], ast.NotEq) and not pol):
                sl, rhs = e.left.slice, e.comparators[0]
                last_slice = isinstance(sl, ast.Slice) and sl.upper is None and sl.step is None and \
                    isinstance(sl.lower, ast.UnaryOp) and isinstance(sl.lower.op, ast.USub) and \
                    isinstance(sl.lower.operand, ast.Constant) and sl.lower.operand.value == 1
                last_idx = isinstance(sl, ast.UnaryOp) and isinstance(sl.op, ast.USub) and \
                    isinstance(sl.operand, ast.Constant) and sl.operand.value == 1
                if (last_slice and _is_nul(rhs, ConstEval(repo, fn_.module))) or (last_idx and isinstance(rhs, ast.Constant) and rhs.value == 0
                                                     and not isinstance(rhs.value, bool)):
                    guarded = True
        ctx.ob("C02.R4", f"{key} only for NUL-terminated data", guarded, where,
               "decode not dominated by endswith(NUL): an unterminated value would come back with a terminator added "
               "(or lose its last byte)")
        caught = False
        for tc in try_contexts(r, fn_.node):
            if tc.section == "body":
                for h in tc.node.handlers:
                    if set(handler_names(h)) & CATCHES_DECODE_ERROR and handler_reraises(h) == "never":
                        caught = True
        ctx.ob("C02.R4", f"{key} falls back to bytes on invalid UTF-8", caught, where,
               "decode not inside a try that absorbs UnicodeDecodeError: an undecodable body makes the parse fail")
        enc = _norm_encoding(d.args[0]) if d.args else "utf8"
        errs = [k.value for k in d.keywords if k.arg == "errors"] + (list(d.args[1:2]))
        strict = all(isinstance(e, ast.Constant) and e.value == "strict" for e in errs)
        ctx.ob("C02.R4", f"{key} strict, same codec as the packer", strict and enc is not None and (enc_pack is None or enc == enc_pack), where,
               f"decode codec {enc} errors={'strict' if strict else 'lossy'}, packer encodes {enc_pack}")
    ctx.floor("C02.R4", "decoding returns in _parse_var", n_dec, 1)


# --------------------------------------------------------------------------- R5

def _template_loops(repo, fns):
    return [(f, l) for f, l in loops_over(fns, ".blocks")
            if "tmpl" in src(l.iter).lower() or "template" in src(l.iter).lower()]


def _top_index(loop, node):
    """Index in loop.body of the top-level statement containing node."""
    chain = [node] + list(ancestors(node))
    for i, a in enumerate(chain):
        if a is loop and i > 0:
            for j, s in enumerate(loop.body):
                if s is chain[i - 1]:
                    return j
    return -1


def _inner_loop_between(loop, node):
    for a in ancestors(node):
        if a is loop:
            return False
        if isinstance(a, (ast.For, ast.While, ast.AsyncFor)):
            return True
    return False


def _reader_locals(repo, rf):
    """locals of rf that hold the body's BufferReader: bound to the constructor, or to a factory helper of the class that
    hands one back (`reader = self._make_body_reader(msg, raw_body)` with `return se.BufferReader("<", raw_body)` inside)"""
    readers = {st.path for st in stores(rf.node, into_defs=False) if st.kind == "assign" and isinstance(st.value, ast.Call)
               and (call_attr(st.value) or "").endswith("BufferReader")}
    if not readers:
        for st in stores(rf.node, into_defs=False):
            v = st.value
            if st.kind == "assign" and isinstance(v, ast.Call) and isinstance(v.func, ast.Attribute) and \
                    isinstance(v.func.value, ast.Name) and v.func.value.id in ("self", "cls") and rf.cls is not None:
                m_ = repo.lookup_method(rf.cls, v.func.attr)
                if m_ is not None and any(isinstance(r, ast.Return) and isinstance(r.value, ast.Call) and
                                          (call_attr(r.value) or "").endswith("BufferReader") for r in walk(m_.node)):
                    readers.add(st.path)
    return readers


def r5(ctx):
    repo = ctx.repo
    ctx.rule("C02.R5", "trailing-block tolerance agrees: reader stops at end-of-data before a block and records every "
                       "block it saw (even with zero repeats); writer skips exactly the blocks that are absent (None), "
                       "keyed on the same template block name")
    des_fns = class_methods_reachable(repo, repo.fn("UDPMessageDeserializer.parse_message_body"), depth=3)
    ser_fns = class_methods_reachable(repo, repo.fn("UDPMessageSerializer.serialize"), depth=3)
    rl = _template_loops(repo, des_fns)
    wl = _template_loops(repo, ser_fns)
    ctx.require(len(rl) == 1 and len(wl) == 1, f"expected one template block loop per side, found reader {len(rl)} writer {len(wl)}")
    (rf, rloop), (wf, wloop) = rl[0], wl[0]
    rv, wv = ap(rloop.target), ap(wloop.target)

    # ---- reader
    readers = _reader_locals(repo, rf)
    ctx.require(len(readers) >= 1, f"{rf.qual}: no BufferReader local")
    consuming = [c for c in calls(rloop) if call_attr(c) in ("read", "read_bytes", "_parse_var")]
    first_read = min([_top_index(rloop, c) for c in consuming] or [len(rloop.body)])
    eof_breaks = []
    # `continue` is as good as `break` here: once the reader is exhausted every later iteration sees the same
    for b in [n for n in walk(rloop) if isinstance(n, (ast.Break, ast.Continue, ast.Return)) and not _inner_loop_between(rloop, n)]:
        for e, pol in facts(b, rloop):
            names = {n.id for n in ast.walk(e) if isinstance(n, ast.Name)}
            if names and names <= (readers | {"len"}) and names & readers:
                empties = _eof_polarity(e, pol)
                if empties:
                    eof_breaks.append(b)
    ctx.ob("C02.R5", f"{rf.qual}: template loop stops at end-of-data before reading a block",
           any(_top_index(rloop, b) < first_read for b in eof_breaks), ctx.w(rf, rloop),
           "no exit on an exhausted reader ahead of the first read of the iteration: datagrams that omit trailing "
           "blocks would not parse")
    # ... and only there: end-of-data between the repeats of one block must stay a parse failure (the raw body is then
    # put back and forwarded verbatim) - the writer always emits `len(block list)` repeats behind the count it writes
    # and insists on the template's number for Multiple blocks, so a short block list cannot be re-encoded as it came
    for b in [n for n in walk(rloop) if isinstance(n, (ast.Break, ast.Continue, ast.Return)) and _inner_loop_between(rloop, n)]:
        for e, pol in facts(b, rloop):
            names = {n.id for n in ast.walk(e) if isinstance(n, ast.Name)}
            if names and names <= (readers | {"len"}) and names & readers and _eof_polarity(e, pol):
                ctx.ob("C02.R5", f"{rf.qual}: end-of-data exit `{norm(e)}` inside a block's repeat loop", False, ctx.w(rf, b),
                       "a datagram that ends between repeats now parses (with fewer repeats than its count byte / the "
                       "template says) and is re-encoded differently, or not at all, instead of being forwarded verbatim")
    for wl_ in [n for n in walk(rloop) if isinstance(n, ast.While)]:
        names = {n.id for n in ast.walk(wl_.test) if isinstance(n, ast.Name)}
        if names & readers:
            ctx.ob("C02.R5", f"{rf.qual}: repeats read `while {norm(wl_.test)}`", False, ctx.w(rf, wl_),
                   "repeat loop bounded by the remaining data rather than by the block's count")
    cbl = [c for c in find_calls(rloop, "create_block_list", into_defs=False)]
    ok_cbl = []
    for c in cbl:
        arg_ok = len(c.args) == 1 and ap(c.args[0]) == f"{rv}.name"
        direct = not _inner_loop_between(rloop, c) and not any(isinstance(a, (ast.If, ast.Try)) for a in
                                                               _ancestors_until(c, rloop))
        if arg_ok and direct:
            ok_cbl.append(c)
    ctx.ob("C02.R5", f"{rf.qual}: every block reached is recorded via create_block_list({rv}.name)", len(ok_cbl) >= 1,
           ctx.w(rf, rloop), "a Variable block with zero repeats would be forgotten: the writer would then omit its count byte")
    for c in ok_cbl:
        before_eof = any(_top_index(rloop, c) < _top_index(rloop, b) for b in eof_breaks)
        ctx.ob("C02.R5", f"{rf.qual}: create_block_list only after the end-of-data test", not before_eof, ctx.w(rf, c),
               "a block that was not in the datagram would be recorded as present: the writer would emit it")

    # ---- writer
    lookups = []
    for st in stores(wloop, into_defs=False):
        v = st.value
        if st.kind == "assign" and isinstance(st.target, ast.Name) and isinstance(v, ast.Call) and \
                call_attr(v) in ("pop", "get") and v.args and ap(v.args[0]) == f"{wv}.name":
            dflt_none = (len(v.args) == 1 and call_attr(v) == "get") or \
                (len(v.args) == 2 and isinstance(v.args[1], ast.Constant) and v.args[1].value is None)
            lookups.append((st, dflt_none))
    ctx.ob("C02.R5", f"{wf.qual}: block list looked up by {wv}.name with a None default", len(lookups) == 1 and lookups[0][1],
           ctx.w(wf, wloop), f"found {len(lookups)} lookups keyed on the template block name")
    if len(lookups) != 1:
        return
    bl = lookups[0][0].target.id

    def none_fact(node):
        for e, pol in facts(node, wloop):
            nt = is_none_test(e)
            if nt and nt[0] == bl:
                return nt[1] == pol
        return None

    def truthy_fact(node):
        return any(ap(e) == bl for e, pol in facts(node, wloop))
    skips = [n for n in walk(wloop) if isinstance(n, ast.Continue) and not _inner_loop_between(wloop, n)]
    none_skips = [n for n in skips if none_fact(n) is True]
    truthy_skips = [n for n in skips if none_fact(n) is None and truthy_fact(n)]
    ctx.ob("C02.R5", f"{wf.qual}: absent block ({bl} is None) is skipped", len(none_skips) >= 1, ctx.w(wf, wloop),
           "a block the reader never saw is not skipped: re-encoding a datagram with omitted trailing blocks fails")
    for n in truthy_skips:
        ctx.ob("C02.R5", f"{wf.qual}: skip keyed on truthiness of {bl}", False, ctx.w(wf, n),
               "a present-but-empty Variable block (count byte 0 on the wire) would be skipped: one byte lost")
    # whoever is handed the block list writes it: a method of the serializer or of a collaborator it delegates to
    emits = [c for c in calls(wloop) if isinstance(c.func, ast.Attribute) and not (ap(c.func) or "").startswith(LOG_PREFIXES)
             and any(ap(a) == bl for a in list(c.args) + [k.value for k in c.keywords])]
    ctx.floor("C02.R5", "block emission calls in the writer loop", len(emits), 1)
    for c in emits:
        ctx.ob("C02.R5", f"{wf.qual}: {norm(c)} runs for every present block", none_fact(c) is False and not truthy_fact(c),
               ctx.w(wf, c), "emission must be conditioned on exactly `block list is not None`")
    # not armed: a later present block after a missing one raises (only reachable for constructed messages)
    if not any(isinstance(n, ast.Raise) and none_fact(n) is False for n in walk(wloop)):
        ctx.note("C02.R5: writer no longer raises when a block follows a missing one (not armed: a parsed datagram's "
                 "blocks are always a prefix of the template)")


def _ancestors_until(node, stop):
    out = []
    for a in ancestors(node):
        if a is stop:
            break
        out.append(a)
    return out


def _eof_polarity(e, pol):
    """Does (e evaluated to pol) mean 'reader exhausted'?"""
    if isinstance(e, ast.Call) and ap(e.func) == "len":
        return pol is False
    if isinstance(e, ast.Name):
        return pol is False
    if isinstance(e, ast.Compare) and len(e.ops) == 1 and isinstance(e.comparators[0], ast.Constant) \
            and e.comparators[0].value == 0:
        op = e.ops[0]
        if isinstance(op, (ast.Eq, ast.LtE)):
            return pol is True
        if isinstance(op, (ast.NotEq, ast.Gt)):
            return pol is False
    return False


# --------------------------------------------------------------------------- R6

def _is_projection(e, var, consts, helper=None):
    """e selects / re-wraps components of `var` without computing anything from them.  `helper(call)` says whether a
    self-method call returns a projection of its argument (callable-class packers)."""
    if isinstance(e, ast.Starred):
        return _is_projection(e.value, var, consts, helper)
    if isinstance(e, ast.Name):
        return e.id == var
    if isinstance(e, ast.Call):
        if isinstance(e.func, ast.Attribute) and e.func.attr in ("data", "bytes") and not e.keywords and len(e.args) <= 1:
            # `.data()` / `.data(<how many components>)`: the component accessor of a coordinate (what it returns is
            # judged on the coordinate classes themselves, below)
            a0 = e.args[0] if e.args else None
            if a0 is None or isinstance(a0, ast.Constant) or (isinstance(a0, ast.Name) and a0.id in consts) or \
                    (isinstance(a0, ast.Attribute) and isinstance(a0.value, ast.Name) and a0.value.id in ("self", "cls")):
                return _is_projection(e.func.value, var, consts, helper)
        if ap(e.func) in ("tuple", "list", "bytes") and len(e.args) == 1 and not e.keywords:
            return _is_projection(e.args[0], var, consts, helper)
        # `typ(*x)`: a plain sequence wrapped into the factory's coordinate class (a constant of the factory); that
        # the constructor keeps the wire components as they are is a separate obligation on the coordinate classes
        ctor_const = (isinstance(e.func, ast.Name) and e.func.id in consts) or \
            (isinstance(e.func, ast.Attribute) and isinstance(e.func.value, ast.Name) and e.func.value.id in ("self", "cls"))
        if ctor_const and len(e.args) == 1 and not e.keywords \
                and isinstance(e.args[0], ast.Starred):
            return _is_projection(e.args[0].value, var, consts, helper)
        if helper is not None and not e.keywords:
            val = helper(e, consts)
            if val is not None:
                return _is_projection(val, var, consts, helper)
        return False
    if isinstance(e, ast.Subscript):
        def plain(b):
            return b is None or isinstance(b, ast.Constant) or (isinstance(b, ast.Name) and b.id in consts) or \
                (isinstance(b, ast.Attribute) and isinstance(b.value, ast.Name) and b.value.id in ("self", "cls")) or \
                (isinstance(b, ast.UnaryOp) and isinstance(b.operand, ast.Constant))
        sl = e.slice
        ok = (isinstance(sl, ast.Slice) and plain(sl.lower) and plain(sl.upper) and plain(sl.step)) or plain(sl)
        return ok and _is_projection(e.value, var, consts, helper)
    return False


def _pure_names(body, var, consts, helper):
    """(names that only ever hold the value or a selection of its components - greatest fixpoint, all assigned names)"""
    assigns = {}
    for st in [x for b in body for x in walk(b)]:
        if isinstance(st, ast.Assign):
            for t in st.targets:
                assigns.setdefault(ap(t) or norm(t), []).append(st.value)
        elif isinstance(st, (ast.AugAssign, ast.AnnAssign)) and st.value is not None:
            assigns.setdefault(ap(st.target) or norm(st.target), []).append(None)
        elif isinstance(st, (ast.For, ast.comprehension)):
            for t in ast.walk(st.target):
                if isinstance(t, ast.Name):
                    assigns.setdefault(t.id, []).append(None)
    pure = set(assigns) | {var}
    changed = True
    while changed:
        changed = False
        for nm in list(pure):
            if any(v is None or not any(_is_projection(v, q, consts, helper) for q in pure) for v in assigns.get(nm, [])):
                pure.discard(nm)
                changed = True
    return pure, assigns


def _projecting_helpers(repo, mod, ci, depth=0):
    """helper(call, consts) -> the argument of `call` whose projection the callee returns, or None.  Callees: methods of
    ci called on self/cls, and functions of module `mod`; every other argument must be a constant of the caller; the
    callee's returns must all be projections of the corresponding parameter."""
    def is_const(a, consts):
        return isinstance(a, ast.Constant) or (isinstance(a, ast.Name) and a.id in consts) or \
            (isinstance(a, ast.Attribute) and isinstance(a.value, ast.Name) and a.value.id in ("self", "cls"))

    def helper(call, consts):
        if depth > 3:
            return None
        g, params = None, []
        if isinstance(call.func, ast.Attribute) and isinstance(call.func.value, ast.Name) and call.func.value.id in ("self", "cls") \
                and ci is not None:
            g = repo.lookup_method(ci, call.func.attr)
            params = [a.arg for a in g.node.args.args][1:] if g is not None else []
        elif isinstance(call.func, ast.Name):
            cands = [x for x in repo.funcs.get(call.func.id, []) if x.module is mod and x.cls is None and x.parent_fn is None]
            g = cands[0] if len(cands) == 1 else None
            params = [a.arg for a in g.node.args.args] if g is not None else []
        if g is None or len(call.args) > len(params) or not call.args:
            return None
        vals = [(p_, a) for p_, a in zip(params, call.args) if not is_const(a, consts)]
        if len(vals) != 1:
            return None
        pname, arg = vals[0]
        inner = _projecting_helpers(repo, g.module, g.cls, depth + 1)
        gconsts = set(params) - {pname}
        pure, _a = _pure_names(g.node.body, pname, gconsts, inner)
        rets = [r for r in walk(g.node) if isinstance(r, ast.Return)]
        if rets and all(r.value is not None and any(_is_projection(r.value, q, gconsts, inner) for q in pure) for r in rets):
            return arg
        return None
    return helper


def r6(ctx):
    repo = ctx.repo
    ctx.rule("C02.R6", "numeric packers are pure projections: what a SPECS factory's packer hands to struct.pack is the "
                       "value (or a selection of its components), never something computed from it - the unpacker is a "
                       "plain constructor, so any arithmetic on the pack side changes a value that came off the wire")
    n = 0
    for fname in ("_make_struct_spec", "_make_tuplecoord_spec"):
        fac = repo.fn(fname, PACK)
        fconsts = {a.arg for a in fac.node.args.args}
        # (callable node, value parameter, constants, projection helper, label)
        packers = []
        for d in walk(fac.node, into_defs=True):
            if isinstance(d, (ast.FunctionDef, ast.Lambda)) and d is not fac.node \
                    and any(call_attr(c) == "pack" for c in calls(d, into_defs=True)):
                params = [a.arg for a in d.args.args]
                if len(params) != 1:
                    raise AnalysisError(f"C02.R6: {fname}: packer with parameters {params}")
                packers.append((d, params[0], fconsts, _projecting_helpers(repo, fac.module, None), getattr(d, "name", "lambda")))
        for c in calls(fac.node, into_defs=True):
            # functools.partial(<module-level function>, <bound args>): the function is the packer, its remaining
            # parameter the value, the bound ones are constants of the factory
            if (ap(c.func) or "").split(".")[-1] == "partial" and c.args and isinstance(c.args[0], ast.Name):
                for g in repo.funcs.get(c.args[0].id, []):
                    if g.module is fac.module and g.cls is None and g.parent_fn is None and \
                            any(call_attr(x) == "pack" for x in calls(g.node, into_defs=True)):
                        params = [a.arg for a in g.node.args.args]
                        nbound = len(c.args) - 1 + len(c.keywords)
                        if len(params) - nbound != 1:
                            raise AnalysisError(f"C02.R6: {fname}: partial packer {g.qual} leaves parameters {params[nbound:]}")
                        packers.append((g.node, params[nbound], fconsts | set(params[:nbound]),
                                        _projecting_helpers(repo, g.module, None), g.qual))
            # Cls(<args>) where Cls defines __call__: the instance is the packer, what __init__ stored are constants
            elif isinstance(c.func, ast.Name):
                ci = repo.resolve_class(c.func.id, fac.module)
                call_m = repo.lookup_method(ci, "__call__") if ci is not None else None
                if call_m is not None and any(call_attr(x) == "pack" for x in calls(call_m.node, into_defs=True)):
                    params = [a.arg for a in call_m.node.args.args][1:]
                    if len(params) != 1:
                        raise AnalysisError(f"C02.R6: {fname}: callable packer {ci.name} with parameters {params}")
                    packers.append((call_m.node, params[0], set(), _projecting_helpers(repo, ci.module, ci), f"{ci.name}.__call__"))
        seen = set()
        for d, var, consts, helper, name in packers:
            if id(d) in seen:
                continue
            seen.add(id(d))
            n += 1
            body = d.body if isinstance(d, ast.FunctionDef) else [ast.Return(value=d.body)]
            pure, assigns = _pure_names(body, var, consts, helper)
            for c in [c for b in body for c in calls(b)]:
                if call_attr(c) == "pack":
                    ok = len(c.args) >= 1 and not c.keywords and all(any(_is_projection(a, q, consts, helper) for q in pure) for a in c.args)
                    bad = sorted(nm for nm in assigns if nm not in pure)
                    ctx.ob("C02.R6", f"{fname}.{name}: `{norm(c)}` packs the value itself", ok, ctx.w(fac, d),
                           f"pack() is given something computed from the value (recomputed locals: {bad}) - normalised / "
                           f"scaled / sign-flipped: a value parsed from the wire no longer packs to the bytes it came from")
        # bound method `struct_obj.pack` returned directly is a projection by construction
    ctx.floor("C02.R6", "packers (closures / partials / callable objects) in the SPECS factories", n, 1)

    # unpack side: the "plain constructor" must be plain - the coordinate class built from the unpacked floats stores
    # the components that go back on the wire as they are (float() of a float is the same float)
    from .common import fmt_count
    packer_cls = repo.cls("TemplateDataPacker", PACK)
    specs = repo.class_attr(packer_cls, "SPECS")
    pev = ConstEval(repo, packer_cls.module)
    seen = set()
    if isinstance(specs, ast.Dict):
        for v in specs.values:
            if not (isinstance(v, ast.Call) and ap(v.func) == "_make_tuplecoord_spec" and v.args):
                continue
            ci = repo.resolve_class(ap(v.args[0]) or "", packer_cls.module)
            if ci is None:
                raise AnalysisError(f"C02.R6: coordinate class {norm(v.args[0])} of a SPECS row not found")
            fmt = next((pev.ev(a) for a in v.args[1:] if isinstance(pev.ev(a), str)), None)
            ne = next((k.value for k in v.keywords if k.arg == "needed_elems"), None)
            n_wire = pev.ev(ne) if ne is not None else (fmt_count(fmt) if isinstance(fmt, str) else None)
            if not isinstance(n_wire, int) or (ci.name, n_wire) in seen:
                continue
            seen.add((ci.name, n_wire))
            init = repo.lookup_method(ci, "__init__")
            if init is None:
                continue
            params = [a.arg for a in init.node.args.args][1:1 + n_wire]
            for pname in params:
                sts = [st for st in stores(init.node, into_defs=False) if st.path == f"self.{pname}" and st.kind == "assign"]
                rebinds = [st for st in stores(init.node, into_defs=False) if st.path == pname]
                ok = bool(sts) and not rebinds and all(
                    (isinstance(st.value, ast.Name) and st.value.id == pname) or
                    (isinstance(st.value, ast.Call) and ap(st.value.func) == "float" and len(st.value.args) == 1
                     and ap(st.value.args[0]) == pname) for st in sts)
                ctx.ob("C02.R6", f"{ci.name}.__init__ stores wire component {pname} as it is", ok, ctx.w(init, init.node),
                       f"self.{pname} is not simply {pname} / float({pname}) "
                       f"({[norm(st.value) for st in sts + rebinds if st.value is not None]}): a value unpacked from the wire is "
                       f"changed on construction (clamped / NaN-scrubbed / rounded) and packs back to different bytes")
    ctx.floor("C02.R6", "coordinate classes built by SPECS unpackers", len(seen), 2)

    # the component accessor the packers go through: data() hands back the stored wire components, in order.  The one
    # tolerated computation is a sign flip of all of them under `self.<derived component> < 0` (q and -q are the same
    # rotation) - tolerated because it can never apply to a value that came off the wire: the unpacker builds the
    # coordinate from the wire components only, and __init__ then derives that component as a non-negative number.
    for cname, n_wire in sorted(seen):
        ci = repo.resolve_class(cname, packer_cls.module) or repo.cls(cname)
        init, data = repo.lookup_method(ci, "__init__"), repo.lookup_method(ci, "data")
        if init is None or data is None:
            continue
        comps = [a.arg for a in init.node.args.args][1:]
        wire, derived = comps[:n_wire], comps[n_wire:]
        for r in [x for x in walk(data.node) if isinstance(x, ast.Return)]:
            elts = r.value.elts if isinstance(r.value, ast.Tuple) else None
            if elts is None:
                ctx.ob("C02.R6", f"{ci.name}.data: `{norm(r)}` returns the stored components", False, ctx.w(data, r),
                       "not a tuple of the coordinate's attributes")
                continue
            plain = all(ap(e) == f"self.{comps[i]}" for i, e in enumerate(elts) if i < len(comps)) and len(elts) <= len(comps)
            flipped = len(elts) == n_wire and all(isinstance(e, ast.UnaryOp) and isinstance(e.op, ast.USub)
                                                  and ap(e.operand) == f"self.{wire[i]}" for i, e in enumerate(elts))
            if plain and len(elts) >= n_wire:
                ctx.ob("C02.R6", f"{ci.name}.data: `{norm(r)}` returns the stored components", True, ctx.w(data, r))
                continue
            guards = [e for e, pol in facts(r, data.node) if pol and isinstance(e, ast.Compare) and len(e.ops) == 1
                      and isinstance(e.ops[0], ast.Lt) and (ap(e.left) or "").startswith("self.")
                      and (ap(e.left) or "")[5:] in derived and isinstance(e.comparators[0], ast.Constant)
                      and e.comparators[0].value == 0]
            if not (flipped and guards):
                ctx.ob("C02.R6", f"{ci.name}.data: `{norm(r)}` returns the stored components", False, ctx.w(data, r),
                       "the accessor the packers use hands back something other than the stored wire components (or their "
                       "joint sign flip under a negative derived component)")
                continue
            d = ap(guards[0].left)[5:]
            sts = [st for st in stores(init.node, into_defs=False) if st.path == f"self.{d}" and st.kind == "assign"
                   and any(is_none_test(e) == (d, True) and pol or is_none_test(e) == (d, False) and not pol
                           for e, pol in facts(st.node, init.node))]

            def nonneg(v):
                if isinstance(v, ast.Constant) and isinstance(v.value, (int, float)) and not isinstance(v.value, bool):
                    return v.value >= 0
                return isinstance(v, ast.Call) and (ap(v.func) or "").split(".")[-1] in ("sqrt", "abs", "fabs", "hypot")
            default_none = any(isinstance(dv, ast.Constant) and dv.value is None for a_, dv in
                               zip(init.node.args.args[-len(init.node.args.defaults):], init.node.args.defaults) if a_.arg == d)
            ok = bool(sts) and default_none and all(st.value is not None and nonneg(st.value) for st in sts)
            ctx.ob("C02.R6", f"{ci.name}.data: sign flip `{norm(r)}` under `{norm(guards[0])}` cannot apply to a wire value: "
                             f"__init__ derives {d} >= 0 when it is not given", ok, ctx.w(data, r),
                   f"{ci.name}.__init__ does not provably derive a non-negative {d} when only the wire components are passed "
                   f"({[norm(st.value) for st in sts]}): a quaternion parsed from the wire could be re-encoded with flipped signs")


# --------------------------------------------------------------------------- R7

def r7(ctx):
    repo = ctx.repo
    ctx.rule("C02.R7", "the message model stores what the parser hands it verbatim: Block.__setitem__ keeps the value "
                       "(enum -> int apart), and a wire field of Message that is a property has a setter that stores its "
                       "argument (or a tuple/bytes of it) - no strip / dedupe / normalise on the way in")
    si = repo.fn("Block.__setitem__", MSG)
    params = [a.arg for a in si.node.args.args][1:]
    ctx.require(len(params) == 2, "Block.__setitem__ signature changed")
    keyp, valp = params
    sets = [st for st in stores(si.node, into_defs=False) if st.kind == "setitem" and st.path == "self.vars"]
    ctx.floor("C02.R7", "stores into Block.vars in __setitem__", len(sets), 1)
    for st in sets:
        ctx.ob("C02.R7", f"Block.__setitem__: `{norm(st.node)}` stores the value parameter", isinstance(st.value, ast.Name)
               and st.value.id == valp, ctx.w(si, st.node), "what is stored is not the value that was handed in")
    for st in [x for x in stores(si.node, into_defs=False) if x.path == valp]:
        v = st.value
        enum_int = st.kind == "assign" and isinstance(v, ast.Call) and ap(v.func) == "int" and len(v.args) == 1 and ap(v.args[0]) == valp \
            and any(pol and isinstance(e, ast.Call) and ap(e.func) == "isinstance" and "enum" in src(e).lower()
                    for e, pol in facts(st.node, si.node))
        ctx.ob("C02.R7", f"Block.__setitem__: `{norm(st.node)}` leaves the value intact", enum_int, ctx.w(si, st.node),
               "every variable the parser decodes is stored through here: rewriting the value (strip / rstrip / replace / "
               "lower / round ...) loses bytes that the re-encoded datagram needs")
    # wire fields of Message that became properties
    hf = repo.fn("UDPMessageDeserializer._parse_message_header")
    hm = _msg_param_or_local(hf)
    fields = sorted({st.path.split(".", 1)[1] for st in stores(hf.node, into_defs=False)
                     if st.path.startswith(hm + ".") and st.path.count(".") == 1})
    ctx.floor("C02.R7", "message fields set by the header parser", len(fields), 5)
    msg = repo.cls("Message", MSG)
    for fld in fields:
        setter = repo.lookup_method(msg, f"{fld}.setter")
        if setter is None:
            continue
        sp = [a.arg for a in setter.node.args.args][1:]
        if len(sp) != 1:
            raise AnalysisError(f"C02.R7: setter of Message.{fld} has parameters {sp}")
        sts = [st for st in stores(setter.node, into_defs=False) if st.path.startswith("self.") and st.kind == "assign"
               and st.value is not None and any(isinstance(x, ast.Name) and x.id == sp[0] for x in ast.walk(st.value))]
        ok = bool(sts) and all(_is_projection(st.value, sp[0], set()) for st in sts) and \
            not [st for st in stores(setter.node, into_defs=False) if st.path == sp[0]]
        ctx.ob("C02.R7", f"Message.{fld} setter stores its argument as it is", ok, ctx.w(setter, setter.node),
               f"{[norm(st.value) for st in sts]}: the header parser's value is normalised on assignment, so even a never-parsed "
               f"datagram is re-emitted from the changed field")


# --------------------------------------------------------------------------- R8 / R9

SER_LIB = "hippolyzer/lib/base/serialization.py"


def r8(ctx):
    repo = ctx.repo
    ctx.rule("C02.R8", "read-only renderings do not alias the message: Message.to_dict() builds fresh per-block dicts - "
                       "Block.vars itself is never handed out (consumers such as the LLSD serializer rewrite the dicts "
                       "they are given)")
    td = repo.fn("Message.to_dict", MSG)
    from ..core import parent
    bare = []
    uses = 0
    # Message.to_dict, and every other function of the library that gets at a block's variable dict from outside Block
    # (`<block>.vars`): renderers / serializers of other formats must copy as well
    scan = [(td, n) for n in walk(td.node, into_defs=True)]
    for g in repo.all_funcs:
        if g.parent_fn is not None or g == td or (g.cls is not None and g.cls.name == "Block"):
            continue
        for n in walk(g.node, into_defs=True):
            if isinstance(n, ast.Attribute) and n.attr == "vars" and not (isinstance(n.value, ast.Name) and n.value.id in ("self", "cls")):
                scan.append((g, n))
    owner_of = {}
    for g_, n in scan:
        owner_of[id(n)] = g_
        if isinstance(n, ast.Attribute) and n.attr in ("vars", "_blocks") and isinstance(n.ctx, ast.Load):
            uses += 1
            p = parent(n)
            copied = False
            if isinstance(p, ast.Call) and n in p.args and ap(p.func) in ("dict", "copy.copy", "copy.deepcopy", "OrderedDict", "list", "tuple"):
                copied = True
            elif isinstance(p, ast.Attribute) and p.value is n and p.attr in ("copy", "items", "keys", "values", "get"):
                copied = True             # a method of the dict: a copy / a view that is iterated / one value
            elif isinstance(p, ast.Subscript) and p.value is n:
                copied = True
            elif isinstance(p, ast.Dict) and any(k is None and v is n for k, v in zip(p.keys, p.values)):
                copied = True             # {**block.vars}
            elif isinstance(p, (ast.For, ast.comprehension)) and p.iter is n:
                copied = True             # only iterated
            elif isinstance(p, ast.Compare):
                copied = True
            if not copied:
                bare.append(n)
    ctx.stats["C02.R8.internal dict uses in to_dict"] = uses
    for n in [x for x in bare if owner_of[id(x)] != td]:
        g_ = owner_of[id(n)]
        ctx.ob("C02.R8", f"{g_.qual}: `{norm(parent(n))}` does not keep a reference to a block's own variable dict", False, ctx.w(g_, n),
               "Block.vars taken by reference outside Block: whatever this function (or its caller) then writes into that dict "
               "is written into the message itself, and the next re-encode is no longer the datagram that arrived")
    bare = [x for x in bare if owner_of[id(x)] == td]
    ctx.ob("C02.R8", "Message.to_dict: per-block dicts are copies, not Block.vars / _blocks themselves", not bare, td.where,
           "; ".join(f"`{norm(parent(n))}`" for n in bare) + " hands the message's own variable dict to the caller: rendering "
           "the message (LLSD / event-queue form rewrites U32/U64/IP values in place) changes what is re-encoded afterwards"
           if bare else "")


def r9(ctx):
    repo = ctx.repo
    ctx.rule("C02.R9", "a read past the end of the body is an error, not a short result: BufferReader.read_bytes refuses when "
                       "position + requested > length (compared on the unclamped sum), so a truncated body fails the parse "
                       "and the raw body is put back instead of being re-encoded with recomputed lengths")
    from .common import linform
    rb = repo.fn("BufferReader.read_bytes", SER_LIB)
    params = [a.arg for a in rb.node.args.args][1:]
    ctx.require(bool(params), "BufferReader.read_bytes lost its size parameter")
    n = params[0]
    found = []
    for r in [x for x in walk(rb.node) if isinstance(x, ast.Raise)]:
        for e, pol in facts(r, rb.node):
            if not (isinstance(e, ast.Compare) and len(e.ops) == 1):
                continue
            l = linform(repo, rb.module, rb.node, e.left)
            rr = linform(repo, rb.module, rb.node, e.comparators[0])
            if l is None or rr is None:
                continue
            diff = dict(l)
            for k, c in rr.items():
                diff[k] = diff.get(k, 0) - c
            diff = {k: c for k, c in diff.items() if c != 0}
            op = type(e.ops[0])
            if not pol:
                op = {ast.Gt: ast.LtE, ast.GtE: ast.Lt, ast.Lt: ast.GtE, ast.LtE: ast.Gt}.get(op)
            sign = 1 if op in (ast.Gt, ast.GtE) else -1 if op in (ast.Lt, ast.LtE) else 0
            core_ = {k: c for k, c in diff.items() if k != 1}
            # requested + <cursor attribute this method advances> - <length attribute it never writes> (any names),
            # or requested - len(self)
            cursors = {st.path for st in stores(rb.node, into_defs=False) if st.path.startswith("self.") and st.kind in ("assign", "augassign")}
            pos_terms = [k for k, c in core_.items() if c == sign and k != n and str(k).startswith("self.") and k in cursors]
            neg_terms = [k for k, c in core_.items() if c == -sign and ((str(k).startswith("self.") and k not in cursors) or k == "len()")]
            shape_a = core_.get(n) == sign and len(core_) == 3 and len(pos_terms) == 1 and len(neg_terms) == 1 and neg_terms[0] != "len()"
            shape_b = core_ == {n: sign, "len()": -sign}
            if sign and (shape_a or shape_b):
                found.append(e)
    ctx.ob("C02.R9", "BufferReader.read_bytes: refuses when position + requested exceeds the length", len(found) >= 1, rb.where,
           "no raise is conditioned on `<cursor> + <requested> > <length>` over the unclamped values (a clamped / "
           "min()-ed end position makes the check vacuous): short reads succeed silently")


# --------------------------------------------------------------------------- R10 / R11

def r10(ctx):
    repo = ctx.repo
    ctx.rule("C02.R10", "bytes past the last template block are part of the datagram: the body parser keeps the remainder it "
                        "leaves unread on the message, and serialize writes it back after the last block (an 'extended' "
                        "datagram re-encodes to the bytes it came with, parsed or not)")
    des_fns = class_methods_reachable(repo, repo.fn("UDPMessageDeserializer.parse_message_body"), depth=3)
    ser_fns = class_methods_reachable(repo, repo.fn("UDPMessageSerializer.serialize"), depth=3)
    rl = _template_loops(repo, des_fns)
    ctx.require(len(rl) == 1, f"expected one template block loop in the body parser, found {len(rl)}")
    rf, rloop = rl[0]
    rm = _msg_param(rf, ctx)
    readers = _reader_locals(repo, rf)
    kept = []
    for st in stores(rf.node, into_defs=False):
        if st.kind == "assign" and st.path.startswith(rm + ".") and st.value is not None and st.node.lineno > rloop.lineno:
            if any(isinstance(c, ast.Call) and call_attr(c) in ("read_bytes", "read_rest", "read_all") and isinstance(c.func, ast.Attribute)
                   and ap(c.func.value) in readers for c in ast.walk(st.value)):
                kept.append(st)
    ctx.ob("C02.R10", f"{rf.qual}: the bytes left unread after the last block are kept on the message", len(kept) >= 1, ctx.w(rf, rloop),
           "what follows the last known block is read only to be logged / is ignored: once the body was parsed the message "
           "re-encodes without it, while a never-parsed one is forwarded with it")
    fields = {st.path.split(".", 1)[1] for st in kept}
    wrote = []
    for g in ser_fns:
        gm = None
        try:
            gm = _msg_param(g, ctx)
        except AnalysisError:
            continue
        for c in calls(g.node, into_defs=True):
            if call_attr(c) == "write_bytes" and c.args and isinstance(c.args[0], ast.Attribute) and ap(c.args[0].value) == gm \
                    and c.args[0].attr in fields:
                wrote.append((g, c))
    if kept:
        ctx.ob("C02.R10", f"serialize writes the kept remainder ({sorted(fields)}) back into the body", len(wrote) >= 1,
               repo.fn("UDPMessageSerializer.serialize").where, "the remainder is stored but never written when the body is re-encoded")
    wl = _template_loops(repo, ser_fns)
    for g, c in wrote:
        after = all(c.lineno > l.lineno for f_, l in wl if f_ == g)
        ctx.ob("C02.R10", f"{g.qual}: `{norm(c)}` comes after the template blocks", after, ctx.w(g, c),
               "the remainder followed the last block on the wire")


def r11(ctx):
    repo = ctx.repo
    ctx.rule("C02.R11", "numeric variables keep every bit pattern through unpack -> pack: no SPECS row decodes through a "
                        "conversion that rewrites some encodings (struct's 32-bit float codes go through a C double, which "
                        "quiets signalling NaNs)")
    packer_cls = repo.cls("TemplateDataPacker", PACK)
    specs = repo.class_attr(packer_cls, "SPECS")
    ctx.require(isinstance(specs, ast.Dict), "TemplateDataPacker.SPECS is not a dict literal")
    ev = ConstEval(repo, packer_cls.module)
    lossy = []
    for k, v in zip(specs.keys, specs.values):
        if isinstance(v, ast.Call):
            for a in list(v.args) + [kw_.value for kw_ in v.keywords]:
                fmt = ev.ev(a)
                if isinstance(fmt, str) and any(ch in fmt for ch in "fe"):
                    lossy.append((ap(k) or "").split(".")[-1])
    ctx.ob("C02.R11", "TemplateDataPacker.SPECS: 32-bit float variables keep every bit pattern through unpack -> pack",
           not lossy, ctx.w(packer_cls.module, specs),
           f"{sorted(lossy)} use struct codes 'f'/'e': unpack converts to a double and pack converts back, so a signalling NaN "
           f"(exponent all ones, quiet bit clear) arrives as 7fa00000 and leaves as 7fe00000 once the body was parsed")


def r12(ctx):
    repo = ctx.repo
    ctx.rule("C02.R12", "the send path does not look into the body: between prepare and transport.send nothing reads the "
                        "message's blocks / renders it (that would run the lazy parse, drop the raw body and re-encode - or "
                        "fail on - a datagram that should go out as it came), except to rewrite a message singled out by name "
                        "or while reporting a failure")
    anchors = [repo.fn("Circuit._send_prepared_message"), repo.fn("ProxiedCircuit._send_prepared_message"),
               repo.fn("Circuit.send"), repo.fn("Circuit.send_datagram")]
    fns = {}
    for a in anchors:
        for g in class_methods_reachable(repo, a, depth=2):
            # circuit code only: what the serializer does with raw body / blocks is C02.R1's subject
            if g.name not in ("prepare_message",) and g.cls is not None and any(k.name == "Circuit" for k in repo.mro(g.cls)):
                fns[g.full] = g
    ctx.floor("C02.R12", "functions on the send path", len(fns), 3)
    n = 0
    for g in fns.values():
        try:
            m = _msg_param(g, ctx)
        except AnalysisError:
            continue
        for node in walk(g.node, into_defs=True):
            looks = None
            if isinstance(node, ast.Attribute) and ap(node.value) == m and node.attr in ("blocks", "_blocks") and isinstance(node.ctx, ast.Load):
                looks = node
            elif isinstance(node, ast.Call) and isinstance(node.func, ast.Attribute) and ap(node.func.value) == m \
                    and node.func.attr in ("to_dict", "to_summary", "repr", "get_block", "ensure_parsed", "__getitem__"):
                looks = node
            elif isinstance(node, ast.Call) and ap(node.func) in ("repr", "str") and node.args and ap(node.args[0]) == m:
                looks = node
            elif isinstance(node, ast.FormattedValue) and ap(node.value) == m:
                looks = node
            elif isinstance(node, ast.Subscript) and ap(node.value) == m:
                looks = node
            elif isinstance(node, ast.Compare) and any(isinstance(o, (ast.In, ast.NotIn)) for o in node.ops) \
                    and any(ap(c) == m for c in node.comparators):
                looks = node
            if looks is None:
                continue
            n += 1
            in_handler = any(tc.section == "handler" for tc in try_contexts(looks, g.node))
            in_raise = any(isinstance(a_, ast.Raise) for a_ in ancestors(looks))
            by_name = any(pol and isinstance(e, ast.Compare) and len(e.ops) == 1 and isinstance(e.ops[0], (ast.Eq, ast.In))
                          and (ap(e.left) or "").endswith(".name") for e, pol in facts(looks, g.node))
            ctx.ob("C02.R12", f"{g.qual}: `{norm(looks)}` does not parse a message on its way out", in_handler or in_raise or by_name,
                   ctx.w(g, looks), "reads / renders the body of every message that is sent (tracing, statistics): a never-parsed "
                                    "datagram is parsed here, loses its raw body and goes out re-encoded; one whose body does not "
                                    "parse can no longer be forwarded")
    ctx.stats["C02.R12.body reads on the send path"] = n
    if n == 0:
        ctx.ob("C02.R12", "send path: no function reads the message body", True, "", "")


def run(ctx):
    r12(ctx)
    r11(ctx)
    r10(ctx)
    r9(ctx)
    r8(ctx)
    r7(ctx)
    r6(ctx)
    r1(ctx)
    r2(ctx)
    r3(ctx)
    r4(ctx)
    r5(ctx)
    ctx.assume("byte identity for arbitrary inputs (canonical zero-coding, heuristics on arbitrary bytes) is value-level "
               "and not decided statically")
