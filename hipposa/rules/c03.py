"""C03 - zero-coding: bounded expansion and canonical emission (DESIGN.md section 4, C03).

Both codec functions are small byte loops, so instead of matching their statement shapes the rules run a
tiny *abstract interpreter* over them (interval domain for integer locals and buffer lengths, loop
fixpoint with delayed widening + narrowing, the loop variable split into {0} / [1,255]):

  R1  zero_code_expand:   the length of the returned buffer has a finite upper bound for every input
  R2  zero_code_compress: output typestate  idle --00--> need-count --n in 1..255--> idle ; never `00 00`
                          (wrap form), never a count outside 1..255, never ends on a bare 00; plus, when
                          the count byte is the run counter itself, ghost accounting: count == zeros consumed
                          since the last flush, literals only after a flush
  R3  header peek window bounded (NOTE only)

Any statement/expression outside the supported subset is ANALYSIS-ERROR, never a guess.
"""
from __future__ import annotations

import ast

from ..cfg import CFG
from ..consteval import ConstEval, enum_members
from ..core import AnalysisError, ancestors, ap, atoms, calls, conditions, find_calls, is_none_test, norm, stores, walk
from .common import class_methods_reachable

SER = "hippolyzer/lib/base/message/udpserializer.py"
DES = "hippolyzer/lib/base/message/udpdeserializer.py"

INF = float("inf")
LOG_PREFIXES = ("LOG.", "logger.", "logging.", "log.")
PLAIN_ROUNDS = 600       # covers every threshold up to 2*255 without widening
MAX_ROUNDS = 700


# --------------------------------------------------------------------------- interval domain

def _mk(lo, hi):
    return None if lo > hi else (lo, hi)


def _join(a, b):
    if a is None:
        return b
    if b is None:
        return a
    return (min(a[0], b[0]), max(a[1], b[1]))


def _meet(a, b):
    if a is None or b is None:
        return None
    return _mk(max(a[0], b[0]), min(a[1], b[1]))


def _add(a, b):
    return (a[0] + b[0], a[1] + b[1])


def _neg(a):
    return (-a[1], -a[0])


def _sub(a, b):
    return _add(a, _neg(b))


def _m(x, y):
    if x == 0 or y == 0:
        return 0
    return x * y


def _mul(a, b):
    ps = [_m(a[0], b[0]), _m(a[0], b[1]), _m(a[1], b[0]), _m(a[1], b[1])]
    return (min(ps), max(ps))


def _env_join(a, b):
    if a is None:
        return b
    if b is None:
        return a
    return {k: _join(a[k], b[k]) for k in a.keys() & b.keys()}


def _state_join(a, b):
    out = dict(a)
    for ph, env in b.items():
        out[ph] = _env_join(out.get(ph), env)
    return out


def _state_widen(old, new):
    out = {}
    for ph, env in new.items():
        o = old.get(ph)
        if o is None:
            out[ph] = env
            continue
        w = {}
        for k, v in env.items():
            if k not in o:
                continue
            lo = v[0] if v[0] >= o[k][0] else -INF
            hi = v[1] if v[1] <= o[k][1] else INF
            w[k] = (lo, hi)
        out[ph] = w
    return out


class Flow:
    """Result of executing a block: abstract states per continuation kind (phase -> env)."""

    def __init__(self):
        self.next = {}
        self.brk = {}
        self.cont = {}
        self.ret = []        # list of (state, return-node, value descriptor)

    def absorb_abrupt(self, other: "Flow"):
        self.brk = _state_join(self.brk, other.brk)
        self.cont = _state_join(self.cont, other.cont)
        self.ret.extend(other.ret)


class Frame:
    """Name space of one (inlined) function activation.  Integer locals live in the abstract env under
    `prefix + name`; non-integer values (buffers, helper objects, the input / iterators over it) are
    flow-insensitive references in `refs`."""

    def __init__(self, fn_node, module, prefix, qual):
        self.fn, self.module, self.prefix, self.qual = fn_node, module, prefix, qual
        self.refs = {}
        self.closures = {}

    def key(self, name):
        return self.prefix + name


class ByteLoopInterp:
    """Abstract interpreter for a byte-loop codec function (see module docstring).  Helper functions of the
    same module, closures and methods of small helper classes are inlined (parameters bound, `self.x` mapped
    to per-object keys), so moving the loop or its state into helpers does not change the verdict."""

    def __init__(self, repo, fi, typestate=False, ghost=False, counter=None):
        self.repo, self.fi, self.fn = repo, fi, fi.node
        self.typestate = typestate
        self.ghost = ghost                # track #g = zeros consumed since the last run count was written
        self.counter = counter            # additionally track #d = #g - counter when the count byte is a counter
        params = [a.arg for a in self.fn.args.args if a.arg not in ("self", "cls")]
        if not params or self.fn.args.vararg or self.fn.args.kwarg:
            raise AnalysisError(f"{fi.qual}: expected a data parameter, found {params}")
        top = Frame(self.fn, fi.module, "", fi.qual)
        top.refs[params[0]] = ("data",)
        self.frames = [top]
        # further parameters: the property speaks about every caller, in particular one that passes only the data -
        # they are analysed at their default (None / a constant); one without a default is an unknown integer
        self.none_keys = set()
        self.init_env = {}
        extra = [a for a in self.fn.args.args if a.arg not in ("self", "cls")][1:] + list(self.fn.args.kwonlyargs)
        pos_defaults = dict(zip([a.arg for a in self.fn.args.args][len(self.fn.args.args) - len(self.fn.args.defaults):],
                                self.fn.args.defaults))
        kw_defaults = {a.arg: d for a, d in zip(self.fn.args.kwonlyargs, self.fn.args.kw_defaults) if d is not None}
        for a in extra:
            d = pos_defaults.get(a.arg, kw_defaults.get(a.arg))
            if d is None:
                self.init_env[a.arg] = (-INF, INF)
            elif isinstance(d, ast.Constant) and d.value is None:
                self.none_keys.add(a.arg)
            else:
                v = ConstEval(repo, fi.module).ev(d)
                if isinstance(v, bool) or not isinstance(v, int):
                    raise AnalysisError(f"{fi.qual}: default of parameter {a.arg} is not None / an integer constant")
                self.init_env[a.arg] = (v, v)
        self.extra_params = [a.arg for a in extra]
        self.obj_refs = {}                # "<obj prefix>.<attr>" -> reference
        self.sym_alias = {}               # int parameter key -> key of the caller's variable it was bound from
        self.buffers = set()              # buffer keys
        self.loopvars = {"#input"}        # canonical keys of loop variables over the input (+ wholesale copies of it)
        self.find_info = {}               # key of `i = <input>.find(0, start)` -> start
        self.stepped = set()              # keys that are stepped with += / -=
        self.record = True
        self.site_viol = {}               # emission stmt node -> [messages]   (typestate)
        self.site_ghost = {}              # emission stmt node -> [messages]   (ghost accounting)
        self.sites = {}                   # id(node) -> node (every emission site seen)
        self.need_symbols = set()
        self.emitted_symbols = set()
        self.ghost_undecided = False
        self.returns = []                 # (return node, buffer key, state)
        self.raises = {}                  # id(raise node) -> (node, [env, ...]) states in which it is reached
        self.len_guards = {}              # id(If node) -> If node whose test looks at the length of an output buffer

    @property
    def cur(self) -> Frame:
        return self.frames[-1]

    def cev(self):
        return ConstEval(self.repo, self.cur.module)

    # ---- references and keys
    def ref_of(self, e):
        """Reference denoted by an expression: ('buf', key) / ('obj', prefix, classinfo) / ('data',) / None."""
        if isinstance(e, ast.Name):
            return self.cur.refs.get(e.id)
        if isinstance(e, ast.Attribute):
            base = self.ref_of(e.value)
            if base is not None and base[0] == "obj":
                return self.obj_refs.get(f"{base[1]}.{e.attr}")
            return None
        if isinstance(e, ast.Call) and ap(e.func) in ("iter", "bytes", "memoryview", "bytearray") and len(e.args) == 1 \
                and not e.keywords:
            r = self.ref_of(e.args[0])
            return r if r is not None and r[0] in ("data", "gen") else None
        if isinstance(e, ast.Call) and isinstance(e.func, ast.Name) and e.func.id in self.cur.closures \
                and not e.args and not e.keywords:
            g = self.cur.closures[e.func.id]
            if any(isinstance(x, (ast.Yield, ast.YieldFrom)) for x in ast.walk(g)):
                return ("gen", g)              # generator closure over the input (validated when it is iterated)
        if isinstance(e, ast.Subscript) and isinstance(e.slice, ast.Slice) and e.slice.step is None:
            r = self.ref_of(e.value)          # a slice of the input is again "some bytes of the input"
            return r if r == ("data",) else None
        return None

    def _input_copy(self, e, env):
        """Byte items of `bytearray(<input or slice of it>)`, None if e is not such a copy.  A position found with
        `<input>.find(0, start)` tells where the first zero at or after `start` is: the bytes between are non-zero,
        the `start` bytes before were not looked at."""
        inner, wrapped = e, False
        while isinstance(inner, ast.Call) and ap(inner.func) in ("bytearray", "bytes") and len(inner.args) == 1 and not inner.keywords:
            inner, wrapped = inner.args[0], True
        if not wrapped:
            return None
        base, sl = inner, None
        if isinstance(base, ast.Subscript) and isinstance(base.slice, ast.Slice):
            base, sl = base.value, base.slice
        if self.ref_of(base) != ("data",):
            return None

        def seg(itv, n):
            return ("rep", [("b", itv, "#input")], n)

        def upto_first_zero(start):
            return ([seg((0, 255), (start, start))] if start else []) + [seg((1, 255), (0, INF))]
        if sl is None:
            if env.get("#nz") == (1, 1):
                return [seg((1, 255), env.get("#dlen", (0, INF)))]
            for k, start in self.find_info.items():
                if env.get(k) == (-1, -1):           # no zero at or after `start`
                    return upto_first_zero(start)
            return [seg((0, 255), (0, INF))]
        if sl.step is None and sl.lower is None and isinstance(sl.upper, (ast.Name, ast.Attribute)):
            k = self.key_of(sl.upper)
            if k in self.find_info and k in env and env[k][0] >= 0:
                return upto_first_zero(self.find_info[k])
        return [seg((0, 255), (0, INF))]

    def key_of(self, e):
        """Storage key of an integer variable expression (local name or attribute of a helper object)."""
        if isinstance(e, ast.Name):
            return self.cur.key(e.id)
        if isinstance(e, ast.Attribute):
            base = self.ref_of(e.value)
            if base is not None and base[0] == "obj":
                return f"{base[1]}.{e.attr}"
        return None

    def canon(self, key):
        seen = set()
        while key in self.sym_alias and key not in seen:
            seen.add(key)
            key = self.sym_alias[key]
        return key

    def sym_of(self, e):
        k = self.key_of(e) if isinstance(e, (ast.Name, ast.Attribute)) else None
        return self.canon(k) if k is not None else None

    # ---- diagnostics
    def bad(self, node, what):
        raise AnalysisError(f"{self.fi.qual}: unsupported construct for the byte-loop interpreter: {what} "
                            f"`{norm(node)}` (line {getattr(node, 'lineno', '?')})")

    def _viol(self, table, node, msg):
        if self.record:
            lst = table.setdefault(id(node), [])
            if msg not in lst:
                lst.append(msg)

    # ---- expressions
    def ev(self, e, env):
        if isinstance(e, ast.Constant):
            if isinstance(e.value, bool):
                return (int(e.value), int(e.value))
            if isinstance(e.value, int):
                return (e.value, e.value)
            self.bad(e, "non-integer constant")
        if isinstance(e, (ast.Name, ast.Attribute)):
            k = self.key_of(e)
            if k is not None and k in env:
                return env[k]
            if k is not None and k in self.none_keys:
                self.bad(e, "parameter that is None at its default used as a number")
            if self.ref_of(e) is not None:
                self.bad(e, "buffer / object / input used as a number")
            v = None
            base = self.ref_of(e.value) if isinstance(e, ast.Attribute) else None
            if base is not None and base[0] == "obj":
                cv = self.repo.class_attr(base[2], e.attr)          # class-level constant of a helper object
                v = ConstEval(self.repo, base[2].module).ev(cv) if cv is not None else None
            elif not (isinstance(e, ast.Name) and self._is_local(e.id)):
                v = self.cev().ev(e)
            if type(v).__name__ == "EnumVal":
                # a member of a (state) enum: its integer value, else its position among the members - all that
                # matters is that different members are different numbers
                if isinstance(v.value, int) and not isinstance(v.value, bool):
                    v = v.value
                else:
                    ecls = self.repo.resolve_class(v.cls, self.cur.module) or next(iter(self.repo.classes.get(v.cls, [])), None)
                    names = list(enum_members(self.repo, ecls)) if ecls is not None else []
                    v = names.index(v.name) if v.name in names else None
            if isinstance(v, int) and not isinstance(v, bool):
                return (v, v)
            self.bad(e, "name / attribute without a known integer value")
        if isinstance(e, ast.UnaryOp):
            if isinstance(e.op, ast.USub):
                return _neg(self.ev(e.operand, env))
            if isinstance(e.op, ast.Not):
                t, f = self.split(e, env)
                return _join((1, 1) if t is not None else None, (0, 0) if f is not None else None)
            self.bad(e, "unary operator")
        if isinstance(e, ast.BinOp):
            a, b = self.ev(e.left, env), self.ev(e.right, env)
            if isinstance(e.op, ast.Add):
                return _add(a, b)
            if isinstance(e.op, ast.Sub):
                return _sub(a, b)
            if isinstance(e.op, ast.Mult):
                return _mul(a, b)
            if isinstance(e.op, (ast.FloorDiv, ast.Mod)):
                return self._divmod(e, a, b)[0 if isinstance(e.op, ast.FloorDiv) else 1]
            self.bad(e, "binary operator")
        if isinstance(e, ast.Call):
            fn = ap(e.func)
            if fn == "len" and len(e.args) == 1:
                r = self.ref_of(e.args[0])
                if r is not None and r[0] == "buf":
                    return env[f"#len:{r[1]}"]
                if r == ("data",):
                    return env.get("#dlen", (0, INF))
            run = None
            if fn == "len" and len(e.args) == 1 and isinstance(e.args[0], ast.Call) and ap(e.args[0].func) in ("list", "tuple", "bytes") \
                    and len(e.args[0].args) == 1:
                run = self.ref_of(e.args[0].args[0])
            if fn == "sum" and len(e.args) == 1 and isinstance(e.args[0], ast.GeneratorExp) and len(e.args[0].generators) == 1 \
                    and isinstance(e.args[0].elt, ast.Constant) and e.args[0].elt.value == 1 and not e.args[0].generators[0].ifs:
                run = self.ref_of(e.args[0].generators[0].iter)
            if run is not None and run[0] == "run":
                return (1, INF)               # a group produced by itertools.groupby is never empty
            if fn in ("min", "max") and len(e.args) == 2 and not e.keywords:
                a, b = self.ev(e.args[0], env), self.ev(e.args[1], env)
                f = min if fn == "min" else max
                return (f(a[0], b[0]), f(a[1], b[1]))
            if fn == "int" and len(e.args) == 1:
                return self.ev(e.args[0], env)
            self.bad(e, "call")
        if isinstance(e, (ast.Compare, ast.BoolOp)):
            t, f = self.split(e, env)
            return _join((1, 1) if t is not None else None, (0, 0) if f is not None else None)
        if isinstance(e, ast.IfExp):
            t, f = self.split(e.test, env)
            return _join(self.ev(e.body, t) if t is not None else None, self.ev(e.orelse, f) if f is not None else None)
        self.bad(e, "expression")

    def _divmod(self, node, a, b):
        if b[0] != b[1] or b[0] <= 0 or b[0] == INF:
            self.bad(node, "division by a non-constant or non-positive divisor")
        c = b[0]
        q = (a[0] // c if a[0] not in (INF, -INF) else a[0], a[1] // c if a[1] not in (INF, -INF) else a[1])
        if a[0] not in (INF, -INF) and a[1] not in (INF, -INF) and a[0] // c == a[1] // c:
            r = (a[0] % c, a[1] % c)
        else:
            r = (0, c - 1)
        return q, r

    # ---- tests: (env if true | None, env if false | None)
    def _is_local(self, name):
        """Is `name` assigned (or a parameter) in the function of the current frame?  Such names never fall back
        to module constants."""
        fn = self.cur.fn
        if any(a.arg == name for a in fn.args.args + fn.args.kwonlyargs):
            return True
        return any(isinstance(n, ast.Name) and n.id == name and isinstance(n.ctx, ast.Store) for n in ast.walk(fn))

    def _key(self, e):
        if isinstance(e, (ast.Name, ast.Attribute)):
            return self.key_of(e)
        if isinstance(e, ast.Call) and ap(e.func) == "len" and len(e.args) == 1:
            r = self.ref_of(e.args[0])
            if r is not None and r[0] == "buf":
                return f"#len:{r[1]}"
            if r == ("data",):
                return "#dlen"
        return None

    @staticmethod
    def _with(env, key, itv):
        if itv is None:
            return None
        out = dict(env)
        out[key] = itv
        return out

    def split(self, t, env):
        if isinstance(t, ast.UnaryOp) and isinstance(t.op, ast.Not):
            a, b = self.split(t.operand, env)
            return b, a
        if isinstance(t, ast.BoolOp):
            if isinstance(t.op, ast.And):
                cur, fal = env, None
                for v in t.values:
                    if cur is None:
                        break
                    tt, ff = self.split(v, cur)
                    fal = _env_join(fal, ff)
                    cur = tt
                return cur, fal
            cur, tru = env, None
            for v in t.values:
                if cur is None:
                    break
                tt, ff = self.split(v, cur)
                tru = _env_join(tru, tt)
                cur = ff
            return tru, cur
        if isinstance(t, ast.Compare):
            if len(t.ops) != 1:
                self.bad(t, "chained comparison")
            if isinstance(t.ops[0], (ast.Is, ast.IsNot)) and isinstance(t.comparators[0], ast.Constant) and t.comparators[0].value is None:
                k = self.key_of(t.left) if isinstance(t.left, (ast.Name, ast.Attribute)) else None
                if k is not None and k in self.none_keys:
                    is_none = True
                elif k is not None and k in env:
                    is_none = False
                else:
                    self.bad(t, "None test on something that is neither a parameter nor an integer local")
                truth = is_none == isinstance(t.ops[0], ast.Is)
                return (env, None) if truth else (None, env)
            op = t.ops[0]
            if isinstance(t.left, ast.Call) and ap(t.left.func) == "type" and len(t.left.args) == 1:
                return env, env             # `type(x) in (...)` / `type(x) is T`: unknown, both ways
            if isinstance(op, (ast.In, ast.NotIn)) and self.ref_of(t.comparators[0]) == ("data",) and \
                    isinstance(t.left, ast.Constant) and t.left.value in (0, b"\x00") and not isinstance(t.left.value, bool):
                # `0 in <input>`: on the "not in" side every byte of the input is known to be non-zero
                has, hasnt = env, {**env, "#nz": (1, 1)}
                return (has, hasnt) if isinstance(op, ast.In) else (hasnt, has)
            if isinstance(op, (ast.Is, ast.IsNot)):
                op = ast.Eq() if isinstance(op, ast.Is) else ast.NotEq()
            return self._cmp(t, t.left, op, t.comparators[0], env)
        if isinstance(t, ast.Constant):
            return (env, None) if t.value else (None, env)
        if isinstance(t, ast.Call) and ap(t.func) == "isinstance" and len(t.args) == 2:
            return env, env                 # what kind of buffer was passed is unknown: both ways
        if isinstance(t, (ast.Name, ast.Attribute)) and self.key_of(t) in self.none_keys:
            return None, env                # a parameter that is None at its default is falsy
        key = self._key(t)
        itv = self.ev(t, env)
        tr = itv
        if itv == (0, 0):
            tr = None
        elif itv[0] == 0:
            tr = _mk(1, itv[1])
        elif itv[1] == 0:
            tr = _mk(itv[0], -1)
        fa = _meet(itv, (0, 0))
        if key is None or key not in env:
            return (env if tr is not None else None), (env if fa is not None else None)
        return self._with(env, key, tr), self._with(env, key, fa)

    def _cmp(self, node, left, op, right, env):
        a, b = self.ev(left, env), self.ev(right, env)
        mirror = {ast.Lt: ast.Gt, ast.Gt: ast.Lt, ast.LtE: ast.GtE, ast.GtE: ast.LtE, ast.Eq: ast.Eq, ast.NotEq: ast.NotEq}
        if type(op) not in mirror:
            self.bad(node, "comparison operator")
        if isinstance(left, ast.BinOp) and isinstance(left.op, (ast.Add, ast.Sub)) and self._key(left.left) in env:
            # x + e <op> y  ==>  x <op> y - e   (x a refinable length / counter, e any interval)
            e_ = self.ev(left.right, env)
            if isinstance(left.op, ast.Sub):
                e_ = _neg(e_)
            a, b = self.ev(left.left, env), _sub(b, e_)
            left = left.left
        lk, rk = self._key(left), self._key(right)
        if lk is None or lk not in env:
            if rk is not None and rk in env:
                lk, a, b, op = rk, b, a, mirror[type(op)]()
            else:
                lk = None

        def sides(x, y, o):
            """x o y: refined x when true / when false."""
            if isinstance(o, ast.Eq):
                tr = _meet(x, y)
                fa = x
                if y[0] == y[1]:
                    if x == y:
                        fa = None
                    elif x[0] == y[0]:
                        fa = _mk(x[0] + 1, x[1])
                    elif x[1] == y[0]:
                        fa = _mk(x[0], x[1] - 1)
                return tr, fa
            if isinstance(o, ast.NotEq):
                tr, fa = sides(x, y, ast.Eq())
                return fa, tr
            if isinstance(o, ast.Lt):
                return _meet(x, (-INF, y[1] - 1)), _meet(x, (y[0], INF))
            if isinstance(o, ast.LtE):
                return _meet(x, (-INF, y[1])), _meet(x, (y[0] + 1, INF))
            if isinstance(o, ast.Gt):
                return _meet(x, (y[0] + 1, INF)), _meet(x, (-INF, y[1]))
            return _meet(x, (y[0], INF)), _meet(x, (-INF, y[1] - 1))       # GtE
        tr, fa = sides(a, b, op)
        if lk is None:
            return (env if tr is not None else None), (env if fa is not None else None)
        return self._with(env, lk, tr), self._with(env, lk, fa)

    # ---- emissions
    def _const_bytes(self, e, env):
        """bytes value of a literal or of a module/class-level constant (ConstEval); None otherwise."""
        if isinstance(e, ast.Constant):
            return bytes(e.value) if isinstance(e.value, (bytes, bytearray)) else None
        if isinstance(e, (ast.Name, ast.Attribute)):
            k = self.key_of(e)
            if (k is not None and k in env) or self.ref_of(e) is not None or \
                    (isinstance(e, ast.Name) and self._is_local(e.id)):
                return None
            base = self.ref_of(e.value) if isinstance(e, ast.Attribute) else None
            if base is not None and base[0] == "obj":
                cv = self.repo.class_attr(base[2], e.attr)
                v = ConstEval(self.repo, base[2].module).ev(cv) if cv is not None else None
            else:
                v = self.cev().ev(e)
            if isinstance(v, (bytes, bytearray)):
                return bytes(v)
            # bytes((0x00, N)) / bytes([..]) of integer constants
            if type(v).__name__ == "CallVal" and v.func in ("bytes", "bytearray") and len(v.args) == 1 and not v.kwargs \
                    and isinstance(v.args[0], int) and not isinstance(v.args[0], bool) and 0 <= v.args[0] <= 1 << 16:
                return bytes(v.args[0])          # bytes(255): that many zero bytes
            if type(v).__name__ == "CallVal" and v.func in ("bytes", "bytearray") and len(v.args) == 1 and not v.kwargs \
                    and isinstance(v.args[0], (tuple, list)) and all(isinstance(x, int) and not isinstance(x, bool)
                                                                      and 0 <= x <= 255 for x in v.args[0]):
                return bytes(v.args[0])
        return None

    def _static_table(self, e):
        """Module/class-level constant sequence of bytes rows (literal, or built by a comprehension over range()),
        evaluated from its defining expression; None if e is not such a table."""
        if not isinstance(e, (ast.Name, ast.Attribute)) or self.ref_of(e) is not None or \
                (isinstance(e, ast.Name) and self._is_local(e.id)):
            return None
        node = None
        if isinstance(e, ast.Name):
            node = self.repo.module_assign(self.cur.module, e.id)
        elif isinstance(e.value, ast.Name):
            owner = self.repo.resolve_class(e.value.id, self.cur.module)
            node = self.repo.class_attr(owner, e.attr) if owner is not None else None
        if node is None:
            return None
        try:
            v = self._static_eval(node, {})
        except AnalysisError:
            return None
        if isinstance(v, (tuple, list)) and v and all(isinstance(r, (bytes, bytearray)) for r in v):
            return [bytes(r) for r in v]
        return None

    def _static_eval(self, n, env, depth=0):
        """Evaluate a constant-building expression (ints, bytes, + - * //, max/min/len, range, tuple/list of a
        single-loop comprehension over range) - never runs repository code."""
        if depth > 20:
            raise AnalysisError("static table too deep")
        ev = lambda x: self._static_eval(x, env, depth + 1)      # noqa: E731
        if isinstance(n, ast.Constant) and isinstance(n.value, (int, bytes)) and not isinstance(n.value, bool):
            return n.value
        if isinstance(n, ast.Name):
            if n.id in env:
                return env[n.id]
            v = self.cev().ev(n)
            if isinstance(v, (int, bytes)) and not isinstance(v, bool):
                return v
        if isinstance(n, (ast.Tuple, ast.List)):
            return [ev(x) for x in n.elts]
        if isinstance(n, ast.BinOp) and isinstance(n.op, (ast.Add, ast.Sub, ast.Mult, ast.FloorDiv)):
            a, b = ev(n.left), ev(n.right)
            if isinstance(n.op, ast.Mult) and (isinstance(a, int) and isinstance(b, int) or isinstance(a, bytes) != isinstance(b, bytes)):
                k = b if isinstance(a, bytes) else a
                if isinstance(k, int) and abs(k) > 1 << 16:
                    raise AnalysisError("static table too large")
                return a * b
            if isinstance(a, int) and isinstance(b, int):
                return a + b if isinstance(n.op, ast.Add) else a - b if isinstance(n.op, ast.Sub) else a // b if b else 0
            if isinstance(a, bytes) and isinstance(b, bytes) and isinstance(n.op, ast.Add):
                return a + b
        if isinstance(n, ast.Call) and not n.keywords:
            fn = ap(n.func)
            if fn in ("max", "min") and n.args:
                vals = [ev(a) for a in n.args]
                if all(isinstance(v, int) for v in vals):
                    return max(vals) if fn == "max" else min(vals)
            if fn == "len" and len(n.args) == 1:
                return len(ev(n.args[0]))
            if fn in ("tuple", "list") and len(n.args) == 1:
                return list(ev(n.args[0]))
            if fn == "bytes" and len(n.args) == 1:
                v = ev(n.args[0])
                if isinstance(v, int) and 0 <= v <= 1 << 16:
                    return bytes(v)
                if isinstance(v, list) and all(isinstance(x, int) and 0 <= x <= 255 for x in v):
                    return bytes(v)
            if fn == "range" and 1 <= len(n.args) <= 3:
                args = [ev(a) for a in n.args]
                if all(isinstance(a, int) for a in args) and len(range(*args)) <= 1 << 12:
                    return list(range(*args))
        if isinstance(n, (ast.GeneratorExp, ast.ListComp)) and len(n.generators) == 1 and not n.generators[0].ifs \
                and isinstance(n.generators[0].target, ast.Name):
            seq = ev(n.generators[0].iter)
            if isinstance(seq, list):
                return [self._static_eval(n.elt, {**env, n.generators[0].target.id: x}, depth + 1) for x in seq]
        raise AnalysisError(f"not a static constant: {norm(n)}")

    def _items(self, node, e, env):
        """Byte items of an `extend` argument: list of ('b', itv, symbol) / ('rep', [items], count-itv)."""
        cb = self._const_bytes(e, env)
        if cb is not None:
            return [("b", (v, v), None) for v in cb]
        r = self.ref_of(e)
        if r is not None and r[0] == "run":
            return [("rep", [("b", env[f"#run:{r[1]}"], "#input")], (1, INF))]
        if isinstance(e, ast.Subscript) and isinstance(e.slice, ast.Slice) and e.slice.lower is None and e.slice.step is None \
                and e.slice.upper is not None:
            cb0 = self._const_bytes(e.value, env)
            if cb0 is not None and len(set(cb0)) <= 1:
                n = self.ev(e.slice.upper, env)
                lo, hi = max(0, min(len(cb0), n[0])), max(0, min(len(cb0), n[1]))
                v0 = cb0[0] if cb0 else 0
                return [("rep", [("b", (v0, v0), None)], (lo, hi))]
        if isinstance(e, ast.Subscript) and not isinstance(e.slice, ast.Slice):
            table = self._static_table(e.value)
            if table is not None:
                idx = self.ev(e.slice, env)
                lo, hi = max(idx[0], -INF), idx[1]
                if lo < 0 or hi >= len(table):
                    missing = f"{int(max(lo, len(table)))}..{int(hi)}" if hi >= len(table) and hi != INF else "some values"
                    self._viol(self.site_viol, node, f"table `{norm(e.value)}` has {len(table)} rows but is indexed with values in "
                                                     f"[{lo}, {hi}]: no row for {missing} (the lookup raises on that input byte)")
                    lo, hi = max(lo, 0), min(hi, len(table) - 1)
                rows = table[int(lo):int(hi) + 1]
                vals = {b for row in rows for b in row}
                if len(vals) > 1:
                    self.bad(node, "table rows with mixed byte values")
                v = next(iter(vals)) if vals else 0
                return [("rep", [("b", (v, v), None)], (min(map(len, rows)), max(map(len, rows))))]
        if isinstance(e, (ast.Tuple, ast.List)):
            return [("b", self.ev(x, env), self.sym_of(x)) for x in e.elts]
        if isinstance(e, ast.Call) and ap(e.func) in ("bytes", "bytearray") and len(e.args) == 1 and not e.keywords:
            if isinstance(e.args[0], (ast.Tuple, ast.List, ast.Constant)) and not (
                    isinstance(e.args[0], ast.Constant) and isinstance(e.args[0].value, int)):
                return self._items(node, e.args[0], env)
            n = self.ev(e.args[0], env)        # bytes(n): n zero bytes
            return [("rep", [("b", (0, 0), None)], n)]
        if isinstance(e, ast.BinOp) and isinstance(e.op, ast.Mult):
            for seq, cnt in ((e.left, e.right), (e.right, e.left)):
                if isinstance(seq, (ast.Tuple, ast.List)) or self._const_bytes(seq, env) is not None:
                    return [("rep", self._items(node, seq, env), self.ev(cnt, env))]
        self.bad(node, "buffer growth argument")

    def _sync(self, env):
        """#d = #g - counter: when #d is exact, a refined counter interval refines #g too."""
        if self.ghost and self.counter in env and env["#d"][0] == env["#d"][1] and abs(env["#d"][0]) != INF:
            g = _meet(env["#g"], _add(env[self.counter], env["#d"]))
            if g is not None and g != env["#g"]:
                env = dict(env)
                env["#g"] = g
        return env

    def _step(self, node, phase, env, itv, sym):
        """Typestate transition for one emitted byte; returns the new (phase, env)."""
        if not self.typestate:
            return phase, env
        self.emitted_symbols.add(sym)
        env = self._sync(env)
        if phase == "idle":
            if itv == (0, 0):
                return "need", env
            if itv[0] <= 0 <= itv[1]:
                self._viol(self.site_viol, node, "emits a byte that may or may not be 0x00: a zero can go out without a run count")
                return "idle", env
            if self.ghost:
                if sym not in self.loopvars:
                    self._viol(self.site_ghost, node, "a non-zero output byte that is not the input byte itself")
                elif env.get("#g") != (0, 0):
                    self._viol(self.site_ghost, node, "literal byte written while zeros are still pending (run not flushed first)")
            return "idle", env
        # phase need: this byte is the run count of the preceding 0x00
        self.need_symbols.add(sym)
        if itv[0] <= 0 <= itv[1]:
            self._viol(self.site_viol, node, f"run count in {itv} may be 0: `00 00` is the wrap-around form / a zero without a count")
        if itv[1] > 255 or itv[0] < 0:
            self._viol(self.site_viol, node, f"run count in {itv} can leave 1..255")
        if self.ghost:
            env = dict(env)
            if sym == self.counter:
                if env.get("#d") != (0, 0):
                    self._viol(self.site_ghost, node, f"run count differs from the zeros consumed since the last flush by {env.get('#d')}")
                env["#g"] = (0, 0)
                env["#d"] = _neg(env[self.counter]) if self.counter in env else (-INF, INF)
            elif sym in self.loopvars:
                self._viol(self.site_ghost, node, "the input byte is written where a run count is due (run not flushed first)")
                env["#g"] = (0, 0)
            elif itv[0] == itv[1]:
                # a constant count accounts for that many zeros
                env["#g"] = _sub(env["#g"], itv)
                env["#d"] = _sub(env["#d"], itv)
            else:
                self.ghost_undecided = True     # count byte is some other variable: cannot relate it to the input
                env["#g"] = (0, 0)
        return "idle", env

    def _run_items(self, node, items, phase, env):
        """-> list of (phase, env, count-itv) outcomes."""
        outs = [(phase, env, (0, 0))]
        for it in items:
            nxt = []
            for ph, en, cnt in outs:
                if it[0] == "b":
                    ph2, en2 = self._step(node, ph, en, it[1], it[2])
                    nxt.append((ph2, en2, _add(cnt, (1, 1))))
                else:
                    _, sub, n = it
                    n = (max(n[0], 0), max(n[1], 0))
                    k = len(self._flat(sub))
                    if n[1] == 0 or k == 0:
                        nxt.append((ph, en, cnt))
                        continue
                    once = self._run_items(node, sub, ph, en)
                    for ph1, en1, _c in once:
                        twice = self._run_items(node, sub, ph1, en1)
                        if any(p2 != ph1 for p2, _e, _c2 in twice):
                            self.bad(node, "repeated byte sequence that does not return to its starting output state")
                    grow = _mul((k, k), n)
                    if n[0] <= 0:
                        nxt.append((ph, en, _add(cnt, grow)))
                    for ph1, en1, _c in once:
                        nxt.append((ph1, en1, _add(cnt, grow)))
            outs = nxt
        return outs

    def _flat(self, items):
        out = []
        for it in items:
            out.extend([it] if it[0] == "b" else self._flat(it[1]))
        return out

    def emit(self, node, buf, items, state):
        self.sites[id(node)] = node
        out = {}
        for ph, env in state.items():
            base, _sep, suf = ph.partition("|")
            for ph2, en2, cnt in self._run_items(node, items, base, env):
                en2 = dict(en2)
                en2[f"#len:{buf}"] = _add(en2[f"#len:{buf}"], cnt)
                ph2 = ph2 + _sep + suf
                out[ph2] = _env_join(out.get(ph2), en2)
        return out

    # ---- statements
    def assign(self, name, itv, env, delta=None, value_itv=None):
        """Store to the integer variable with storage key `name`."""
        env = dict(env)
        env[name] = itv
        if self.ghost and self.counter is not None and name == self.counter:
            if delta is not None:
                env["#d"] = _sub(env["#d"], delta)
            else:
                env["#d"] = _sub(env["#g"], value_itv)
        return env

    def map_envs(self, state, f):
        out = {}
        for ph, env in state.items():
            r = f(env)
            if r is not None:
                out[ph] = _env_join(out.get(ph), r)
        return out

    def block(self, stmts, state) -> Flow:
        fl = Flow()
        cur = state
        for st in stmts:
            if not cur:
                break
            cur = self.stmt(st, cur, fl)
        fl.next = cur or {}
        return fl

    # ---- calls that are inlined
    def _callee(self, call):
        """('closure', node) / ('func', FuncInfo, self-ref|None) / ('ctor', ClassInfo) / None."""
        fn = call.func
        if isinstance(fn, ast.Name):
            if fn.id in self.cur.closures:
                return ("closure", self.cur.closures[fn.id])
            for g in self.repo.funcs.get(fn.id, []):
                if g.module is self.cur.module and g.cls is None and g.parent_fn is None:
                    return ("func", g, None)
            ci = self.repo.resolve_class(fn.id, self.cur.module)
            if ci is not None and ci.module is self.cur.module:
                return ("ctor", ci)
            return None
        if isinstance(fn, ast.Attribute):
            base = self.ref_of(fn.value)
            if base is not None and base[0] == "obj":
                m = self.repo.lookup_method(base[2], fn.attr)
                if m is not None:
                    return ("func", m, base)
            elif base is None and ap(fn.value) in ("self", "cls") and self.fi.cls is not None and len(self.frames) == 1:
                m = self.repo.lookup_method(self.fi.cls, fn.attr)
                if m is not None:
                    return ("func", m, ("none",))
            elif base is None and isinstance(fn.value, ast.Name):
                ci = self.repo.resolve_class(fn.value.id, self.cur.module)      # Class.static_helper(...)
                if ci is not None and ci.module is self.cur.module:
                    m = self.repo.lookup_method(ci, fn.attr)
                    if m is not None:
                        return ("func", m, ("none",))
        return None

    def inline(self, call, state):
        """Execute the callee over `state`; -> (state after the call, value descriptor).
        Descriptor: a reference, ('int', key) with the value stored under key in every env, or ('none',)."""
        kind = self._callee(call)
        if kind is None:
            self.bad(call, "call")
        if len(self.frames) > 8:
            self.bad(call, "call nesting too deep / recursive")
        if kind[0] == "closure":
            node = kind[1]
            if call.args or call.keywords:
                self.bad(call, "closure call with arguments")
            res = self.block(node.body, state)
            frame = self.cur
        else:
            if kind[0] == "ctor":
                self.bad(call, "constructor call outside an assignment")
            g, self_ref = kind[1], kind[2]
            if any(fr.fn is g.node for fr in self.frames):
                self.bad(call, "recursive call")
            frame = Frame(g.node, g.module, f"{g.qual}$", g.qual)
            a = g.node.args
            if a.vararg or a.kwarg or a.kwonlyargs or a.posonlyargs:
                self.bad(call, "callee with */** / keyword-only parameters")
            params = [x.arg for x in a.args]
            decos = {(ap(d) or "").split(".")[-1] for d in g.node.decorator_list}
            if g.cls is not None and "staticmethod" not in decos:
                if not params:
                    self.bad(call, "method without self")
                frame.refs[params[0]] = self_ref if self_ref is not None else ("none",)
                params = params[1:]
            bound = {}
            if len(call.args) > len(params):
                self.bad(call, "too many arguments")
            for pname, arg in zip(params, call.args):
                bound[pname] = arg
            for k in call.keywords:
                if k.arg is None or k.arg not in params or k.arg in bound:
                    self.bad(call, "keyword argument")
                bound[k.arg] = k.value
            defaults = dict(zip(params[len(params) - len(a.defaults):], a.defaults))
            stored = {n.id for n in ast.walk(g.node) if isinstance(n, ast.Name) and isinstance(n.ctx, ast.Store)}
            ints = []
            for pname in params:
                arg = bound.get(pname, defaults.get(pname))
                if arg is None:
                    self.bad(call, f"missing argument {pname}")
                r = self.ref_of(arg) if pname in bound else None
                if r is not None:
                    frame.refs[pname] = r
                else:
                    ints.append((pname, arg, pname in bound))
            # integer arguments are evaluated in the caller's frame, per abstract state
            def bind(env):
                env = dict(env)
                for pname, arg, from_caller in ints:
                    env[frame.key(pname)] = self.ev(arg, env)
                return env
            for pname, arg, from_caller in ints:
                k = self.key_of(arg) if from_caller and isinstance(arg, (ast.Name, ast.Attribute)) else None
                if k is not None and pname not in stored:
                    self.sym_alias[frame.key(pname)] = k
            state = self.map_envs(state, bind)
            self.frames.append(frame)
            try:
                res = self.block(g.node.body, state)
            finally:
                self.frames.pop()
        if res.brk or res.cont:
            self.bad(call, "break/continue escaping a callee")
        out = res.next
        descs = set()
        for rs, rn, d in res.ret:
            out = _state_join(out, rs)
            descs.add(d)
        if res.next and descs - {("none",)}:
            descs.add(("none",))
        if len(descs) > 1:
            self.bad(call, "callee returning different kinds of values")
        return out, (next(iter(descs)) if descs else ("none",))

    def construct(self, target_key, ci, call, state):
        ref = ("obj", target_key, ci)
        init = self.repo.lookup_method(ci, "__init__")
        if init is None:
            if call.args or call.keywords:
                self.bad(call, "constructor arguments without __init__")
            return state, ref
        fake = ast.Call(func=ast.Attribute(value=ast.Name(id="$new", ctx=ast.Load()), attr="__init__", ctx=ast.Load()),
                        args=call.args, keywords=call.keywords)
        ast.copy_location(fake, call)
        self.cur.refs["$new"] = ref
        try:
            out, _d = self.inline(fake, state)
        finally:
            self.cur.refs.pop("$new", None)
        return out, ref

    def _bind_ref(self, tg, ref):
        if ref == ("data",) and isinstance(tg, ast.Name) and self.cur.refs.get(tg.id) == ("data",):
            self.find_info.clear()            # the input name now denotes other bytes: positions found before are stale
            self.rebound_data = True
        if isinstance(tg, ast.Name):
            old = self.cur.refs.get(tg.id)
            if old is not None and old != ref:
                self.bad(tg, "re-binding of a buffer / object / input name")
            self.cur.refs[tg.id] = ref
        else:
            k = self.key_of(tg)
            if k is None:
                self.bad(tg, "assignment target")
            if self.obj_refs.get(k, ref) != ref:
                self.bad(tg, "re-binding of an object attribute that holds a buffer / object")
            self.obj_refs[k] = ref

    def _value_desc(self, e, state):
        """(state, descriptor) of a returned / assigned non-call expression."""
        if e is None or (isinstance(e, ast.Constant) and e.value is None):
            return state, ("none",)
        r = self.ref_of(e)
        if r is not None:
            return state, r
        return state, None

    # ---- statements
    def stmt(self, st, state, fl: Flow):
        if isinstance(st, ast.FunctionDef):
            if st.args.args or st.args.kwonlyargs or st.args.vararg or st.args.kwarg:
                self.bad(st, "closure with parameters")
            self.cur.closures[st.name] = st
            return state
        if isinstance(st, (ast.Nonlocal, ast.Global, ast.Pass)):
            return state
        if isinstance(st, ast.Expr):
            v = st.value
            if isinstance(v, ast.Constant):
                return state
            if isinstance(v, ast.Call):
                fn = ap(v.func) or ""
                if fn.startswith(LOG_PREFIXES) or fn == "print":
                    return state
                if isinstance(v.func, ast.Attribute) and not v.keywords and len(v.args) == 1 and v.func.attr in ("append", "extend"):
                    r = self.ref_of(v.func.value)
                    if r is not None and r[0] == "buf":
                        out = {}
                        for ph, env in state.items():
                            a = v.args[0]
                            items = [("b", self.ev(a, env), self.sym_of(a))] if v.func.attr == "append" else self._items(st, a, env)
                            out = _state_join(out, self.emit(st, r[1], items, {ph: env}))
                        return out
                if isinstance(v.func, ast.Attribute) and v.func.attr == "clear" and not v.args and not v.keywords:
                    r = self.ref_of(v.func.value)
                    if r is not None and r[0] == "buf":
                        out = {}
                        for ph, env in state.items():
                            _b, sep, suf = ph.partition("|")
                            k = ("idle" if self.typestate else "-") + sep + suf
                            out[k] = _env_join(out.get(k), {**env, f"#len:{r[1]}": (0, 0)})
                        return out
                if self._callee(v) is not None and self._callee(v)[0] != "ctor":
                    out, _d = self.inline(v, state)
                    return out
            self.bad(st, "expression statement")
        if isinstance(st, (ast.Assign, ast.AnnAssign)):
            tg = st.targets[0] if isinstance(st, ast.Assign) and len(st.targets) == 1 else getattr(st, "target", None)
            val = st.value
            if tg is None or val is None:
                self.bad(st, "assignment")
            if isinstance(tg, ast.Tuple) and len(tg.elts) == 2 and all(isinstance(x, ast.Name) for x in tg.elts) and \
                    isinstance(val, ast.Call) and ap(val.func) == "divmod" and len(val.args) == 2:
                k0, k1 = self.key_of(tg.elts[0]), self.key_of(tg.elts[1])

                def f(env):
                    q, r = self._divmod(val, self.ev(val.args[0], env), self.ev(val.args[1], env))
                    env = self.assign(k0, q, env, value_itv=q)
                    return self.assign(k1, r, env, value_itv=r)
                return self.map_envs(state, f)
            key = self.key_of(tg) if isinstance(tg, (ast.Name, ast.Attribute)) else None
            if key is None:
                self.bad(st, "assignment target")
            # position of the first zero byte of the input
            if isinstance(val, ast.Call) and isinstance(val.func, ast.Attribute) and val.func.attr in ("find", "index") \
                    and self.ref_of(val.func.value) == ("data",) and 1 <= len(val.args) <= 2 and not val.keywords \
                    and isinstance(val.args[0], ast.Constant) and val.args[0].value in (0, b"\x00") \
                    and not isinstance(val.args[0].value, bool):
                start = self.ev(val.args[1], {}) if len(val.args) == 2 else (0, 0)
                if start[0] != start[1] or start[0] < 0:
                    self.bad(st, "search start that is not a non-negative constant")
                self.find_info[key] = start[0]
                lo = -1 if val.func.attr == "find" else 0
                return self.map_envs(state, lambda env: self.assign(key, (lo, INF), env, value_itv=(lo, INF)))
            # an output buffer that starts as a copy of (part of) the input
            if self._input_copy(val, {}) is not None:
                self._bind_ref(tg, ("buf", key))
                self.buffers.add(key)
                out = {}
                for ph, env in state.items():
                    env = {**env, f"#len:{key}": (0, 0)}
                    out = _state_join(out, self.emit(st, key, self._input_copy(val, env), {ph: env}))
                return out
            # a fresh output buffer
            if isinstance(val, ast.Call) and ap(val.func) == "bytearray" and \
                    (not val.args or (len(val.args) == 1 and isinstance(val.args[0], ast.Constant) and val.args[0].value in (b"", 0))):
                self._bind_ref(tg, ("buf", key))
                self.buffers.add(key)
                return self.map_envs(state, lambda env: {**env, f"#len:{key}": (0, 0)})
            # a module / class level bytearray used as output space: a buffer whose previous content is unknown
            # (whether sharing it is safe is the purity lint's business, C03.P1)
            if isinstance(val, (ast.Name, ast.Attribute)) and self.ref_of(val) is None and \
                    not (isinstance(val, ast.Name) and self._is_local(val.id)):
                node = None
                if isinstance(val, ast.Name):
                    node = self.repo.module_assign(self.cur.module, val.id)
                elif isinstance(val.value, ast.Name):
                    owner = self.repo.resolve_class(val.value.id, self.cur.module)
                    if val.value.id in ("cls", "self") and self.fi.cls is not None:
                        owner = self.fi.cls
                    node = self.repo.class_attr(owner, val.attr) if owner is not None else None
                if isinstance(node, ast.Call) and ap(node.func) == "bytearray" and not node.args and not node.keywords:
                    skey = f"shared:{ap(val)}"
                    self._bind_ref(tg, ("buf", skey))
                    self.buffers.add(skey)
                    return self.map_envs(state, lambda env: {**env, f"#len:{skey}": env.get(f"#len:{skey}", (0, INF))})
            # alias of a buffer / object / the input (or an iterator over it)
            r = self.ref_of(val)
            if r is not None:
                self._bind_ref(tg, r)
                return state
            if isinstance(val, ast.Call):
                kind = self._callee(val)
                if kind is not None and kind[0] == "ctor":
                    out, ref = self.construct(key, kind[1], val, state)
                    self._bind_ref(tg, ref)
                    return out
                if kind is not None:
                    out, d = self.inline(val, state)
                    if d[0] == "int":
                        return self.map_envs(out, lambda env: self.assign(key, env[d[1]], env, value_itv=env[d[1]]))
                    if d[0] == "none":
                        self.bad(st, "assignment from a call that returns nothing")
                    self._bind_ref(tg, d)
                    return out
            if self.cur.refs.get(getattr(tg, "id", None)) is not None or self.obj_refs.get(key) is not None:
                self.bad(st, "re-binding of a buffer / object / the input")

            def g(env):
                v = self.ev(val, env)
                return self.assign(key, v, env, value_itv=v)
            return self.map_envs(state, g)
        if isinstance(st, ast.AugAssign):
            tg = st.target
            r = self.ref_of(tg)
            if r is not None and r[0] == "buf" and isinstance(st.op, ast.Add):
                out = {}
                for ph, env in state.items():
                    out = _state_join(out, self.emit(st, r[1], self._items(st, st.value, env), {ph: env}))
                return out
            key = self.key_of(tg) if isinstance(tg, (ast.Name, ast.Attribute)) else None
            if key is not None and r is None and isinstance(st.op, (ast.Add, ast.Sub)):
                self.stepped.add(key)

                def h(env):
                    if key not in env:
                        self.bad(st, "augmented assignment to an unbound name")
                    k = self.ev(st.value, env)
                    if isinstance(st.op, ast.Sub):
                        k = _neg(k)
                    return self.assign(key, _add(env[key], k), env, delta=k)
                return self.map_envs(state, h)
            self.bad(st, "augmented assignment")
        if isinstance(st, ast.If):
            if any(isinstance(c, ast.Call) and (self._key(c) or "").startswith("#len:") for c in ast.walk(st.test)):
                self.len_guards[id(st)] = st
            tstate, fstate = {}, {}
            for ph, env in state.items():
                t, f = self.split(st.test, env)
                if t is not None:
                    tstate[ph] = _env_join(tstate.get(ph), t)
                if f is not None:
                    fstate[ph] = _env_join(fstate.get(ph), f)
            a = self.block(st.body, tstate) if tstate else Flow()
            b = self.block(st.orelse, fstate) if fstate else Flow()
            fl.absorb_abrupt(a)
            fl.absorb_abrupt(b)
            return _state_join(a.next, b.next)
        if isinstance(st, ast.For):
            return self.loop(st, state, fl)
        if isinstance(st, ast.Return):
            v = st.value
            if v is not None and self._input_copy(v, {}) is not None:
                key = f"#tmp:{getattr(st, 'lineno', 0)}"
                self.buffers.add(key)
                out = {}
                for ph, env in state.items():
                    env = {**env, f"#len:{key}": (0, 0)}
                    out = _state_join(out, self.emit(st, key, self._input_copy(v, env), {ph: env}))
                fl.ret.append((out, st, ("buf", key)))
                return {}
            if isinstance(v, ast.Call) and self._callee(v) is not None and self._callee(v)[0] != "ctor":
                out, d = self.inline(v, state)
                fl.ret.append((out, st, d))
                return {}
            while isinstance(v, ast.Call) and ap(v.func) in ("bytes", "bytearray", "memoryview") and len(v.args) == 1 \
                    and self.ref_of(v.args[0]) is not None and self.ref_of(v.args[0])[0] == "buf":
                v = v.args[0]
            _s, d = self._value_desc(v, state)
            if d is None:
                rk = f"#ret:{self.cur.prefix}"
                state = self.map_envs(state, lambda env: {**env, rk: self.ev(v, env)})
                d = ("int", rk)
            fl.ret.append((state, st, d))
            return {}
        if isinstance(st, ast.Raise):
            if self.record:
                self.raises.setdefault(id(st), (st, []))[1].extend(state.values())
            return {}
        if isinstance(st, ast.Break):
            fl.brk = _state_join(fl.brk, state)
            return {}
        if isinstance(st, ast.Continue):
            fl.cont = _state_join(fl.cont, state)
            return {}
        self.bad(st, f"statement {type(st).__name__}")

    def loop(self, st: ast.For, state, fl: Flow):
        # `for b in <input>` / `for b in <iterator over the input>`.  Loops over one shared iterator may nest:
        # whatever part of the input a loop sees is an arbitrary byte sequence, so every such loop is analysed as
        # "any number of arbitrary bytes" - a sound over-approximation of the shared-iterator semantics.
        src_ref = self.ref_of(st.iter)
        prologue, epilogue, genvar, group = [], [], None, None
        if src_ref is not None and src_ref[0] == "gen":
            # generator closure `for b in <input>: <checks>; yield b; <checks>`: every pull runs the statements before
            # the yield and hands b over; the statements after the yield run when the consumer asks for the NEXT byte
            # (also the final time, when the input is exhausted) - not when the consumer stops pulling (break / return)
            g = src_ref[1]
            inner = [x for x in g.body if not (isinstance(x, ast.Expr) and isinstance(x.value, ast.Constant))]
            ok = len(inner) == 1 and isinstance(inner[0], ast.For) and self.ref_of(inner[0].iter) == ("data",) \
                and isinstance(inner[0].target, ast.Name) and not inner[0].orelse and inner[0].body
            yi = -1
            if ok:
                ys = [i for i, x in enumerate(inner[0].body) if isinstance(x, ast.Expr) and isinstance(x.value, ast.Yield)]
                ok = len(ys) == 1 and sum(1 for x in ast.walk(g) if isinstance(x, (ast.Yield, ast.YieldFrom))) == 1
                if ok:
                    yi = ys[0]
                    y = inner[0].body[yi].value
                    ok = isinstance(y.value, ast.Name) and y.value.id == inner[0].target.id
            if not ok:
                self.bad(st, "generator that is not `for b in <input>: ...; yield b; ...`")
            prologue, epilogue = inner[0].body[:yi], inner[0].body[yi + 1:]
            genvar = self.cur.key(inner[0].target.id)
        elif isinstance(st.iter, ast.Call) and (ap(st.iter.func) or "").split(".")[-1] == "groupby" and st.iter.args \
                and self.ref_of(st.iter.args[0]) == ("data",):
            # itertools.groupby(<input>, pred): maximal runs of bytes on which pred is constant, each non-empty
            pred = st.iter.args[1] if len(st.iter.args) == 2 else next((k.value for k in st.iter.keywords if k.arg == "key"), None)
            tg = st.target
            if pred is None or not (isinstance(tg, ast.Tuple) and len(tg.elts) == 2 and all(isinstance(x, ast.Name) for x in tg.elts)):
                self.bad(st, "groupby without a key predicate / a (key, run) target")
            group = (pred, self.cur.key(tg.elts[0].id), tg.elts[1].id)
            self.ghost_undecided = True       # bytes are not consumed one by one: no per-byte accounting
        elif src_ref != ("data",):
            self.bad(st, "loop that is not `for <byte> in <input>`")
        if st.orelse or (group is None and not isinstance(st.target, ast.Name)):
            self.bad(st, "loop that is not `for <byte> in <input>`")
        if group is not None:
            return self._groupby_loop(st, state, fl, group)
        lv = self.cur.key(st.target.id)
        self.loopvars.add(lv)
        if genvar is not None:
            self.loopvars.add(genvar)

        def run_epilogue(s):
            """states in which a byte was handed out and the statements after the yield are still owed (`|p1`):
            run them (that is what the next pull does first); the others pass through.  All come back as `|p1`-free."""
            owed = {ph[:-3]: env for ph, env in s.items() if ph.endswith("|p1")}
            rest = {ph: env for ph, env in s.items() if not ph.endswith("|p1")}
            if owed and epilogue:
                r = self.block(epilogue, owed)
                if r.brk or r.cont or r.ret:
                    self.bad(st, "generator that leaves its loop after yielding")
                owed = r.next
            return _state_join(rest, owed)

        def iteration(head):
            if epilogue:
                head = run_epilogue(head)
            zero, nonzero = {}, {}
            for ph, env in head.items():
                if epilogue:
                    ph = ph + "|p1"           # a byte is being handed out: its epilogue is owed from here on
                z = dict(env)
                z[lv] = (0, 0)
                if self.ghost:
                    z["#g"] = _add(z["#g"], (1, 1))
                    z["#d"] = _add(z["#d"], (1, 1))
                zero[ph] = z
                nz = dict(env)
                nz[lv] = (1, 255)
                nonzero[ph] = nz
            if genvar is not None:
                for cls in (zero, nonzero):
                    for ph in cls:
                        cls[ph][genvar] = cls[ph][lv]
                pz, pn = self.block(prologue, zero), self.block(prologue, nonzero)
                if pz.brk or pz.cont or pn.brk or pn.cont or pz.ret or pn.ret:
                    self.bad(st, "generator that leaves its loop before yielding")
                zero, nonzero = pz.next, pn.next
            a, b = self.block(st.body, zero), self.block(st.body, nonzero)
            res = Flow()
            res.next = _state_join(_state_join(a.next, b.next), _state_join(a.cont, b.cont))
            res.brk = _state_join(a.brk, b.brk)
            res.ret = a.ret + b.ret
            return res

        drop = {lv, genvar}
        return self._fixpoint(st, state, fl, iteration, drop, on_exhaust=run_epilogue if epilogue else None)

    def _pred_truth(self, pred, itv):
        """Truth of the groupby key predicate on a byte interval: True / False / None (not constant on it)."""
        if isinstance(pred, ast.Lambda) and len(pred.args.args) == 1:
            fr = Frame(pred, self.cur.module, "<key>$", "<lambda>")
            param, body = pred.args.args[0].arg, pred.body
        else:
            kind = self._callee(ast.Call(func=pred, args=[], keywords=[])) if isinstance(pred, (ast.Name, ast.Attribute)) else None
            if kind is None or kind[0] != "func" or len(kind[1].node.args.args) != 1:
                return None
            g = kind[1]
            stmts = [x for x in g.node.body if not (isinstance(x, ast.Expr) and isinstance(x.value, ast.Constant))]
            if len(stmts) != 1 or not isinstance(stmts[0], ast.Return) or stmts[0].value is None:
                return None
            fr = Frame(g.node, g.module, f"{g.qual}$", g.qual)
            param, body = g.node.args.args[0].arg, stmts[0].value
        self.frames.append(fr)
        try:
            t, f = self.split(body, {fr.key(param): itv})
        finally:
            self.frames.pop()
        if t is not None and f is None:
            return True
        if f is not None and t is None:
            return False
        return None

    def _groupby_loop(self, st, state, fl, group):
        pred, keyk, runname = group
        classes = [((0, 0), self._pred_truth(pred, (0, 0))), ((1, 255), self._pred_truth(pred, (1, 255)))]
        if any(t is None for _i, t in classes) or classes[0][1] == classes[1][1]:
            self.bad(st, "groupby key that does not separate zero bytes from the others")
        self.cur.refs[runname] = ("run", self.cur.key(runname))
        runk = f"#run:{self.cur.key(runname)}"

        def iteration(head):
            res = Flow()
            for itv, truth in classes:
                sub = {ph: {**env, keyk: (int(truth), int(truth)), runk: itv} for ph, env in head.items()}
                a = self.block(st.body, sub)
                res.next = _state_join(res.next, _state_join(a.next, a.cont))
                res.brk = _state_join(res.brk, a.brk)
                res.ret += a.ret
            return res
        return self._fixpoint(st, state, fl, iteration, {keyk, runk})

    def _fixpoint(self, st, state, fl, iteration, drop, on_exhaust=None):
        def strip(s):
            return {ph: {k: v for k, v in env.items() if k not in drop} for ph, env in s.items()}
        saved_record = self.record
        self.record = False
        head = strip(state)
        stable = False
        for rnd in range(MAX_ROUNDS):
            new = _state_join(head, _state_join(strip(state), strip(iteration(head).next)))
            if rnd >= PLAIN_ROUNDS:
                new = _state_widen(head, new)
            if new == head:
                stable = True
                break
            head = new
        if not stable:
            raise AnalysisError(f"{self.fi.qual}: loop fixpoint did not stabilise")
        for _ in range(3):           # narrowing: descending iterations from a post-fixpoint stay sound
            head = _state_join(strip(state), strip(iteration(head).next))
        self.record = saved_record
        final = iteration(head)
        fl.ret.extend(final.ret)
        # leaving because the input is exhausted (what a generator still owes runs on that last pull) / by break
        done = on_exhaust(head) if on_exhaust is not None else head
        return _state_join(done, strip(final.brk))

    # ---- driver
    def run(self):
        init = {"idle" if self.typestate else "-": {**({"#g": (0, 0), "#d": (0, 0)} if self.ghost else {}), **self.init_env,
                                                    "#dlen": (0, INF), "#nz": (0, 0)}}
        fl = self.block(self.fn.body, init)
        if fl.next:
            self.bad(self.fn, "function can fall off its end without returning the buffer")
        if fl.brk or fl.cont:
            self.bad(self.fn, "break/continue outside a loop")
        for state, rn, d in fl.ret:
            if d[0] != "buf":
                self.bad(rn, "return value that is not the output buffer")
            self.returns.append((rn, d[1], state))
        if not self.returns:
            self.bad(self.fn, "no return of the output buffer")
        return self


# --------------------------------------------------------------------------- rules

def codec_fn(repo, cls_name, meth):
    """The zero-coding function anchored as <cls_name>.<meth>: the method itself (also inherited), or - when the class
    only keeps `meth = staticmethod(<module function>)` / `meth = <module function>` - that function, wherever it
    lives in the tree."""
    f = repo.fn_opt(f"{cls_name}.{meth}")
    if f is not None:
        return f
    cands = repo.classes.get(cls_name, [])
    if len(cands) != 1:
        raise AnalysisError(f"anchor class {cls_name} resolves to {len(cands)} classes")
    ci = cands[0]
    node = repo.class_attr(ci, meth)
    while isinstance(node, ast.Call) and ap(node.func) in ("staticmethod", "classmethod") and len(node.args) == 1:
        node = node.args[0]
    path = ap(node) if node is not None else None
    if path is None:
        raise AnalysisError(f"anchor function {cls_name}.{meth} vanished (no method, no alias of a function)")
    parts = path.split(".")
    mod = ci.module
    target_mod, fname = mod, parts[-1]
    if len(parts) == 1:
        tgt = mod.imports.get(parts[0])
        if tgt:
            target_mod = repo.by_modname.get(tgt.rpartition(".")[0])
            fname = tgt.rpartition(".")[2]
    else:
        tgt = mod.imports.get(parts[0])
        dotted = ".".join([tgt] + parts[1:-1]) if tgt else None
        target_mod = repo.by_modname.get(dotted) if dotted else None
    hits = [g for g in repo.funcs.get(fname, []) if g.cls is None and g.parent_fn is None
            and (target_mod is None or g.module is target_mod)]
    if len(hits) != 1:
        raise AnalysisError(f"anchor function {cls_name}.{meth} = {path}: resolves to {len(hits)} functions")
    return hits[0]


def r1(ctx):
    repo = ctx.repo
    ctx.rule("C03.R1", "bounded expansion: abstract interpretation (intervals, all inputs) proves a finite upper bound "
                       "on the length of the buffer zero_code_expand returns")
    f = codec_fn(repo, "UDPMessageDeserializer", "zero_code_expand")
    it = ByteLoopInterp(repo, f).run()
    ctx.floor("C03.R1", "buffer growth sites in zero_code_expand", len(it.sites), 2)
    worst = 0
    for rn, buf, state in it.returns:
        hi = max((env[f"#len:{buf}"][1] for env in state.values()), default=0)
        worst = max(worst, hi)
        ctx.ob("C03.R1", f"{f.qual}: `{norm(rn)}` length bounded for every input", hi != INF, ctx.w(f, rn),
               "the decoded buffer can grow without bound before anything refuses it: some growth is not covered by a "
               "`len(buffer) > cap -> raise` test evaluated since the previous growth" if hi == INF
               else f"len <= {int(hi)}")
    ctx.stats["C03.R1.bound"] = worst if worst != INF else "unbounded"
    # ... and the bound is the cap itself: what the function refuses is "more than K decoded bytes" (K + 1 is the least
    # length any raise is reached with), so no buffer longer than K may be returned.  A cap that is only looked at
    # before the *next* input byte lets the expansion of the last byte (up to +256) through.
    if it.raises and worst != INF:
        lows = [max([env[k][0] for k in env if k.startswith("#len:")] or [0]) for _n, envs in it.raises.values() for env in envs]
        cap = (min(lows) - 1) if lows else None
        if cap is not None and cap >= 0:
            for rn, buf, state in it.returns:
                hi = max((env[f"#len:{buf}"][1] for env in state.values()), default=0)
                ctx.ob("C03.R1", f"{f.qual}: `{norm(rn)}` never hands back more than the cap it enforces", hi <= cap, ctx.w(f, rn),
                       f"lengths above {int(cap)} are refused when more input follows, yet a buffer of up to {int(hi)} bytes can be "
                       f"returned: the size test does not cover what the last input byte expanded to (test after the growth, "
                       f"on every way out of the iteration)")
            ctx.stats["C03.R1.cap"] = int(cap)
    for nid, node in it.sites.items():
        v = it.site_viol.get(nid, [])
        if v:
            ctx.ob("C03.R1", f"{f.qual}: `{norm(node)}` is defined for every input byte", False, ctx.w(f, node), "; ".join(v))
    # the cap must refuse, not silently truncate
    for g in it.len_guards.values():
        refuses = any(isinstance(x, ast.Raise) for x in walk(g))
        ctx.ob("C03.R1", f"{f.qual}: size test `{norm(g.test)}` refuses by raising", refuses, ctx.w(f, g),
               "exceeding the cap must be an error (a truncated expansion would be parsed as a different message)")
    # every byte string has a zero-decoding, so the only legitimate refusal is the size cap - and that is a cap on
    # what has been *decoded*: a raise must only be reachable once the output buffer is known to be non-empty
    # (i.e. behind a test on its length), never on the strength of the input alone
    for rn, envs in it.raises.values():
        # (an input that is known to be zero-free decodes to itself: there its length IS the decoded size)
        lows = [max([env[k][0] for k in env if k.startswith("#len:")] + ([env["#dlen"][0]] if env.get("#nz") == (1, 1) else []) or [0])
                for env in envs]
        lo = min(lows) if lows else 0
        guard = next((a.test for a in ancestors(rn) if isinstance(a, ast.If)), rn)
        ctx.ob("C03.R1", f"{f.qual}: refusal `{norm(guard)}` depends on the decoded size", lo >= 1, ctx.w(f, rn),
               "this raise is reachable with nothing decoded yet: inputs whose expansion is within the cap are refused "
               "(zero-coded form can be longer than the data), so the decoder disagrees with the format")
    ctx.assume("zero_code_expand / zero_code_compress iterate a bytes-like argument (elements 0..255)")


def r2(ctx):
    repo = ctx.repo
    ctx.rule("C03.R2", "canonical emission: output typestate of zero_code_compress over all inputs - every 0x00 is "
                       "followed by a count in 1..255, never 0x00 0x00 (wrap form), no dangling 0x00 at the end; "
                       "count byte == zeros consumed since the last flush, literals only after a flush")
    f = codec_fn(repo, "UDPMessageSerializer", "zero_code_compress")
    it = ByteLoopInterp(repo, f, typestate=True).run()
    ctx.floor("C03.R2", "emission sites in zero_code_compress", len(it.sites), 2)
    for nid, node in it.sites.items():
        v = it.site_viol.get(nid, [])
        ctx.ob("C03.R2", f"{f.qual}: `{norm(node)}` keeps the output canonical", not v, ctx.w(f, node), "; ".join(v))
    for rn, buf, state in it.returns:
        ctx.ob("C03.R2", f"{f.qual}: `{norm(rn)}` never leaves a 0x00 without its count", {ph.partition("|")[0] for ph in state} <= {"idle"}, ctx.w(f, rn),
               "the function can return while a zero marker still waits for its run count (final flush missing)")
    # ghost accounting of consumed zeros, when the run counter can be identified: the one stepped local
    # (`x += 1`) that is written to the output
    counters = {x for x in it.emitted_symbols if x is not None and x in it.stepped and x not in it.loopvars}
    g = None
    if len(counters) == 1:
        g = ByteLoopInterp(repo, f, typestate=True, ghost=True, counter=next(iter(counters))).run()
        if g.ghost_undecided:
            g = None
    if g is not None:
        for nid, node in g.sites.items():
            v = g.site_ghost.get(nid, [])
            ctx.ob("C03.R2", f"{f.qual}: `{norm(node)}` accounts for the input exactly", not v, ctx.w(f, node), "; ".join(v))
        for rn, buf, state in g.returns:
            pend = [e.get("#g") for e in map(g._sync, state.values()) if e.get("#g") != (0, 0)]
            ctx.ob("C03.R2", f"{f.qual}: `{norm(rn)}` with every consumed zero written", not pend, ctx.w(f, rn),
                   f"zeros consumed but not yet counted in the output at return: {pend}")
    else:
        ctx.note(f"C03.R2: run-count bytes are not (only) a run counter / constants "
                 f"({sorted(map(str, it.need_symbols))}): count == zeros-consumed accounting not decided for this shape "
                 f"(canonical-form typestate still is)")


def r3(ctx):
    """The zero-coded header peek must expand all the bytes the header needs: same clause as C01.R6
    (window length >= 2*max message-number bytes + 2*extra length), re-run under a C03 rule id."""
    import struct
    from .common import as_pair, has_path_fact, linform, spec_symbol, struct_fmt_of_prim
    repo = ctx.repo
    ctx.rule("C03.R3", "zero-coded header peek window covers the worst case: length >= 2*(max msg-num bytes) "
                       "+ 2*extra-length (every header byte may double under zero-coding) - and is a bounded prefix")
    hf = repo.fn("UDPMessageDeserializer._parse_message_header")
    dmod = hf.module
    from .common import dealias_class_locals
    hf_node = dealias_class_locals(repo, hf)        # class constants read through a local alias of the class
    specs = repo.module_assign(dmod, "_MSG_NUM_SPECS")
    ctx.require(isinstance(specs, (ast.Tuple, ast.List)), "_MSG_NUM_SPECS is not a tuple/list literal")
    maxnum = 0
    for i, row in enumerate(specs.elts):
        pair = as_pair(repo, dmod, row)
        ctx.require(pair is not None, f"_MSG_NUM_SPECS row {i} is neither a pair nor a 2-field NamedTuple")
        fmt = struct_fmt_of_prim(repo, spec_symbol(pair[1]) or "")
        ctx.require(fmt is not None, f"_MSG_NUM_SPECS row {i}: unknown spec {norm(pair[1])}")
        maxnum = max(maxnum, i + struct.calcsize("<" + fmt))
    cs0 = [c for c in find_calls(hf_node, "zero_code_expand") if has_path_fact(c, "zerocoded", True, hf_node)]
    ctx.ob("C03.R3", "header expands a zero-coded prefix under msg.zerocoded", len(cs0) == 1, hf.where, f"found {len(cs0)}")
    for c in cs0:
        arg = c.args[0] if c.args else None
        if isinstance(arg, ast.Name):
            vals = [st.value for st in stores(hf_node, into_defs=False) if st.path == arg.id and st.value is not None]
            arg = vals[-1] if vals else arg
        if not (isinstance(arg, ast.Subscript) and isinstance(arg.slice, ast.Slice)) or arg.slice.upper is None:
            continue            # judged by the bounded-prefix obligation below
        hi = linform(repo, dmod, hf_node, arg.slice.upper)
        lo = linform(repo, dmod, hf_node, arg.slice.lower) if arg.slice.lower is not None else {1: 0}
        if hi is None or lo is None:
            raise AnalysisError(f"C03.R3: header window bounds not linear: {norm(arg)}")
        diff = dict(hi)
        for k, v in lo.items():
            diff[k] = diff.get(k, 0) - v
        offs = [k for k in diff if k != 1 and diff[k] != 0]
        b = sum(diff[k] for k in offs if str(k).endswith(".offset"))
        others = [k for k in offs if not str(k).endswith(".offset")]
        a = diff.get(1, 0)
        ctx.ob("C03.R3", "header window length >= 2*max_msg_num + 2*offset", not others and b >= 2 and a >= 2 * maxnum,
               ctx.w(hf, c), f"window length = {a} + {b}*offset{' + ' + str(others) if others else ''}; worst case needs "
                             f"{2 * maxnum} + 2*offset (msg num {maxnum} bytes and the extra field are zero-coded too)")
    # ... and *only* those: the header stage must expand a bounded prefix of the still-encoded datagram.  Expanding
    # the whole datagram first lets the size cap (a property of the body) reject a packet whose header is fine, so
    # it can no longer be named / kept as a raw body and forwarded.
    for c in find_calls(hf_node, "zero_code_expand"):
        arg = c.args[0] if c.args else None
        if isinstance(arg, ast.Name):
            vals = [st.value for st in stores(hf_node, into_defs=False) if st.path == arg.id and st.value is not None]
            arg = vals[-1] if len(vals) >= 1 else arg
        bounded = isinstance(arg, ast.Subscript) and isinstance(arg.slice, ast.Slice) and arg.slice.upper is not None
        ctx.ob("C03.R3", f"{hf.qual}: header peek expands a bounded prefix of the datagram", bounded, ctx.w(hf, c),
               f"expands {norm(arg) if arg is not None else '?'}: the whole body is zero-decoded in the header stage, so an "
               f"over-cap body makes the header parse fail")


def _gate_conditions(node, fn_node):
    """Conditions under which `node` takes effect: enclosing branches and earlier early returns (guards that
    only raise produce no output at all and do not count)."""
    raising = {id(n.test) for n in walk(fn_node) if isinstance(n, ast.If) and (
        (n.body and isinstance(n.body[-1], ast.Raise)) or (n.orelse and isinstance(n.orelse[-1], ast.Raise)))}
    out = []
    for c in conditions(node, fn_node):
        if c.kind == "assert" or (c.kind == "early-exit" and id(c.test) in raising):
            continue
        out.extend(atoms(c.test, c.polarity))
    return out


def _must_hold_at_sinks(fi, call, is_sink):
    """Forward must-analysis on the CFG of fi: which local names certainly hold the value of `call` (copies
    followed).  -> [(sink node, sink name, holds?)] for every sink reachable from the call's statement."""
    stmt = call
    for a in ancestors(call):
        if isinstance(a, ast.stmt):
            stmt = a
            break
    def selects(arg):
        """arg is the call itself, or a conditional expression one of whose arms is (which arm is taken is judged by
        the gate conditions of the call)"""
        if arg is call:
            return True
        return isinstance(arg, ast.IfExp) and (selects(arg.body) or selects(arg.orelse))
    direct = [c for c in calls(stmt) if any(selects(a) for a in c.args) and isinstance(c.func, ast.Attribute)
              and (c.func.attr == "write_bytes" or c.func.attr.endswith("BufferReader"))]
    if direct or (isinstance(stmt, ast.Return) and stmt.value is call):
        return [(stmt, None, True)]          # transformed value handed to the consumer directly
    if not (isinstance(stmt, ast.Assign) and stmt.value is call and len(stmt.targets) == 1 and isinstance(stmt.targets[0], ast.Name)):
        raise AnalysisError(f"{fi.qual}: result of `{norm(call)}` is not stored in a local or handed to its consumer directly")
    cfg = CFG(fi.node)
    starts = cfg.nodes_for(stmt)
    reach = cfg.reachable(starts, exc=False)
    TOP = None
    out = {n: TOP for n in reach}
    for s0 in starts:
        out[s0] = frozenset([stmt.targets[0].id])

    def transfer(n, inset):
        a = n.ast
        if n.kind == "stmt" and isinstance(a, ast.Assign) and len(a.targets) == 1 and isinstance(a.targets[0], ast.Name):
            t = a.targets[0].id
            if isinstance(a.value, ast.Name) and a.value.id in inset:
                return inset | {t}
            return inset - {t}
        if n.kind == "stmt" and isinstance(a, (ast.AugAssign, ast.AnnAssign)) and isinstance(a.target, ast.Name):
            return inset - {a.target.id}
        return inset
    changed = True
    while changed:
        changed = False
        for n in reach:
            if n in starts:
                continue
            ins = [out[p] for p in n.preds if (p in reach or p in starts) and n in p.succs and out.get(p) is not TOP]
            if not ins:
                continue
            inset = frozenset.intersection(*ins)
            new = transfer(n, inset)
            if out[n] is TOP or new != out[n]:
                out[n] = new
                changed = True
    res = []
    for n in reach:
        if n.kind == "stmt" and n.ast is not None and is_sink(n.ast):
            nm = is_sink(n.ast)
            ins = [out[p] for p in n.preds if (p in reach or p in starts) and n in p.succs and out.get(p) is not TOP]
            inset = frozenset.intersection(*ins) if ins else frozenset()
            res.append((n.ast, nm, nm in inset))
    return res


def r4(ctx):
    repo = ctx.repo
    ctx.rule("C03.R4", "the ZEROCODED flag and the coding of the body go together: serialize puts exactly "
                       "zero_code_compress(body) on the wire iff msg.zerocoded, the body parser reads exactly "
                       "zero_code_expand(body) iff msg.zerocoded (no further condition, no fallback to the plain body)")

    def sink_writer(st):
        """name written/returned as the body, or None"""
        if isinstance(st, ast.Return) and isinstance(st.value, ast.Name):
            return st.value.id
        for c in calls(st):
            if isinstance(c.func, ast.Attribute) and c.func.attr == "write_bytes" and len(c.args) == 1:
                return c.args[0].id if isinstance(c.args[0], ast.Name) else None
        return None

    def sink_reader(st):
        for c in calls(st):
            if (ap(c.func) or "").split(".")[-1] == "BufferReader" and len(c.args) >= 2:
                return c.args[1].id if isinstance(c.args[1], ast.Name) else None
        return None
    sides = (("writer", "UDPMessageSerializer.serialize", "zero_code_compress", sink_writer),
             ("reader", "UDPMessageDeserializer.parse_message_body", "zero_code_expand", sink_reader))
    for side, anchor, fname, sink in sides:
        fns = class_methods_reachable(repo, repo.fn(anchor), depth=3)
        sites = [(g, c) for g in fns for c in find_calls(g.node, fname, into_defs=False)]
        ctx.floor("C03.R4", f"{side} calls of {fname}", len(sites), 1)
        for g, c in sites:
            # the "no unparsed raw body" branch of serialize is not a condition on the coding
            raw_names = {ap(t) for n in walk(g.node) if isinstance(n, ast.Assign) and isinstance(n.value, ast.Attribute)
                         and n.value.attr == "raw_body" for t in n.targets}

            def raw_presence_test(e):
                nt = is_none_test(e)
                path = nt[0] if nt else ap(e)
                return path is not None and (path in raw_names or path.endswith(".raw_body"))
            conds = [(e, pol) for e, pol in _gate_conditions(c, g.node) if not raw_presence_test(e)]
            on_flag = len(conds) == 1 and conds[0][1] and (ap(conds[0][0]) or "").endswith(".zerocoded")
            ctx.ob("C03.R4", f"{g.qual}: `{norm(c)}` applied exactly when the message is flagged zero-coded", on_flag, ctx.w(g, c),
                   f"applied under {[norm(e) + ('' if p else ' (negated)') for e, p in conds]}: the peer decides from the "
                   f"ZEROCODED flag alone how to read the body")
            res = _must_hold_at_sinks(g, c, sink)
            ctx.ob("C03.R4", f"{g.qual}: result of `{norm(c)}` reaches its consumer", len(res) >= 1, ctx.w(g, c),
                   "the transformed body is never written / parsed")
            for st, nm, holds in res:
                ctx.ob("C03.R4", f"{g.qual}: `{norm(st)}` uses the {fname} result on every path through it", holds, ctx.w(g, st),
                       f"`{nm}` may still hold the untransformed body here although the flag says zero-coded: what goes on "
                       f"the wire / into the parser is not the zero-coding the flag announces")


def r5(ctx):
    """bytes.find()/rfind() report "not found" as -1 and a hit at the very start as 0: a zero-coding function that
    tests such a result with `> 0`, `<= 0` or plain truthiness treats a zero byte at offset 0 as absent (unless the
    search starts at a constant offset >= 1)."""
    repo = ctx.repo
    ctx.rule("C03.R5", "position searches in the zero-coding functions distinguish 'found at offset 0' from 'not found': "
                       "a find()/rfind() result is compared with -1 / >= 0 / < 0, never with `> 0`, `<= 0` or by truthiness")
    fns = []
    for cls_name, meth in (("UDPMessageSerializer", "zero_code_compress"), ("UDPMessageDeserializer", "zero_code_expand")):
        f = codec_fn(repo, cls_name, meth)
        fns.append(f)
        for c in calls(f.node, into_defs=True):           # same-module helpers the codec delegates to
            if isinstance(c.func, ast.Name):
                fns.extend(g for g in repo.funcs.get(c.func.id, []) if g.module is f.module and g.cls is None and g.parent_fn is None)
    n = 0
    for f in {g.full: g for g in fns}.values():
        finds = {}
        for node in walk(f.node, into_defs=True):
            tgt, val = None, None
            if isinstance(node, ast.NamedExpr) and isinstance(node.target, ast.Name):
                tgt, val = node.target.id, node.value
            elif isinstance(node, ast.Assign) and len(node.targets) == 1 and isinstance(node.targets[0], ast.Name):
                tgt, val = node.targets[0].id, node.value
            if tgt and isinstance(val, ast.Call) and isinstance(val.func, ast.Attribute) and val.func.attr in ("find", "rfind"):
                start = val.args[1] if len(val.args) > 1 else None
                safe = isinstance(start, ast.Constant) and isinstance(start.value, int) and start.value >= 1
                finds[tgt] = (val, safe)

        def is_find(e):
            if isinstance(e, ast.NamedExpr):
                e = e.target
            if isinstance(e, ast.Name) and e.id in finds:
                return finds[e.id]
            if isinstance(e, ast.Call) and isinstance(e.func, ast.Attribute) and e.func.attr in ("find", "rfind"):
                start = e.args[1] if len(e.args) > 1 else None
                return e, isinstance(start, ast.Constant) and isinstance(start.value, int) and start.value >= 1
            return None
        for node in walk(f.node, into_defs=True):
            tests = []
            if isinstance(node, (ast.If, ast.While, ast.IfExp)):
                tests.append(node.test)
            for t in tests:
                for e in ast.walk(t):
                    bad = None
                    if isinstance(e, ast.Compare) and len(e.ops) == 1:
                        l, r, op = e.left, e.comparators[0], e.ops[0]
                        fl_, fr_ = is_find(l), is_find(r)
                        zero = lambda x: isinstance(x, ast.Constant) and x.value == 0 and not isinstance(x.value, bool)   # noqa: E731
                        if fl_ and zero(r) and isinstance(op, (ast.Gt, ast.LtE)) and not fl_[1]:
                            bad = fl_[0]
                        if fr_ and zero(l) and isinstance(op, (ast.Lt, ast.GtE)) and not fr_[1]:
                            bad = fr_[0]
                        if fl_ or fr_:
                            n += 1
                            ctx.ob("C03.R5", f"{f.qual}: `{norm(e)}` tells a hit at offset 0 from 'not found'", bad is None, ctx.w(f, e),
                                   f"`{norm(bad) if bad is not None else ''}` is 0 for a zero byte at the very start of the buffer and -1 "
                                   f"when there is none: this test takes both for 'no (more) zeros', so a run at offset 0 is copied "
                                   f"through / never expanded")
                # plain truthiness of a find result
                t0 = t.operand if isinstance(t, ast.UnaryOp) and isinstance(t.op, ast.Not) else t
                ff = is_find(t0)
                if ff is not None and not ff[1]:
                    n += 1
                    ctx.ob("C03.R5", f"{f.qual}: `{norm(t)}` tells a hit at offset 0 from 'not found'", False, ctx.w(f, t),
                           "truthiness of a find() result: 0 (found at the start) is falsy, -1 (not found) is truthy")
    ctx.stats["C03.R5.find tests"] = n
    if n == 0:
        ctx.ob("C03.R5", "zero-coding functions: no position search whose result is tested", True, "", "nothing to check")


def run(ctx):
    r5(ctx)
    lint_failed = any(o.rule == "C03.R5" and not o.ok for o in ctx.obligations)
    try:
        _run_interpreted(ctx)
    except AnalysisError as e:
        # the byte-loop interpreter cannot read the function: fail closed - unless a cheaper clause above has already
        # decided (and failed) it, in which case that verdict stands and the unreadable rest is only noted
        if not lint_failed:
            raise
        ctx.note(f"C03.R1/R2 not evaluated: {e}")


def _run_interpreted(ctx):
    r1(ctx)
    r2(ctx)
    r3(ctx)
    r4(ctx)
    ctx.assume("losslessness and agreement with the reference decoder on all inputs are value-level and not decided "
               "statically (only the necessary typestate/accounting conditions above)")
