"""C03 - zero-coding: bounded expansion and canonical emission (DESIGN.md section 4, C03).

Both codec functions are small byte loops, so instead of matching their statement shapes the rules run a
tiny *abstract interpreter* over them (interval domain for integer locals and buffer lengths, loop
fixpoint with delayed widening + narrowing, the loop variable split into {0} / [1,255]):

  R1  zero_code_expand:   the length of the returned buffer has a finite upper bound for every input
  R2  zero_code_compress: output typestate  idle --00--> need-count --n in 1..255--> idle ; never `00 00`
                          (wrap form), never a count outside 1..255, never ends on a bare 00; plus, when
                          the count byte is the run counter itself, ghost accounting: count == zeros consumed
                          since the last flush, literals only after a flush
  R3  header peek window bounded (NOTE only)

Any statement/expression outside the supported subset is ANALYSIS-ERROR, never a guess.
"""
from __future__ import annotations

import ast

from ..consteval import ConstEval
from ..core import AnalysisError, ancestors, ap, norm, walk

SER = "hippolyzer/lib/base/message/udpserializer.py"
DES = "hippolyzer/lib/base/message/udpdeserializer.py"

INF = float("inf")
LOG_PREFIXES = ("LOG.", "logger.", "logging.", "log.")
PLAIN_ROUNDS = 600       # covers every threshold up to 2*255 without widening
MAX_ROUNDS = 700


# --------------------------------------------------------------------------- interval domain

def _mk(lo, hi):
    return None if lo > hi else (lo, hi)


def _join(a, b):
    if a is None:
        return b
    if b is None:
        return a
    return (min(a[0], b[0]), max(a[1], b[1]))


def _meet(a, b):
    if a is None or b is None:
        return None
    return _mk(max(a[0], b[0]), min(a[1], b[1]))


def _add(a, b):
    return (a[0] + b[0], a[1] + b[1])


def _neg(a):
    return (-a[1], -a[0])


def _sub(a, b):
    return _add(a, _neg(b))


def _m(x, y):
    if x == 0 or y == 0:
        return 0
    return x * y


def _mul(a, b):
    ps = [_m(a[0], b[0]), _m(a[0], b[1]), _m(a[1], b[0]), _m(a[1], b[1])]
    return (min(ps), max(ps))


def _env_join(a, b):
    if a is None:
        return b
    if b is None:
        return a
    return {k: _join(a[k], b[k]) for k in a.keys() & b.keys()}


def _state_join(a, b):
    out = dict(a)
    for ph, env in b.items():
        out[ph] = _env_join(out.get(ph), env)
    return out


def _state_widen(old, new):
    out = {}
    for ph, env in new.items():
        o = old.get(ph)
        if o is None:
            out[ph] = env
            continue
        w = {}
        for k, v in env.items():
            if k not in o:
                continue
            lo = v[0] if v[0] >= o[k][0] else -INF
            hi = v[1] if v[1] <= o[k][1] else INF
            w[k] = (lo, hi)
        out[ph] = w
    return out


class Flow:
    """Result of executing a block: abstract states per continuation kind (phase -> env)."""

    def __init__(self):
        self.next = {}
        self.brk = {}
        self.cont = {}
        self.ret = []        # list of (state, return-node)

    def absorb_abrupt(self, other: "Flow"):
        self.brk = _state_join(self.brk, other.brk)
        self.cont = _state_join(self.cont, other.cont)
        self.ret.extend(other.ret)


class ByteLoopInterp:
    """Abstract interpreter for a byte-loop codec function (see module docstring)."""

    def __init__(self, repo, fi, typestate=False, ghost=False, counter=None):
        self.repo, self.fi, self.fn = repo, fi, fi.node
        self.typestate = typestate
        self.ghost = ghost                # track #g = zeros consumed since the last run count was written
        self.counter = counter            # additionally track #d = #g - counter when the count byte is a counter
        self.cev = ConstEval(repo, fi.module)
        params = [a.arg for a in self.fn.args.args if a.arg not in ("self", "cls")]
        if len(params) != 1:
            raise AnalysisError(f"{fi.qual}: expected exactly one data parameter, found {params}")
        self.data = params[0]
        self.buffers = set()
        self.closures = {}
        self.loopvars = set()
        self.record = True
        self.site_viol = {}               # emission stmt node -> [messages]   (typestate)
        self.site_ghost = {}              # emission stmt node -> [messages]   (ghost accounting)
        self.sites = {}                   # id(node) -> node (every emission site seen)
        self.need_symbols = set()
        self.emitted_symbols = set()
        self.ghost_undecided = False
        self.returns = []                 # (return node, buffer name, state)
        self.raises = {}                  # id(raise node) -> (node, [env, ...]) states in which it is reached
        self.depth = 0

    # ---- diagnostics
    def bad(self, node, what):
        raise AnalysisError(f"{self.fi.qual}: unsupported construct for the byte-loop interpreter: {what} "
                            f"`{norm(node)}` (line {getattr(node, 'lineno', '?')})")

    def _viol(self, table, node, msg):
        if self.record:
            lst = table.setdefault(id(node), [])
            if msg not in lst:
                lst.append(msg)

    # ---- expressions
    def ev(self, e, env):
        if isinstance(e, ast.Constant):
            if isinstance(e.value, bool):
                return (int(e.value), int(e.value))
            if isinstance(e.value, int):
                return (e.value, e.value)
            self.bad(e, "non-integer constant")
        if isinstance(e, ast.Name):
            if e.id in env:
                return env[e.id]
            v = self.cev.ev(e)
            if isinstance(v, int) and not isinstance(v, bool):
                return (v, v)
            self.bad(e, "name without a known integer value")
        if isinstance(e, ast.Attribute):
            v = self.cev.ev(e)
            if isinstance(v, int) and not isinstance(v, bool):
                return (v, v)
            self.bad(e, "attribute without a constant integer value")
        if isinstance(e, ast.UnaryOp):
            if isinstance(e.op, ast.USub):
                return _neg(self.ev(e.operand, env))
            if isinstance(e.op, ast.Not):
                t, f = self.split(e, env)
                return _join((1, 1) if t is not None else None, (0, 0) if f is not None else None)
            self.bad(e, "unary operator")
        if isinstance(e, ast.BinOp):
            a, b = self.ev(e.left, env), self.ev(e.right, env)
            if isinstance(e.op, ast.Add):
                return _add(a, b)
            if isinstance(e.op, ast.Sub):
                return _sub(a, b)
            if isinstance(e.op, ast.Mult):
                return _mul(a, b)
            if isinstance(e.op, (ast.FloorDiv, ast.Mod)):
                return self._divmod(e, a, b)[0 if isinstance(e.op, ast.FloorDiv) else 1]
            self.bad(e, "binary operator")
        if isinstance(e, ast.Call):
            fn = ap(e.func)
            if fn == "len" and len(e.args) == 1 and isinstance(e.args[0], ast.Name):
                n = e.args[0].id
                if n in self.buffers:
                    return env[f"#len:{n}"]
                if n == self.data:
                    return (0, INF)
            if fn in ("min", "max") and len(e.args) == 2 and not e.keywords:
                a, b = self.ev(e.args[0], env), self.ev(e.args[1], env)
                f = min if fn == "min" else max
                return (f(a[0], b[0]), f(a[1], b[1]))
            if fn == "int" and len(e.args) == 1:
                return self.ev(e.args[0], env)
            self.bad(e, "call")
        if isinstance(e, (ast.Compare, ast.BoolOp)):
            t, f = self.split(e, env)
            return _join((1, 1) if t is not None else None, (0, 0) if f is not None else None)
        if isinstance(e, ast.IfExp):
            t, f = self.split(e.test, env)
            return _join(self.ev(e.body, t) if t is not None else None, self.ev(e.orelse, f) if f is not None else None)
        self.bad(e, "expression")

    def _divmod(self, node, a, b):
        if b[0] != b[1] or b[0] <= 0 or b[0] == INF:
            self.bad(node, "division by a non-constant or non-positive divisor")
        c = b[0]
        q = (a[0] // c if a[0] not in (INF, -INF) else a[0], a[1] // c if a[1] not in (INF, -INF) else a[1])
        if a[0] not in (INF, -INF) and a[1] not in (INF, -INF) and a[0] // c == a[1] // c:
            r = (a[0] % c, a[1] % c)
        else:
            r = (0, c - 1)
        return q, r

    # ---- tests: (env if true | None, env if false | None)
    def _key(self, e):
        if isinstance(e, ast.Name):
            return e.id
        if isinstance(e, ast.Call) and ap(e.func) == "len" and len(e.args) == 1 and isinstance(e.args[0], ast.Name) \
                and e.args[0].id in self.buffers:
            return f"#len:{e.args[0].id}"
        return None

    @staticmethod
    def _with(env, key, itv):
        if itv is None:
            return None
        out = dict(env)
        out[key] = itv
        return out

    def split(self, t, env):
        if isinstance(t, ast.UnaryOp) and isinstance(t.op, ast.Not):
            a, b = self.split(t.operand, env)
            return b, a
        if isinstance(t, ast.BoolOp):
            if isinstance(t.op, ast.And):
                cur, fal = env, None
                for v in t.values:
                    if cur is None:
                        break
                    tt, ff = self.split(v, cur)
                    fal = _env_join(fal, ff)
                    cur = tt
                return cur, fal
            cur, tru = env, None
            for v in t.values:
                if cur is None:
                    break
                tt, ff = self.split(v, cur)
                tru = _env_join(tru, tt)
                cur = ff
            return tru, cur
        if isinstance(t, ast.Compare):
            if len(t.ops) != 1:
                self.bad(t, "chained comparison")
            return self._cmp(t, t.left, t.ops[0], t.comparators[0], env)
        if isinstance(t, ast.Constant):
            return (env, None) if t.value else (None, env)
        key = self._key(t)
        itv = self.ev(t, env)
        tr = itv
        if itv == (0, 0):
            tr = None
        elif itv[0] == 0:
            tr = _mk(1, itv[1])
        elif itv[1] == 0:
            tr = _mk(itv[0], -1)
        fa = _meet(itv, (0, 0))
        if key is None or key not in env:
            return (env if tr is not None else None), (env if fa is not None else None)
        return self._with(env, key, tr), self._with(env, key, fa)

    def _cmp(self, node, left, op, right, env):
        a, b = self.ev(left, env), self.ev(right, env)
        mirror = {ast.Lt: ast.Gt, ast.Gt: ast.Lt, ast.LtE: ast.GtE, ast.GtE: ast.LtE, ast.Eq: ast.Eq, ast.NotEq: ast.NotEq}
        if type(op) not in mirror:
            self.bad(node, "comparison operator")
        lk, rk = self._key(left), self._key(right)
        if lk is None or lk not in env:
            if rk is not None and rk in env:
                lk, a, b, op = rk, b, a, mirror[type(op)]()
            else:
                lk = None

        def sides(x, y, o):
            """x o y: refined x when true / when false."""
            if isinstance(o, ast.Eq):
                tr = _meet(x, y)
                fa = x
                if y[0] == y[1]:
                    if x == y:
                        fa = None
                    elif x[0] == y[0]:
                        fa = _mk(x[0] + 1, x[1])
                    elif x[1] == y[0]:
                        fa = _mk(x[0], x[1] - 1)
                return tr, fa
            if isinstance(o, ast.NotEq):
                tr, fa = sides(x, y, ast.Eq())
                return fa, tr
            if isinstance(o, ast.Lt):
                return _meet(x, (-INF, y[1] - 1)), _meet(x, (y[0], INF))
            if isinstance(o, ast.LtE):
                return _meet(x, (-INF, y[1])), _meet(x, (y[0] + 1, INF))
            if isinstance(o, ast.Gt):
                return _meet(x, (y[0] + 1, INF)), _meet(x, (-INF, y[1]))
            return _meet(x, (y[0], INF)), _meet(x, (-INF, y[1] - 1))       # GtE
        tr, fa = sides(a, b, op)
        if lk is None:
            return (env if tr is not None else None), (env if fa is not None else None)
        return self._with(env, lk, tr), self._with(env, lk, fa)

    # ---- emissions
    def _const_bytes(self, e, env):
        """bytes value of a literal or of a module/class-level constant (ConstEval); None otherwise."""
        if isinstance(e, ast.Constant):
            return bytes(e.value) if isinstance(e.value, (bytes, bytearray)) else None
        if isinstance(e, (ast.Name, ast.Attribute)):
            if isinstance(e, ast.Name) and (e.id in env or e.id in self.buffers or e.id == self.data):
                return None
            v = self.cev.ev(e)
            if isinstance(v, (bytes, bytearray)):
                return bytes(v)
        return None

    def _items(self, node, e, env):
        """Byte items of an `extend` argument: list of ('b', itv, symbol) / ('rep', [items], count-itv)."""
        cb = self._const_bytes(e, env)
        if cb is not None:
            return [("b", (v, v), None) for v in cb]
        if isinstance(e, (ast.Tuple, ast.List)):
            return [("b", self.ev(x, env), x.id if isinstance(x, ast.Name) else None) for x in e.elts]
        if isinstance(e, ast.Call) and ap(e.func) in ("bytes", "bytearray") and len(e.args) == 1 and not e.keywords:
            if isinstance(e.args[0], (ast.Tuple, ast.List, ast.Constant)) and not (
                    isinstance(e.args[0], ast.Constant) and isinstance(e.args[0].value, int)):
                return self._items(node, e.args[0], env)
            n = self.ev(e.args[0], env)        # bytes(n): n zero bytes
            return [("rep", [("b", (0, 0), None)], n)]
        if isinstance(e, ast.BinOp) and isinstance(e.op, ast.Mult):
            for seq, cnt in ((e.left, e.right), (e.right, e.left)):
                if isinstance(seq, (ast.Tuple, ast.List)) or self._const_bytes(seq, env) is not None:
                    return [("rep", self._items(node, seq, env), self.ev(cnt, env))]
        self.bad(node, "buffer growth argument")

    def _sync(self, env):
        """#d = #g - counter: when #d is exact, a refined counter interval refines #g too."""
        if self.ghost and self.counter in env and env["#d"][0] == env["#d"][1] and abs(env["#d"][0]) != INF:
            g = _meet(env["#g"], _add(env[self.counter], env["#d"]))
            if g is not None and g != env["#g"]:
                env = dict(env)
                env["#g"] = g
        return env

    def _step(self, node, phase, env, itv, sym):
        """Typestate transition for one emitted byte; returns the new (phase, env)."""
        if not self.typestate:
            return phase, env
        self.emitted_symbols.add(sym)
        env = self._sync(env)
        if phase == "idle":
            if itv == (0, 0):
                return "need", env
            if itv[0] <= 0 <= itv[1]:
                self._viol(self.site_viol, node, "emits a byte that may or may not be 0x00: a zero can go out without a run count")
                return "idle", env
            if self.ghost:
                if sym not in self.loopvars:
                    self._viol(self.site_ghost, node, "a non-zero output byte that is not the input byte itself")
                elif env.get("#g") != (0, 0):
                    self._viol(self.site_ghost, node, "literal byte written while zeros are still pending (run not flushed first)")
            return "idle", env
        # phase need: this byte is the run count of the preceding 0x00
        self.need_symbols.add(sym)
        if itv[0] <= 0 <= itv[1]:
            self._viol(self.site_viol, node, f"run count in {itv} may be 0: `00 00` is the wrap-around form / a zero without a count")
        if itv[1] > 255 or itv[0] < 0:
            self._viol(self.site_viol, node, f"run count in {itv} can leave 1..255")
        if self.ghost:
            env = dict(env)
            if sym == self.counter:
                if env.get("#d") != (0, 0):
                    self._viol(self.site_ghost, node, f"run count differs from the zeros consumed since the last flush by {env.get('#d')}")
                env["#g"] = (0, 0)
                env["#d"] = _neg(env[self.counter]) if self.counter in env else (-INF, INF)
            elif sym in self.loopvars:
                self._viol(self.site_ghost, node, "the input byte is written where a run count is due (run not flushed first)")
                env["#g"] = (0, 0)
            elif itv[0] == itv[1]:
                # a constant count accounts for that many zeros
                env["#g"] = _sub(env["#g"], itv)
                env["#d"] = _sub(env["#d"], itv)
            else:
                self.ghost_undecided = True     # count byte is some other variable: cannot relate it to the input
                env["#g"] = (0, 0)
        return "idle", env

    def _run_items(self, node, items, phase, env):
        """-> list of (phase, env, count-itv) outcomes."""
        outs = [(phase, env, (0, 0))]
        for it in items:
            nxt = []
            for ph, en, cnt in outs:
                if it[0] == "b":
                    ph2, en2 = self._step(node, ph, en, it[1], it[2])
                    nxt.append((ph2, en2, _add(cnt, (1, 1))))
                else:
                    _, sub, n = it
                    n = (max(n[0], 0), max(n[1], 0))
                    k = len(self._flat(sub))
                    if n[1] == 0 or k == 0:
                        nxt.append((ph, en, cnt))
                        continue
                    once = self._run_items(node, sub, ph, en)
                    for ph1, en1, _c in once:
                        twice = self._run_items(node, sub, ph1, en1)
                        if any(p2 != ph1 for p2, _e, _c2 in twice):
                            self.bad(node, "repeated byte sequence that does not return to its starting output state")
                    grow = _mul((k, k), n)
                    if n[0] <= 0:
                        nxt.append((ph, en, _add(cnt, grow)))
                    for ph1, en1, _c in once:
                        nxt.append((ph1, en1, _add(cnt, grow)))
            outs = nxt
        return outs

    def _flat(self, items):
        out = []
        for it in items:
            out.extend([it] if it[0] == "b" else self._flat(it[1]))
        return out

    def emit(self, node, buf, items, state):
        self.sites[id(node)] = node
        out = {}
        for ph, env in state.items():
            for ph2, en2, cnt in self._run_items(node, items, ph, env):
                en2 = dict(en2)
                en2[f"#len:{buf}"] = _add(en2[f"#len:{buf}"], cnt)
                out[ph2] = _env_join(out.get(ph2), en2)
        return out

    # ---- statements
    def assign(self, name, itv, env, delta=None, value_itv=None):
        env = dict(env)
        env[name] = itv
        if self.counter is not None and name == self.counter:
            if delta is not None:
                env["#d"] = _sub(env["#d"], delta)
            else:
                env["#d"] = _sub(env["#g"], value_itv)
        return env

    def map_envs(self, state, f):
        out = {}
        for ph, env in state.items():
            r = f(env)
            if r is not None:
                out[ph] = _env_join(out.get(ph), r)
        return out

    def block(self, stmts, state) -> Flow:
        fl = Flow()
        cur = state
        for st in stmts:
            if not cur:
                break
            cur = self.stmt(st, cur, fl)
        fl.next = cur or {}
        return fl

    def stmt(self, st, state, fl: Flow):
        if isinstance(st, (ast.FunctionDef,)):
            if st.args.args or st.args.kwonlyargs or st.args.vararg or st.args.kwarg:
                self.bad(st, "closure with parameters")
            self.closures[st.name] = st
            return state
        if isinstance(st, (ast.Nonlocal, ast.Global, ast.Pass)):
            return state
        if isinstance(st, ast.Expr):
            v = st.value
            if isinstance(v, ast.Constant):
                return state
            if isinstance(v, ast.Call):
                fn = ap(v.func) or ""
                if fn.startswith(LOG_PREFIXES) or fn == "print":
                    return state
                if isinstance(v.func, ast.Name) and v.func.id in self.closures and not v.args and not v.keywords:
                    self.depth += 1
                    if self.depth > 8:
                        self.bad(st, "recursive closure")
                    sub = self.block(self.closures[v.func.id].body, state)
                    self.depth -= 1
                    if sub.brk or sub.cont:
                        self.bad(st, "break/continue escaping a closure")
                    out = sub.next
                    for rs, rn in sub.ret:
                        if rn.value is not None:
                            self.bad(rn, "closure returning a value")
                        out = _state_join(out, rs)
                    return out
                if isinstance(v.func, ast.Attribute) and isinstance(v.func.value, ast.Name) and v.func.value.id in self.buffers \
                        and not v.keywords and len(v.args) == 1:
                    buf = v.func.value.id
                    if v.func.attr == "append":
                        out = {}
                        for ph, env in state.items():
                            a = v.args[0]
                            item = [("b", self.ev(a, env), a.id if isinstance(a, ast.Name) else None)]
                            out = _state_join(out, self.emit(st, buf, item, {ph: env}))
                        return out
                    if v.func.attr == "extend":
                        out = {}
                        for ph, env in state.items():
                            out = _state_join(out, self.emit(st, buf, self._items(st, v.args[0], env), {ph: env}))
                        return out
            self.bad(st, "expression statement")
        if isinstance(st, (ast.Assign, ast.AnnAssign)):
            tg = st.targets[0] if isinstance(st, ast.Assign) and len(st.targets) == 1 else getattr(st, "target", None)
            val = st.value
            if tg is None or val is None:
                self.bad(st, "assignment")
            if isinstance(tg, ast.Name) and isinstance(val, ast.Call) and ap(val.func) == "bytearray" and \
                    (not val.args or (len(val.args) == 1 and isinstance(val.args[0], ast.Constant) and val.args[0].value in (b"", 0))):
                self.buffers.add(tg.id)
                return self.map_envs(state, lambda env: {**env, f"#len:{tg.id}": (0, 0)})
            if isinstance(tg, ast.Tuple) and len(tg.elts) == 2 and all(isinstance(x, ast.Name) for x in tg.elts) and \
                    isinstance(val, ast.Call) and ap(val.func) == "divmod" and len(val.args) == 2:
                def f(env):
                    q, r = self._divmod(val, self.ev(val.args[0], env), self.ev(val.args[1], env))
                    env = self.assign(tg.elts[0].id, q, env, value_itv=q)
                    return self.assign(tg.elts[1].id, r, env, value_itv=r)
                return self.map_envs(state, f)
            if isinstance(tg, ast.Name):
                if tg.id in self.buffers or tg.id == self.data:
                    self.bad(st, "re-binding of a buffer / the input")

                def g(env):
                    v = self.ev(val, env)
                    return self.assign(tg.id, v, env, value_itv=v)
                return self.map_envs(state, g)
            self.bad(st, "assignment target")
        if isinstance(st, ast.AugAssign):
            tg = st.target
            if isinstance(tg, ast.Name) and tg.id in self.buffers and isinstance(st.op, ast.Add):
                out = {}
                for ph, env in state.items():
                    out = _state_join(out, self.emit(st, tg.id, self._items(st, st.value, env), {ph: env}))
                return out
            if isinstance(tg, ast.Name) and isinstance(st.op, (ast.Add, ast.Sub)):
                def h(env):
                    if tg.id not in env:
                        self.bad(st, "augmented assignment to an unbound name")
                    k = self.ev(st.value, env)
                    if isinstance(st.op, ast.Sub):
                        k = _neg(k)
                    return self.assign(tg.id, _add(env[tg.id], k), env, delta=k)
                return self.map_envs(state, h)
            self.bad(st, "augmented assignment")
        if isinstance(st, ast.If):
            tstate, fstate = {}, {}
            for ph, env in state.items():
                t, f = self.split(st.test, env)
                if t is not None:
                    tstate[ph] = _env_join(tstate.get(ph), t)
                if f is not None:
                    fstate[ph] = _env_join(fstate.get(ph), f)
            a = self.block(st.body, tstate) if tstate else Flow()
            b = self.block(st.orelse, fstate) if fstate else Flow()
            fl.absorb_abrupt(a)
            fl.absorb_abrupt(b)
            return _state_join(a.next, b.next)
        if isinstance(st, ast.For):
            return self.loop(st, state, fl)
        if isinstance(st, ast.Return):
            fl.ret.append((state, st))
            return {}
        if isinstance(st, ast.Raise):
            if self.record:
                self.raises.setdefault(id(st), (st, []))[1].extend(state.values())
            return {}
        if isinstance(st, ast.Break):
            fl.brk = _state_join(fl.brk, state)
            return {}
        if isinstance(st, ast.Continue):
            fl.cont = _state_join(fl.cont, state)
            return {}
        self.bad(st, f"statement {type(st).__name__}")

    def loop(self, st: ast.For, state, fl: Flow):
        it = st.iter
        while isinstance(it, ast.Call) and ap(it.func) in ("bytes", "memoryview", "bytearray", "iter") and len(it.args) == 1:
            it = it.args[0]
        if not (isinstance(it, ast.Name) and it.id == self.data and isinstance(st.target, ast.Name)) or st.orelse:
            self.bad(st, "loop that is not `for <byte> in <input>`")
        lv = st.target.id
        self.loopvars.add(lv)

        def iteration(head):
            zero, nonzero = {}, {}
            for ph, env in head.items():
                z = dict(env)
                z[lv] = (0, 0)
                if self.ghost:
                    z["#g"] = _add(z["#g"], (1, 1))
                    z["#d"] = _add(z["#d"], (1, 1))
                zero[ph] = z
                nz = dict(env)
                nz[lv] = (1, 255)
                nonzero[ph] = nz
            a, b = self.block(st.body, zero), self.block(st.body, nonzero)
            res = Flow()
            res.next = _state_join(_state_join(a.next, b.next), _state_join(a.cont, b.cont))
            res.brk = _state_join(a.brk, b.brk)
            res.ret = a.ret + b.ret
            return res

        def strip(s):
            return {ph: {k: v for k, v in env.items() if k != lv} for ph, env in s.items()}
        saved_record = self.record
        self.record = False
        head = strip(state)
        stable = False
        for rnd in range(MAX_ROUNDS):
            new = _state_join(head, _state_join(strip(state), strip(iteration(head).next)))
            if rnd >= PLAIN_ROUNDS:
                new = _state_widen(head, new)
            if new == head:
                stable = True
                break
            head = new
        if not stable:
            raise AnalysisError(f"{self.fi.qual}: loop fixpoint did not stabilise")
        for _ in range(3):           # narrowing: descending iterations from a post-fixpoint stay sound
            head = _state_join(strip(state), strip(iteration(head).next))
        self.record = saved_record
        final = iteration(head)
        fl.ret.extend(final.ret)
        return _state_join(head, strip(final.brk))

    # ---- driver
    def run(self):
        init = {"idle" if self.typestate else "-": ({"#g": (0, 0), "#d": (0, 0)} if self.ghost else {})}
        fl = self.block(self.fn.body, init)
        if fl.next:
            self.bad(self.fn, "function can fall off its end without returning the buffer")
        if fl.brk or fl.cont:
            self.bad(self.fn, "break/continue outside a loop")
        for state, rn in fl.ret:
            v = rn.value
            while isinstance(v, ast.Call) and ap(v.func) in ("bytes", "bytearray", "memoryview") and len(v.args) == 1:
                v = v.args[0]
            if not (isinstance(v, ast.Name) and v.id in self.buffers):
                self.bad(rn, "return value that is not the output buffer")
            self.returns.append((rn, v.id, state))
        if not self.returns:
            self.bad(self.fn, "no return of the output buffer")
        return self


# --------------------------------------------------------------------------- rules

def r1(ctx):
    repo = ctx.repo
    ctx.rule("C03.R1", "bounded expansion: abstract interpretation (intervals, all inputs) proves a finite upper bound "
                       "on the length of the buffer zero_code_expand returns")
    f = repo.fn("UDPMessageDeserializer.zero_code_expand")
    it = ByteLoopInterp(repo, f).run()
    ctx.floor("C03.R1", "buffer growth sites in zero_code_expand", len(it.sites), 2)
    worst = 0
    for rn, buf, state in it.returns:
        hi = max((env[f"#len:{buf}"][1] for env in state.values()), default=0)
        worst = max(worst, hi)
        ctx.ob("C03.R1", f"{f.qual}: `{norm(rn)}` length bounded for every input", hi != INF, ctx.w(f, rn),
               "the decoded buffer can grow without bound before anything refuses it: some growth is not covered by a "
               "`len(buffer) > cap -> raise` test evaluated since the previous growth" if hi == INF
               else f"len <= {int(hi)}")
    ctx.stats["C03.R1.bound"] = worst if worst != INF else "unbounded"
    # the cap must refuse, not silently truncate
    guards = [n for n in walk(f.node) if isinstance(n, ast.If) and any(
        isinstance(c, ast.Call) and ap(c.func) == "len" and c.args and ap(c.args[0]) in it.buffers for c in walk(n.test))]
    for g in guards:
        refuses = any(isinstance(x, ast.Raise) for x in walk(g))
        ctx.ob("C03.R1", f"{f.qual}: size test `{norm(g.test)}` refuses by raising", refuses, ctx.w(f, g),
               "exceeding the cap must be an error (a truncated expansion would be parsed as a different message)")
    # every byte string has a zero-decoding, so the only legitimate refusal is the size cap - and that is a cap on
    # what has been *decoded*: a raise must only be reachable once the output buffer is known to be non-empty
    # (i.e. behind a test on its length), never on the strength of the input alone
    for rn, envs in it.raises.values():
        lows = [max([env[k][0] for k in env if k.startswith("#len:")] or [0]) for env in envs]
        lo = min(lows) if lows else 0
        guard = next((a.test for a in ancestors(rn) if isinstance(a, ast.If)), rn)
        ctx.ob("C03.R1", f"{f.qual}: refusal `{norm(guard)}` depends on the decoded size", lo >= 1, ctx.w(f, rn),
               "this raise is reachable with nothing decoded yet: inputs whose expansion is within the cap are refused "
               "(zero-coded form can be longer than the data), so the decoder disagrees with the format")
    ctx.assume("zero_code_expand / zero_code_compress iterate a bytes-like argument (elements 0..255)")


def r2(ctx):
    repo = ctx.repo
    ctx.rule("C03.R2", "canonical emission: output typestate of zero_code_compress over all inputs - every 0x00 is "
                       "followed by a count in 1..255, never 0x00 0x00 (wrap form), no dangling 0x00 at the end; "
                       "count byte == zeros consumed since the last flush, literals only after a flush")
    f = repo.fn("UDPMessageSerializer.zero_code_compress")
    it = ByteLoopInterp(repo, f, typestate=True).run()
    ctx.floor("C03.R2", "emission sites in zero_code_compress", len(it.sites), 2)
    for nid, node in it.sites.items():
        v = it.site_viol.get(nid, [])
        ctx.ob("C03.R2", f"{f.qual}: `{norm(node)}` keeps the output canonical", not v, ctx.w(f, node), "; ".join(v))
    for rn, buf, state in it.returns:
        ctx.ob("C03.R2", f"{f.qual}: `{norm(rn)}` never leaves a 0x00 without its count", set(state) <= {"idle"}, ctx.w(f, rn),
               "the function can return while a zero marker still waits for its run count (final flush missing)")
    # ghost accounting of consumed zeros, when the run counter can be identified: the one stepped local
    # (`x += 1`) that is written to the output
    stepped = {n.target.id for n in walk(f.node, into_defs=True) if isinstance(n, ast.AugAssign) and isinstance(n.target, ast.Name)}
    counters = {x for x in it.emitted_symbols if x is not None and x in stepped and x not in it.loopvars}
    g = None
    if len(counters) == 1:
        g = ByteLoopInterp(repo, f, typestate=True, ghost=True, counter=next(iter(counters))).run()
        if g.ghost_undecided:
            g = None
    if g is not None:
        for nid, node in g.sites.items():
            v = g.site_ghost.get(nid, [])
            ctx.ob("C03.R2", f"{f.qual}: `{norm(node)}` accounts for the input exactly", not v, ctx.w(f, node), "; ".join(v))
        for rn, buf, state in g.returns:
            pend = [e.get("#g") for e in map(g._sync, state.values()) if e.get("#g") != (0, 0)]
            ctx.ob("C03.R2", f"{f.qual}: `{norm(rn)}` with every consumed zero written", not pend, ctx.w(f, rn),
                   f"zeros consumed but not yet counted in the output at return: {pend}")
    else:
        ctx.note(f"C03.R2: run-count bytes are not (only) a run counter / constants "
                 f"({sorted(map(str, it.need_symbols))}): count == zeros-consumed accounting not decided for this shape "
                 f"(canonical-form typestate still is)")


def r3(ctx):
    """The zero-coded header peek must expand all the bytes the header needs: same clause as C01.R6
    (window length >= 2*max message-number bytes + 2*extra length), re-run under a C03 rule id."""
    from ..engine import RenamedCtx
    from . import c01
    c01.r6(RenamedCtx(ctx, {"C01.R6": "C03.R3"}))


def run(ctx):
    r1(ctx)
    r2(ctx)
    r3(ctx)
    ctx.assume("losslessness and agreement with the reference decoder on all inputs are value-level and not decided "
               "statically (only the necessary typestate/accounting conditions above)")
