"""C04 - packet-ID translation around injected packets (DESIGN.md section 4, C04).

R1  injections deque stays strictly ascending (ownership + monotone allocation)
R2  early-exit soundness of loops over the deque (uses R1)          -> r2_early_exit(ctx, rule_id)
R3  forward/inverse symmetry of the base carry and the per-injection step -> r3_symmetry(ctx, rule_id)
R4  eviction accounting (`_injection_base` grows exactly when the window drops an element)

r2_early_exit / r3_symmetry are exported so that C05 can re-run them under its own rule ids.
"""
from __future__ import annotations

import ast

from ..cfg import CFG
from ..core import AnalysisError, ancestors, ap, calls, facts, kw, norm, src, stores, walk
from .common import call_index, class_methods_reachable, linform, store_index


def _writers(repo, attr):
    """All (top-level function, Store) whose stored-to path ends in .attr (one shared walk of the tree)."""
    return list(store_index(repo).get(attr, []))


CIRC = "hippolyzer/lib/proxy/circuit.py"
TRACKER = "InjectionTracker"
BASE = "self._packet_id_base"
CARRY = "self._injection_base"
DEQ = "self.injections"

ORDER_BREAKING = "only append() keeps the deque ascending and lets maxlen evict the oldest element"


def _tracker(ctx):
    return ctx.repo.cls(TRACKER, CIRC)


def _is_tracker_store(repo, f, st, ci):
    recv = st.path.rsplit(".", 1)[0].replace("[]", "")
    if recv == "self":
        return f.cls is not None and any(c == ci for c in repo.mro(f.cls))
    return True      # foreign receiver (tracker.injections...) : somebody reaching into the tracker


def _private_helpers(repo, ci, anchor):
    """anchor + private methods reachable from it that nobody else calls."""
    out = {anchor.qual}
    for h in class_methods_reachable(repo, anchor, depth=3)[1:]:
        if not h.name.startswith("_") or h.name.startswith("__"):
            continue
        users = {f.qual for f, _c in call_index(repo).get(h.name, [])}
        if users and users <= out | {x.qual for x in class_methods_reachable(repo, anchor, depth=3) if x.name.startswith("_")}:
            out.add(h.qual)
    return out


def _lin(repo, f, expr):
    return linform(repo, f.module, f.node, expr)


def _nz(d):
    return {k: v for k, v in (d or {}).items() if v != 0}


_NO_LOCALS = ast.Module(body=[], type_ignores=[])


def _lin0(repo, f, expr):
    """Linear form without expanding local names (a statement's own contribution only)."""
    return linform(repo, f.module, _NO_LOCALS, expr)


def _stored_once(f, name):
    return sum(1 for s in stores(f.node, into_defs=True) if s.path == name) == 1


# --------------------------------------------------------------------------- R1

def r1(ctx):
    repo = ctx.repo
    ctx.rule("C04.R1", "InjectionTracker.injections stays strictly ascending: only gen_injectable_id appends, the value "
                       "is _packet_id_base + k (k >= 1), _packet_id_base only ever grows, and the new ID is fed back "
                       "through track_seen before the next allocation")
    ci = _tracker(ctx)
    init = repo.fn(f"{TRACKER}.__init__")
    gen = repo.fn(f"{TRACKER}.gen_injectable_id")
    seen = repo.fn(f"{TRACKER}.track_seen")
    gen_owners = _private_helpers(repo, ci, gen)

    inj_w = [(f, st) for f, st in _writers(repo, "injections") if _is_tracker_store(repo, f, st, ci)]
    ctx.floor("C04.R1", "stores to InjectionTracker.injections", len(inj_w), 2)
    appends = []
    for f, st in inj_w:
        key = f"{f.qual}: {st.path} {st.kind}{'.' + st.method if st.method else ''}"
        if f == init:
            ok = st.kind == "assign" and isinstance(st.value, ast.Call) and (ap(st.value.func) or "").split(".")[-1] == "deque" \
                and not st.value.args
            ctx.ob("C04.R1", key, ok, ctx.w(f, st.node), "the tracker must start from an empty deque")
        elif f.qual in gen_owners:
            ok = st.kind == "mutcall" and st.method == "append"
            ctx.ob("C04.R1", key, ok, ctx.w(f, st.node), ORDER_BREAKING)
            if ok:
                appends.append((f, st))
        else:
            ctx.ob("C04.R1", key, False, ctx.w(f, st.node), "injections mutated outside __init__ / gen_injectable_id")
    ctx.ob("C04.R1", "gen_injectable_id appends every ID it hands out to injections", len(appends) >= 1, gen.where,
           "no append() of the new ID: was_injected / the shifts would not know about it")
    for f, st in appends:
        arg = st.node.args[0] if len(st.node.args) == 1 else None
        lf = _nz(_lin(repo, f, arg)) if arg is not None else None
        if isinstance(arg, ast.Name) and not _stored_once(f, arg.id):
            lf = None        # re-assigned local: value not a simple function of the base
        ok = lf is not None and set(lf) <= {BASE, 1} and lf.get(BASE) == 1 and lf.get(1, 0) >= 1
        ctx.ob("C04.R1", f"{f.qual}: appended value is _packet_id_base + k, k >= 1", ok, ctx.w(f, st.node),
               f"appended {norm(arg) if arg is not None else '?'} = {lf}: a new injected ID must lie above every ID seen so far")
        # fed back before returning
        cfg = CFG(f.node)
        a_nodes = cfg.stmt_nodes_containing(st.node)
        want = _nz(_lin(repo, f, arg)) if arg is not None else None

        def feeds(n):
            if n.ast is None or n.kind != "stmt":
                return False
            for c in calls(n.ast):
                if ap(c.func) == "self.track_seen" and len(c.args) == 1 and _nz(_lin(repo, f, c.args[0])) == want:
                    return True
            return False
        for a in a_nodes:
            wit = cfg.witness_path(a, lambda n: n is cfg.exit, avoid=feeds, exc=False)
            ctx.ob("C04.R1", f"{f.qual}: appended ID is passed to track_seen on every path to the return", wit is None,
                   ctx.w(f, st.node), "the base would not move past the injected ID: the next injection re-uses it",
                   path=cfg.describe_path(wit) if wit else None)

    base_w = [(f, st) for f, st in _writers(repo, "_packet_id_base") if _is_tracker_store(repo, f, st, ci)]
    ctx.floor("C04.R1", "stores to _packet_id_base", len(base_w), 2)
    for f, st in base_w:
        key = f"{f.qual}: {st.path} {st.kind} {norm(st.value) if st.value is not None else ''}"
        if f == init:
            ctx.ob("C04.R1", key, st.kind == "assign", ctx.w(f, st.node))
            continue
        if f != seen:
            ctx.ob("C04.R1", key, False, ctx.w(f, st.node), "_packet_id_base written outside __init__ / track_seen")
            continue
        ok = False
        if st.kind == "assign" and st.value is not None:
            v = st.value
            if isinstance(v, ast.Call) and ap(v.func) == "max" and any(ap(a) == BASE for a in v.args):
                ok = True
            else:
                for e, pol in facts(st.node, f.node):
                    if _vs_base(e, pol, v) in ("gt", "ge"):
                        ok = True
        ctx.ob("C04.R1", key, ok, ctx.w(f, st.node),
               "the base may only move up (store guarded by `value > self._packet_id_base`): otherwise a later injection "
               "gets an ID at or below an earlier one and the deque is no longer ascending")
        # ... and it must move up for EVERY larger ID: _packet_id_base is "the highest wire ID seen", which is what
        # makes `_packet_id_base + 1` a fresh ID; any further condition on the update leaves used IDs above the base
        if st.kind == "assign" and st.value is not None:
            nonneg = _maxlen_syms(init)
            extra = [(e, pol) for e, pol in facts(st.node, f.node) if _vs_base(e, pol, st.value) not in ("gt", "ge", "ne")
                     and not _implied_by_larger(repo, f, e, pol, st.value, nonneg)]
            ctx.ob("C04.R1", f"{f.qual}: {st.path} follows every larger ID (no further condition)", not extra, ctx.w(f, st.node),
                   f"update also requires {[norm(e) + ('' if p else ' (negated)') for e, p in extra]}: a wire ID that was "
                   f"forwarded can stay above the base, and the next injected ID (base + 1) collides with / falls below it")


def _maxlen_syms(init):
    """Access paths that hold the deque's maxlen (never negative): injections.maxlen and attributes assigned from the
    same constructor parameter."""
    syms = {f"{DEQ}.maxlen"}
    for st in stores(init.node):
        if st.path == DEQ and st.kind == "assign" and isinstance(st.value, ast.Call):
            ml = kw(st.value, "maxlen")
            if isinstance(ml, ast.Name):
                for s2 in stores(init.node):
                    if s2.kind == "assign" and s2.path.startswith("self.") and isinstance(s2.value, ast.Name) and s2.value.id == ml.id:
                        syms.add(s2.path)
    return syms


def _implied_by_larger(repo, f, e, pol, value, nonneg):
    """Does `value > self._packet_id_base` (over the integers, with the symbols in `nonneg` >= 0) imply that the
    comparison e has truth value pol?  Locals are resolved to their defining expressions; both sides must be linear.
    Exact for linear terms: substitute value = base + 1 + t (t >= 0) and require the remaining form to be bounded
    below by its value at t = 0, nonneg = 0."""
    if not (isinstance(e, ast.Compare) and len(e.ops) == 1):
        return False
    l, r = _lin(repo, f, e.left), _lin(repo, f, e.comparators[0])
    v = ap(value)
    if l is None or r is None or v is None:
        return False
    diff = dict(l)
    for k, c in r.items():
        diff[k] = diff.get(k, 0) - c           # diff = left - right
    op = type(e.ops[0])
    if not pol:
        op = {ast.Gt: ast.LtE, ast.GtE: ast.Lt, ast.Lt: ast.GtE, ast.LtE: ast.Gt, ast.Eq: ast.NotEq, ast.NotEq: ast.Eq}.get(op)
    if op is None:
        return False

    def ge0(form):
        """form >= 0 for all integers with value > base and nonneg symbols >= 0"""
        cv, cb = form.get(v, 0), form.get(BASE, 0)
        if cv + cb != 0 or cv < 0:
            return False
        for k, c in form.items():
            if k in (v, BASE, 1) or c == 0:
                continue
            if k in nonneg:
                if c < 0:
                    return False
            else:
                return False                    # a free symbol with a non-zero coefficient is unbounded below
        return cv + form.get(1, 0) >= 0

    def shifted(form, sign, delta):
        out = {k: sign * c for k, c in form.items()}
        out[1] = out.get(1, 0) + delta
        return out
    if op is ast.GtE:
        return ge0(diff)
    if op is ast.Gt:
        return ge0(shifted(diff, 1, -1))
    if op is ast.LtE:
        return ge0(shifted(diff, -1, 0))
    if op is ast.Lt:
        return ge0(shifted(diff, -1, -1))
    if op is ast.NotEq:
        return ge0(shifted(diff, 1, -1)) or ge0(shifted(diff, -1, -1))
    return False


def _vs_base(e, pol, value):
    """Relation `value ? self._packet_id_base` that the fact (e, pol) states: 'gt' 'ge' 'lt' 'le' 'eq' 'ne' or None."""
    if not (isinstance(e, ast.Compare) and len(e.ops) == 1):
        return None
    l, r, op = e.left, e.comparators[0], e.ops[0]
    rel = {ast.Gt: "gt", ast.GtE: "ge", ast.Lt: "lt", ast.LtE: "le", ast.Eq: "eq", ast.NotEq: "ne"}.get(type(op))
    if rel is None:
        return None
    if src(l) == src(value) and ap(r) == BASE:
        pass
    elif src(r) == src(value) and ap(l) == BASE:
        rel = {"gt": "lt", "ge": "le", "lt": "gt", "le": "ge"}.get(rel, rel)
    else:
        return None
    if not pol:
        rel = {"gt": "le", "ge": "lt", "lt": "ge", "le": "gt", "eq": "ne", "ne": "eq"}[rel]
    return rel


# --------------------------------------------------------------------------- R2

def _deq_aliases(f):
    """Locals of f that are bound exactly once, to self.injections (`injections = self.injections`)."""
    out = set()
    for st in stores(f.node, into_defs=True):
        if st.kind == "assign" and st.value is not None and ap(st.value) == DEQ and isinstance(st.target, ast.Name) \
                and _stored_once(f, st.target.id):
            out.add(st.target.id)
    return out


def _loop_over(loop, base_path, aliases=()):
    """(is a loop over base_path, descending?, order understood?)"""
    it, desc, ok = loop.iter, False, True
    while isinstance(it, (ast.Call, ast.Subscript)):
        if isinstance(it, ast.Subscript):
            ok = False
            it = it.value
            continue
        name = ap(it.func)
        if name == "reversed" and len(it.args) == 1:
            desc = not desc
        elif name == "sorted" and it.args:
            rv = kw(it, "reverse")
            desc = bool(isinstance(rv, ast.Constant) and rv.value)
            if kw(it, "key") is not None:
                ok = False
        elif name in ("list", "tuple", "iter", "enumerate") and it.args:
            pass
        else:
            ok = False
        if not it.args:
            break
        it = it.args[0]
    return ap(it) == base_path or (isinstance(it, ast.Name) and it.id in aliases), desc, ok


def _callee_of(repo, f, call):
    """Module-level function of f's module or method of f's class that `call` invokes: (FuncInfo, param names)."""
    fn = call.func
    g = None
    if isinstance(fn, ast.Name):
        for cand in repo.funcs.get(fn.id, []):
            if cand.module is f.module and cand.cls is None and cand.parent_fn is None:
                g = cand
        params = [a.arg for a in g.node.args.args] if g else []
    elif isinstance(fn, ast.Attribute) and ap(fn.value) in ("self", "cls") and f.cls is not None:
        g = repo.lookup_method(f.cls, fn.attr)
        params = [a.arg for a in g.node.args.args][1:] if g else []
    if g is None or g == f:
        return None, []
    return g, params


def _arg_binding(call, params):
    out = {}
    for pname, a in zip(params, call.args):
        out[pname] = a
    for k in call.keywords:
        if k.arg in params:
            out[k.arg] = k.value
    return out


class CompLoop:
    """A comprehension / generator expression over the deque, seen as a loop.  `first_match`: it is consumed by
    next(..), i.e. the walk leaves at the first element that passes the filter (an early exit on `ifs`)."""

    def __init__(self, comp_node, gen, first_match):
        self.node, self.gen, self.first_match = comp_node, gen, first_match
        self.iter, self.ifs, self.elt = gen.iter, gen.ifs, getattr(comp_node, "elt", None)
        self.target = gen.target
        self.lineno = comp_node.lineno


def _elem_and_index(target, it):
    """(element name, enumerate index name or None) of a loop target over `it`."""
    enum = False
    x = it
    while isinstance(x, ast.Call) and x.args:
        if ap(x.func) == "enumerate":
            enum = True
        x = x.args[0]
    if enum and isinstance(target, ast.Tuple) and len(target.elts) == 2 and all(isinstance(e, ast.Name) for e in target.elts):
        return target.elts[1].id, target.elts[0].id
    if not enum and isinstance(target, ast.Name):
        return target.id, None
    return None, None


def _comp_loops(fn_node, base_path, aliases=()):
    out = []
    for n in walk(fn_node, into_defs=True):
        if isinstance(n, (ast.GeneratorExp, ast.ListComp, ast.SetComp)) and len(n.generators) == 1:
            over, desc, ok = _loop_over(n.generators[0], base_path, aliases)
            if over:
                from ..core import parent
                p = parent(n)
                first = isinstance(p, ast.Call) and ap(p.func) == "next" and p.args and p.args[0] is n
                out.append((CompLoop(n, n.generators[0], first), desc, ok))
    return out


def _inj_loops(repo, ci):
    """Loops over the tracker's injections deque: [(tracker method, loop, descending, understood, function holding
    the loop, call in the method that reaches it or None)].  A loop moved into a helper that receives
    `self.injections` as an argument is found through the call."""
    out = []
    for f in repo.all_funcs:
        if f.cls is None or f.cls != ci or f.parent_fn is not None:
            continue
        al = _deq_aliases(f)
        for n in walk(f.node, into_defs=True):
            if isinstance(n, (ast.For, ast.AsyncFor)):
                over, desc, ok = _loop_over(n, DEQ, al)
                if over:
                    out.append((f, n, desc, ok, f, None))
            elif isinstance(n, (ast.GeneratorExp, ast.ListComp, ast.SetComp)):
                for cl, desc, ok in _comp_loops(n, DEQ, al):
                    if cl.node is n:
                        out.append((f, cl, desc, ok, f, None))
            elif isinstance(n, ast.Call):
                g, params = _callee_of(repo, f, n)
                if g is None:
                    continue
                for pname, a in _arg_binding(n, params).items():
                    if ap(a) != DEQ and not (isinstance(a, ast.Name) and a.id in al):
                        continue
                    for m in walk(g.node, into_defs=True):
                        if isinstance(m, (ast.For, ast.AsyncFor)):
                            over, desc, ok = _loop_over(m, pname)
                            if over:
                                out.append((f, m, desc, ok, g, n))
    return out


def _elem_cmp(e, pol, elem):
    """Normalise a fact to 'big' (element above the other operand) / 'small' / 'eq' / None."""
    if not (isinstance(e, ast.Compare) and len(e.ops) == 1):
        return None
    l, r, op = e.left, e.comparators[0], e.ops[0]
    l_is = isinstance(l, ast.Name) and l.id == elem
    r_is = isinstance(r, ast.Name) and r.id == elem
    if l_is == r_is:
        return None
    other = r if l_is else l
    if any(isinstance(x, ast.Name) and x.id == elem for x in ast.walk(other)):
        return None
    kind = {ast.Gt: "big", ast.GtE: "big", ast.Lt: "small", ast.LtE: "small", ast.Eq: "eq", ast.NotEq: "ne"}.get(type(op))
    if kind is None:
        return None
    if not l_is:
        kind = {"big": "small", "small": "big"}.get(kind, kind)
    if not pol:
        kind = {"big": "small", "small": "big", "eq": "ne", "ne": "eq"}[kind]
    return kind


def r2_early_exit(ctx, rule_id="C04.R2"):
    repo = ctx.repo
    ctx.rule(rule_id, "early-exit soundness: a counting loop over the ascending injections deque may stop early only "
                      "on 'element too large' (ascending walk) / 'element too small' (descending walk)")
    ci = _tracker(ctx)
    loops = _inj_loops(repo, ci)
    ctx.floor(rule_id, "loops over InjectionTracker.injections", len(loops), 2)
    for _owner, loop, desc, understood, f, _call in loops:
        if not understood:
            raise AnalysisError(f"{rule_id}: {f.qual}: iteration order of `{norm(loop.iter)}` not understood")
        elem, idx = _elem_and_index(loop.target, loop.iter)
        ctx.require(elem is not None, f"{rule_id}: {f.qual}: loop target is not a simple name / enumerate pair")
        if isinstance(loop, CompLoop):
            _r2_comp(ctx, rule_id, f, loop, desc, elem, idx)
            continue
        counting = any(isinstance(n, ast.AugAssign) for n in walk(loop))
        exits = []
        for n in walk(loop):
            if isinstance(n, (ast.Break, ast.Return)):
                inner = False
                for a in ancestors(n):
                    if a is loop:
                        break
                    if isinstance(a, (ast.For, ast.While)) and isinstance(n, ast.Break):
                        inner = True
                if not inner:
                    exits.append(n)
        direction = "newest-first" if desc else "oldest-first"
        base_key = f"{f.qual}: for {elem} in {norm(loop.iter)}"
        # the operand the element is compared with: if it is the running (already shifted) value, the walk must go the
        # way that value moves - counting "injections at or below the running ID" while stepping up is only right
        # oldest-first, while stepping down only newest-first (with a loop-invariant operand either order counts right)
        steps = {}
        for n in walk(loop):
            if isinstance(n, ast.AugAssign) and isinstance(n.target, ast.Name) and isinstance(n.op, (ast.Add, ast.Sub)):
                steps.setdefault(n.target.id, set()).add("up" if isinstance(n.op, ast.Add) else "down")
            elif isinstance(n, ast.Assign):
                for t in n.targets:
                    if isinstance(t, ast.Name) and t.id != elem:
                        steps.setdefault(t.id, set()).add("?")
        for cmp_ in [n for n in walk(loop) if isinstance(n, ast.Compare) and len(n.ops) == 1
                     and isinstance(n.ops[0], (ast.Lt, ast.LtE, ast.Gt, ast.GtE))]:
            sides = [cmp_.left, cmp_.comparators[0]]
            if not any(isinstance(x, ast.Name) and x.id == elem for x in sides):
                continue
            other = sides[1] if isinstance(sides[0], ast.Name) and sides[0].id == elem else sides[0]
            moving = {nm.id: steps[nm.id] for nm in ast.walk(other) if isinstance(nm, ast.Name) and nm.id in steps}
            for nm, dirs in moving.items():
                okdir = dirs == ({"down"} if desc else {"up"})
                ctx.ob(rule_id, f"{base_key}: `{norm(cmp_)}` compares with a running value that moves with the walk", okdir,
                       ctx.w(f, cmp_), f"`{nm}` is stepped {sorted(dirs)} inside a {direction} walk: injections are compared "
                                       f"with the already shifted value in the wrong order, so some that lie at or below the "
                                       f"ID are not counted (compare with the unshifted ID, or walk the other way)")
        if not exits:
            ctx.ob(rule_id, f"{base_key}: visits every tracked injection", True, ctx.w(f, loop), "no early exit")
            continue
        if not counting:
            ctx.note(f"{rule_id}: {base_key} exits early but accumulates nothing (search loop): not constrained")
            ctx.ob(rule_id, f"{base_key}: search loop", True, ctx.w(f, loop))
            continue
        for x in exits:
            kinds = {_elem_cmp(e, pol, elem) for e, pol in facts(x, loop)} - {None}
            need = "small" if desc else "big"
            ok = need in kinds
            ctx.ob(rule_id, f"{base_key}: early exit `{norm(_guard_of(x, loop))}` justified by the walk order", ok, ctx.w(f, x),
                   f"{direction} walk over an ascending deque may stop only once the element is too "
                   f"{'small' if desc else 'large'}; this exit fires on {sorted(kinds) or 'an order-unrelated test'}, so "
                   f"{'older' if desc else 'newer'} injections that still count are skipped")


def _r2_comp(ctx, rule_id, f, loop, desc, elem, idx):
    """Early-exit / running-operand obligations for a comprehension over the deque."""
    from ..core import atoms
    direction = "newest-first" if desc else "oldest-first"
    base_key = f"{f.qual}: for {elem} in {norm(loop.iter)}"
    # names defined inside the comprehension from the enumerate index move up with the walk
    moving = {idx} if idx else set()
    for n in ast.walk(loop.node):
        if isinstance(n, ast.NamedExpr) and isinstance(n.target, ast.Name) and \
                any(isinstance(x, ast.Name) and x.id in moving for x in ast.walk(n.value)):
            moving.add(n.target.id)
    facts_ = [a for t in loop.ifs for a in atoms(t, True)]
    for e, _pol in facts_:
        if isinstance(e, ast.Compare) and len(e.ops) == 1 and isinstance(e.ops[0], (ast.Lt, ast.LtE, ast.Gt, ast.GtE)):
            sides = [e.left, e.comparators[0]]
            if not any(isinstance(x, ast.Name) and x.id == elem for x in sides):
                continue
            other = sides[1] if isinstance(sides[0], ast.Name) and sides[0].id == elem else sides[0]
            if any(isinstance(x, ast.Name) and x.id in moving for x in ast.walk(other)):
                ctx.ob(rule_id, f"{base_key}: `{norm(e)}` compares with a running value that moves with the walk", not desc,
                       ctx.w(f, loop), f"the compared value grows with the position in a {direction} walk")
    if not loop.first_match:
        ctx.ob(rule_id, f"{base_key}: visits every tracked injection", True, ctx.w(f, loop), "no early exit")
        return
    kinds = {_elem_cmp(e, pol, elem) for e, pol in facts_} - {None}
    need = "small" if desc else "big"
    ctx.ob(rule_id, f"{base_key}: early exit `{norm(ast.BoolOp(op=ast.And(), values=list(loop.ifs)) if len(loop.ifs) > 1 else loop.ifs[0]) if loop.ifs else 'first element'}` justified by the walk order",
           need in kinds, ctx.w(f, loop),
           f"{direction} walk over an ascending deque may stop only once the element is too {'small' if desc else 'large'}; "
           f"next() leaves at the first element passing {sorted(kinds) or 'an order-unrelated test'}")


def _guard_of(x, loop):
    for a in ancestors(x):
        if a is loop:
            break
        if isinstance(a, ast.If):
            return a.test
    return x


# --------------------------------------------------------------------------- R3

def _carry_aliases(f):
    out = {CARRY}
    for st in stores(f.node, into_defs=False):
        if st.kind == "assign" and st.value is not None and ap(st.value) == CARRY and isinstance(st.target, ast.Name):
            n = sum(1 for s in stores(f.node, into_defs=False) if s.path == st.target.id)
            if n == 1:
                out.add(st.target.id)
    return out


def _pass_through_param(g):
    """Name of the parameter of helper g whose value (plus local steps) g returns; None if not of that shape."""
    params = [a.arg for a in g.node.args.args]
    found = set()
    for r in [n for n in walk(g.node) if isinstance(n, ast.Return)]:
        if not isinstance(r.value, ast.Name):
            return None
        if r.value.id in params:
            found.add(r.value.id)
            continue
        srcs = [st.value for st in stores(g.node, into_defs=False) if st.path == r.value.id and st.kind == "assign"]
        if len(srcs) != 1 or not (isinstance(srcs[0], ast.Name) and srcs[0].id in params):
            return None
        found.add(srcs[0].id)
    return next(iter(found)) if len(found) == 1 else None


def _carry_coeff(repo, f, e, aliases):
    """Coefficient of the evicted-injection carry in expression e (helper calls that return one of their arguments
    plus local steps are followed); AnalysisError when the carry is used non-linearly."""
    def mentions(x):
        return any(ap(y) in aliases for y in ast.walk(x) if isinstance(y, (ast.Attribute, ast.Name)))
    if isinstance(e, (ast.Name, ast.Attribute)):
        return 1 if ap(e) in aliases else 0
    if isinstance(e, ast.Constant):
        return 0
    if isinstance(e, ast.UnaryOp) and isinstance(e.op, ast.USub):
        return -_carry_coeff(repo, f, e.operand, aliases)
    if isinstance(e, ast.BinOp) and isinstance(e.op, (ast.Add, ast.Sub)):
        r = _carry_coeff(repo, f, e.right, aliases)
        return _carry_coeff(repo, f, e.left, aliases) + (r if isinstance(e.op, ast.Add) else -r)
    if isinstance(e, ast.Call):
        g, params = _callee_of(repo, f, e)
        if g is not None:
            p = _pass_through_param(g)
            bound = _arg_binding(e, params)
            if p is not None and p in bound:
                rest = [a for k, a in bound.items() if k != p]
                if not any(mentions(a) for a in rest):
                    return _carry_coeff(repo, f, bound[p], aliases)
    if mentions(e):
        raise AnalysisError(f"{f.qual}: `{norm(e)}` uses the carry in a way the symmetry rule cannot follow")
    return 0


def _shift_stmts(repo, f):
    """[(stmt, var, coeff)] statements that move a local by the evicted-injection carry."""
    out = []
    aliases = _carry_aliases(f)
    for n in walk(f.node):
        var, val, sign = None, None, 1
        if isinstance(n, ast.AugAssign) and isinstance(n.target, ast.Name) and isinstance(n.op, (ast.Add, ast.Sub)):
            var, val = n.target.id, n.value
            sign = 1 if isinstance(n.op, ast.Add) else -1
        elif isinstance(n, ast.Assign) and len(n.targets) == 1 and isinstance(n.targets[0], ast.Name):
            if n.targets[0].id in aliases:
                continue
            var, val = n.targets[0].id, n.value
        elif isinstance(n, ast.Return) and n.value is not None:
            var, val = "<return>", n.value
        if var is None:
            continue
        c = _carry_coeff(repo, f, val, aliases) * sign
        if c != 0:
            out.append((n, var, c))
    return out


def _depends_on(f, names):
    """names plus every local they are (transitively) computed from in f (walrus targets included)."""
    deps = {}
    for st in stores(f.node, into_defs=True):
        if st.value is not None and "." not in st.path and "[" not in st.path:
            deps.setdefault(st.path, set()).update(x.id for x in ast.walk(st.value) if isinstance(x, ast.Name))
    for n in ast.walk(f.node):
        if isinstance(n, ast.NamedExpr) and isinstance(n.target, ast.Name):
            deps.setdefault(n.target.id, set()).update(x.id for x in ast.walk(n.value) if isinstance(x, ast.Name))
    out, work = set(names), list(names)
    while work:
        for d in deps.get(work.pop(), ()):
            if d not in out:
                out.add(d)
                work.append(d)
    return out


def _call_coeff_into_result(repo, f, call):
    """Coefficient with which the value of `call` (a helper call in f) enters what f returns."""
    sym = ap(call)
    for n in walk(f.node):
        val, tgt = None, None
        if isinstance(n, ast.Return) and n.value is not None:
            val = n.value
        elif isinstance(n, ast.Assign) and len(n.targets) == 1 and isinstance(n.targets[0], ast.Name):
            val, tgt = n.value, n.targets[0].id
        if val is None or not any(x is call for x in ast.walk(val)):
            continue
        lf = _lin0(repo, f, val)
        c = lf.get(sym) if lf is not None else None
        if c is None:
            return None
        if tgt is None:
            return c
        outer = _coeff_into_result(repo, f, tgt)
        return c * outer if outer is not None else None
    return None


def _coeff_into_result(repo, f, var, depth=0, seen=()):
    """Coefficient with which local `var` enters the value the function returns (None: it does not, or
    not linearly / not uniquely)."""
    if depth > 4 or var in seen:
        return None
    coeffs = set()
    for n in walk(f.node):
        if isinstance(n, ast.Return) and n.value is not None:
            if any(isinstance(x, ast.Name) and x.id == var for x in ast.walk(n.value)):
                lf = _lin0(repo, f, n.value)
                coeffs.add(lf.get(var) if lf is not None else None)
        elif isinstance(n, (ast.Assign, ast.AugAssign)):
            tg = n.targets[0] if isinstance(n, ast.Assign) and len(n.targets) == 1 else getattr(n, "target", None)
            if not isinstance(tg, ast.Name) or tg.id == var:
                continue
            if not any(isinstance(x, ast.Name) and x.id == var for x in ast.walk(n.value)):
                continue
            lf = _lin0(repo, f, n.value)
            c = lf.get(var) if lf is not None else None
            if c is not None and isinstance(n, ast.AugAssign):
                c = -c if isinstance(n.op, ast.Sub) else c if isinstance(n.op, ast.Add) else None
            outer = _coeff_into_result(repo, f, tg.id, depth + 1, seen + (var,))
            coeffs.add(c * outer if c is not None and outer is not None else None)
    coeffs.discard(0)
    if len(coeffs) == 1 and None not in coeffs:
        return next(iter(coeffs))
    return None


def _nothing_injected_facts(repo, f, node):
    """(carry known to be 0, deque known to be empty) from the conditions dominating `node`; a condition that is a call
    of a same-class predicate with a single `return <expr>` stands for that expression."""
    from ..core import atoms
    todo = list(facts(node, f.node))
    carry0 = empty = False
    seen = 0
    while todo and seen < 40:
        seen += 1
        e, pol = todo.pop()
        if pol and isinstance(e, ast.Call) and isinstance(e.func, ast.Attribute) and ap(e.func.value) in ("self", "cls") and f.cls is not None:
            m = repo.lookup_method(f.cls, e.func.attr)
            rets = [r for r in walk(m.node) if isinstance(r, ast.Return)] if m is not None else []
            if len(rets) == 1 and rets[0].value is not None:
                todo.extend(atoms(rets[0].value, True))
            continue
        if isinstance(e, ast.Compare) and len(e.ops) == 1:
            l, r, op = e.left, e.comparators[0], e.ops[0]
            zero = lambda x: isinstance(x, ast.Constant) and x.value == 0 and not isinstance(x.value, bool)   # noqa: E731
            is_eq = (isinstance(op, ast.Eq) and pol) or (isinstance(op, ast.NotEq) and not pol)
            if is_eq and ((ap(l) == CARRY and zero(r)) or (ap(r) == CARRY and zero(l))):
                carry0 = True
            if is_eq and ((_is_len_deq(l) and zero(r)) or (_is_len_deq(r) and zero(l))):
                empty = True
        elif ap(e) == CARRY and not pol:
            carry0 = True
        elif ap(e) == DEQ and not pol:
            empty = True
    return carry0, empty


def r3_symmetry(ctx, rule_id="C04.R3"):
    repo = ctx.repo
    ctx.rule(rule_id, "forward/inverse symmetry: get_effective_id adds _injection_base exactly once on every returning "
                      "path and steps +1 per counted injection; get_original_id subtracts it exactly once and steps -1")
    ci = _tracker(ctx)
    for meth, want, word in (("get_effective_id", 1, "adds"), ("get_original_id", -1, "subtracts")):
        f = repo.fn(f"{TRACKER}.{meth}")
        shifts = _shift_stmts(repo, f)
        ctx.ob(rule_id, f"{f.qual}: {word} the evicted-injection carry", len(shifts) >= 1, f.where,
               f"no statement moves the ID by {CARRY}: IDs newer than an evicted injection translate wrongly")
        for n, var, c in shifts:
            ctx.ob(rule_id, f"{f.qual}: `{norm(n)}` {word} the carry once", c == want, ctx.w(f, n),
                   f"coefficient of {CARRY} is {c:+d}, the {'forward' if want > 0 else 'inverse'} translation needs {want:+d}")
        cfg = CFG(f.node)
        shift_nodes = [x for n, _v, _c in shifts for x in cfg.nodes_for(n)]

        def is_shift(x):
            return x in shift_nodes
        rets = [x for x in cfg.nodes if x.kind == "stmt" and isinstance(x.ast, ast.Return)]
        ctx.floor(rule_id, f"returns in {meth}", len(rets), 1)
        id_params = [a.arg for a in f.node.args.args if a.arg != "self"][:1]
        for r in rets:
            # a return that is only reached while nothing was ever injected (carry == 0 and no tracked injection) has
            # nothing to apply: the ID maps to itself in both directions
            carry0, empty = _nothing_injected_facts(repo, f, r.ast)
            if carry0 and empty and isinstance(r.ast.value, ast.Name) and r.ast.value.id in id_params:
                ctx.ob(rule_id, f"{f.qual}: `{norm(r.ast)}` under 'nothing injected yet' returns the ID unchanged", True, ctx.w(f, r.ast),
                       "carry is 0 and the deque is empty on this path")
                continue
            if is_shift(r):
                wit = None
            else:
                wit = cfg.witness_path(cfg.entry, lambda x: x is r, avoid=is_shift, exc=False)
            ctx.ob(rule_id, f"{f.qual}: `{norm(r.ast)}` is reached only after the carry was applied", wit is None,
                   ctx.w(f, r.ast), f"this return skips the `{CARRY}` shift that the opposite translation applies: "
                                    f"original -> wire -> original is not the identity once an injection was evicted",
                   path=cfg.describe_path(wit) if wit else None)
            # the shifted local is what is returned
            vars_ = {v for _n, v, _c in shifts}
            mentioned = _depends_on(f, {x.id for x in ast.walk(r.ast) if isinstance(x, ast.Name)})
            ctx.ob(rule_id, f"{f.qual}: `{norm(r.ast)}` returns the shifted ID", is_shift(r) or bool(vars_ & mentioned) or not shifts,
                   ctx.w(f, r.ast), f"returned expression does not involve {sorted(vars_)}")
        for s in shift_nodes:
            again = cfg.path_exists([s], lambda x: x in shift_nodes, exc=False)
            ctx.ob(rule_id, f"{f.qual}: `{norm(s.ast)}` applies the carry at most once per call", again is None, ctx.w(f, s.ast),
                   "another carry shift is reachable afterwards")
        # per-injection step: a constant step inside the loop, related to the returned ID either directly
        # (`new_id -= 1`) or through a counter that is combined in afterwards (`shift += 1` ... `id - shift`)
        steps = []
        comp_steps = []
        for lf_, loop, desc, _ok, g, call in _inj_loops(repo, ci):
            if lf_ != f:
                continue
            outer = 1 if call is None else _call_coeff_into_result(repo, f, call)
            if isinstance(loop, CompLoop):
                # the step is the enumerate index: the produced value must be linear in it
                _elem, idx = _elem_and_index(loop.target, loop.iter)
                elt = loop.elt
                if idx is not None and isinstance(elt, ast.Name):
                    defs = [x.value for x in ast.walk(loop.node) if isinstance(x, ast.NamedExpr) and isinstance(x.target, ast.Name)
                            and x.target.id == elt.id]
                    elt = defs[0] if len(defs) == 1 else elt
                lf = _lin0(repo, g, elt) if (idx is not None and elt is not None) else None
                if lf is not None and lf.get(idx, 0) != 0 and outer is not None:
                    comp_steps.append((loop, lf.get(idx) * outer, g))
                continue
            for n in walk(loop):
                if isinstance(n, ast.AugAssign) and isinstance(n.target, ast.Name) and isinstance(n.op, (ast.Add, ast.Sub)):
                    coeff = _coeff_into_result(repo, g, n.target.id)
                    if coeff is not None and outer is not None:
                        steps.append((n, coeff * outer, g))
        for loop, k, g in comp_steps:
            ctx.ob(rule_id, f"{f.qual}: `{norm(loop.elt)}` over the position moves the ID by {want:+d} per injection", k == want,
                   ctx.w(g, loop), f"effective step per skipped injection is {k}")
        ctx.ob(rule_id, f"{f.qual}: steps once per counted injection", len(steps) + len(comp_steps) >= 1, f.where,
               "no per-injection step feeding the returned ID inside a loop over injections")
        for n, coeff, g in steps:
            lf = _nz(_lin(repo, g, n.value))
            k = lf.get(1) if lf is not None and set(lf) <= {1} else None
            if k is not None:
                k = (-k if isinstance(n.op, ast.Sub) else k) * coeff
            ctx.ob(rule_id, f"{f.qual}: `{norm(n)}` moves the ID by {want:+d} per injection", k == want, ctx.w(g, n),
                   f"effective step is {k}: every injected ID at or below shifts the translation by exactly one")
        if meth == "get_original_id":
            params = [a.arg for a in f.node.args.args if a.arg != "self"]
            rejects = [n for n in walk(f.node) if isinstance(n, ast.Raise) and any(
                pol and isinstance(e, ast.Compare) and len(e.ops) == 1 and isinstance(e.ops[0], ast.In)
                and ap(e.left) in params and ap(e.comparators[0]) == DEQ for e, pol in facts(n, f.node))]
            if not rejects:
                ctx.note(f"{rule_id}: get_original_id no longer rejects injected wire IDs (not armed: callers filter with was_injected)")


# --------------------------------------------------------------------------- R4

def r4(ctx):
    repo = ctx.repo
    ctx.rule("C04.R4", "eviction accounting: _injection_base += 1 exactly when the bounded deque is full right before the "
                       "append (the append then drops the oldest injected ID)")
    ci = _tracker(ctx)
    init = repo.fn(f"{TRACKER}.__init__")
    gen = repo.fn(f"{TRACKER}.gen_injectable_id")
    owners = _private_helpers(repo, ci, gen)
    # bounded window
    deq = [st for st in stores(init.node) if st.path == DEQ and st.kind == "assign" and isinstance(st.value, ast.Call)]
    ctx.floor("C04.R4", "deque construction in __init__", len(deq), 1)
    maxlen_syms = {f"{DEQ}.maxlen"}
    for st in deq:
        ml = kw(st.value, "maxlen")
        if ml is None and len(st.value.args) >= 2:
            ml = st.value.args[1]
        ok = ml is not None and not (isinstance(ml, ast.Constant) and ml.value is None)
        ctx.ob("C04.R4", "InjectionTracker.__init__: injections is a bounded deque", ok, ctx.w(init, st.node),
               "without maxlen nothing is ever evicted and membership tests/loops grow without bound")
        if ok and isinstance(ml, ast.Name):
            for s2 in stores(init.node):
                if s2.kind == "assign" and s2.path.startswith("self.") and isinstance(s2.value, ast.Name) and s2.value.id == ml.id:
                    maxlen_syms.add(s2.path)
    carry_w = [(f, st) for f, st in _writers(repo, "_injection_base") if _is_tracker_store(repo, f, st, ci)]
    ctx.floor("C04.R4", "stores to _injection_base", len(carry_w), 1)
    incs = []
    for f, st in carry_w:
        key = f"{f.qual}: {st.path} {st.kind} {norm(st.value) if st.value is not None else ''}"
        if f == init:
            ctx.ob("C04.R4", key, st.kind == "assign" and isinstance(st.value, ast.Constant) and st.value.value == 0,
                   ctx.w(f, st.node), "carry must start at 0")
        elif f.qual in owners:
            ok = st.kind == "augassign" and isinstance(st.node.op, ast.Add) and isinstance(st.value, ast.Constant) and st.value.value == 1
            ctx.ob("C04.R4", key, ok, ctx.w(f, st.node), "each eviction drops exactly one injected ID: the carry moves by +1")
            if ok:
                incs.append((f, st))
        else:
            ctx.ob("C04.R4", key, False, ctx.w(f, st.node), "_injection_base written outside __init__ / gen_injectable_id")
    ctx.ob("C04.R4", "gen_injectable_id carries evicted injections into _injection_base", len(incs) >= 1, gen.where,
           "evicted injections are forgotten: every ID above them translates one too low per eviction")
    for f, st in incs:
        fs = [_through_property(repo, ci, e, pol) for e, pol in facts(st.node, f.node)]
        full = []
        for e, pol in fs:
            if isinstance(e, ast.Compare) and len(e.ops) == 1 and pol:
                l, r, op = e.left, e.comparators[0], e.ops[0]
                if isinstance(op, (ast.Eq, ast.GtE)) and _is_len_deq(l) and ap(r) in maxlen_syms:
                    full.append(e)
                elif isinstance(op, (ast.Eq, ast.LtE)) and _is_len_deq(r) and ap(l) in maxlen_syms:
                    full.append(e)
        ctx.ob("C04.R4", f"{f.qual}: carry increment guarded by exactly `len(injections) == maxlen`",
               len(full) == 1 and len(fs) == 1, ctx.w(f, st.node),
               f"dominating conditions {[norm(e) + ('' if p else ' (negated)') for e, p in fs]}: the carry must grow iff the "
               f"append is about to evict")
    # order: test + increment before the (unconditional) append
    apps = [st for st in stores(gen.node) if st.path == DEQ and st.kind == "mutcall" and st.method == "append"]
    if apps and incs and incs[0][0] == gen:
        cfg = CFG(gen.node)
        for a in apps:
            ctx.ob("C04.R4", f"{gen.qual}: append to injections is unconditional", not facts(a.node, gen.node), ctx.w(gen, a.node),
                   "an injected ID that is handed out must be tracked")
            a_nodes = cfg.stmt_nodes_containing(a.node)
            for f, st in incs:
                i_nodes = cfg.nodes_for(st.node)
                after = cfg.path_exists(a_nodes, lambda n: n in i_nodes, exc=False)
                ctx.ob("C04.R4", f"{gen.qual}: fullness is tested before the append", after is None and bool(i_nodes), ctx.w(gen, st.node),
                       "after the append a full deque is always full: the carry would grow on every injection")


# --------------------------------------------------------------------------- R5

def r5(ctx):
    repo = ctx.repo
    ctx.rule("C04.R5", "every wire ID that get_effective_id produces for a forwarded packet (stored into <msg>.packet_id) "
                       "is fed to track_seen of the same tracker on every path: gen_injectable_id allocates "
                       "_packet_id_base + 1, which is only above all used wire IDs if all of them were seen")
    sites = []
    for f, c in call_index(repo).get("get_effective_id", []):
        stmt = c
        for a in ancestors(c):
            if isinstance(a, ast.stmt):
                stmt = a
                break
        if not (isinstance(stmt, ast.Assign) and stmt.value is c and len(stmt.targets) == 1 and isinstance(c.func, ast.Attribute)):
            continue
        tracker = ap(c.func.value)
        tg = stmt.targets[0]
        ids = set()
        if isinstance(tg, ast.Attribute) and tg.attr == "packet_id":
            ids.add(ap(tg))
        elif isinstance(tg, ast.Name):
            # wire_id = t.get_effective_id(...); msg.packet_id = wire_id
            for st in stores(f.node, into_defs=True):
                if st.kind == "assign" and st.path.endswith(".packet_id") and isinstance(st.value, ast.Name) \
                        and st.value.id == tg.id and _stored_once(f, tg.id):
                    ids |= {tg.id, st.path}
        if tracker and ids:
            sites.append((f, stmt, tracker, ids))
    ctx.floor("C04.R5", "forwarded-packet ID translations", len(sites), 1)
    for f, stmt, tracker, ids in sites:
        # nested defs are analysed through their top-level function's CFG only when the statement is at top level
        cfg = CFG(f.node)
        starts = cfg.nodes_for(stmt)
        ctx.require(bool(starts), f"C04.R5: {f.qual}: translation statement not in the function's own CFG")

        def feeds(n):
            if n.ast is None or n.kind != "stmt":
                return False
            for c in calls(n.ast):
                if ap(c.func) == f"{tracker}.track_seen" and len(c.args) == 1 and ap(c.args[0]) in ids:
                    return True
                # helper extracted from the caller: self.h(..., tracker, ...) whose body calls <param>.track_seen(...)
                if isinstance(c.func, ast.Attribute) and ap(c.func.value) in ("self", "cls") and f.cls is not None \
                        and any(ap(a) == tracker for a in c.args):
                    h = repo.lookup_method(f.cls, c.func.attr)
                    if h is not None and any(isinstance(x.func, ast.Attribute) and x.func.attr == "track_seen" for x in calls(h.node)):
                        return True
            return False
        for s0 in starts:
            wit = cfg.witness_path(s0, lambda n: n is cfg.exit, avoid=feeds, exc=False)
            ctx.ob("C04.R5", f"{f.qual}: `{norm(stmt)}` is followed by {tracker}.track_seen(<that id>) on every path", wit is None,
                   ctx.w(f, stmt), "a forwarded wire ID can leave without raising the tracker's highest-seen ID: the next "
                                   "injected packet may be given the same wire ID",
                   path=cfg.describe_path(wit) if wit else None)


# --------------------------------------------------------------------------- R6

def r6(ctx):
    repo = ctx.repo
    ctx.rule("C04.R6", "a message is marked finalized before its packet ID is translated (or on every exit after it, "
                       "also the exceptional ones): otherwise a fault after the rewrite leaves a translated but "
                       "re-sendable message, and the retry translates the already translated ID again")
    sites = []
    for name in ("get_effective_id", "gen_injectable_id"):
        for f, c in call_index(repo).get(name, []):
            stmt = next((a for a in ancestors(c) if isinstance(a, ast.stmt)), None)
            if isinstance(stmt, ast.Assign) and stmt.value is c and len(stmt.targets) == 1:
                tg = stmt.targets[0]
                msg = None
                if isinstance(tg, ast.Attribute) and tg.attr == "packet_id":
                    msg = ap(tg.value)
                elif isinstance(tg, ast.Name):
                    for st in stores(f.node, into_defs=True):
                        if st.kind == "assign" and st.path.endswith(".packet_id") and isinstance(st.value, ast.Name) \
                                and st.value.id == tg.id:
                            msg = st.path.rsplit(".", 1)[0]
                if msg is not None:
                    sites.append((f, stmt, msg))
    ctx.floor("C04.R6", "packet ID translations stored into a message", len(sites), 2)

    def finalizes(n, msg):
        if n.kind != "stmt" or n.ast is None:
            return False
        return any(st.path == f"{msg}.finalized" and st.kind == "assign" and isinstance(st.value, ast.Constant)
                   and st.value.value is True for st in stores(n.ast, into_defs=False))

    def dominated(f, node_ast, msg, depth=0):
        """finalized = True on every path from f's entry to node_ast, or - f being a helper - at all its call sites"""
        cfg = CFG(f.node)
        tgts = cfg.stmt_nodes_containing(node_ast) or cfg.nodes_for(node_ast)
        if not tgts:
            return False
        if all(cfg.witness_path(cfg.entry, lambda n, t=t: n is t, avoid=lambda n: finalizes(n, msg), exc=False) is None
               for t in tgts):
            return True
        if depth >= 2 or f.cls is None:
            return False
        params = [a.arg for a in f.node.args.args]
        callers = [(g, c) for g, c in call_index(repo).get(f.name, []) if g.cls is not None and g != f and
                   any(k == f.cls for k in repo.mro(g.cls)) and isinstance(c.func, ast.Attribute) and ap(c.func.value) in ("self", "cls")]
        if not callers or msg not in params:
            return False
        idx = params.index(msg) - 1
        for g, c in callers:
            if idx >= len(c.args) or ap(c.args[idx]) is None or not dominated(g, c, ap(c.args[idx]), depth + 1):
                return False
        return True
    for f, stmt, msg in sites:
        ok = dominated(f, stmt, msg)
        if not ok:
            cfg = CFG(f.node)
            ok = all(cfg.path_exists([s0], lambda n: n in (cfg.exit, cfg.raise_exit), avoid=lambda n: finalizes(n, msg), exc=True) is None
                     for s0 in cfg.nodes_for(stmt))
        ctx.ob("C04.R6", f"{f.qual}: `{norm(stmt)}` happens on a message already marked finalized", ok, ctx.w(f, stmt),
               f"`{msg}.finalized = True` neither precedes this rewrite on every path nor follows it on every exit (including "
               f"exceptional ones): after a fault in between, the same message can be prepared again and its ID shifted twice")


# --------------------------------------------------------------------------- R7

PROXY = "hippolyzer/lib/proxy/lludp_proxy.py"


def r7(ctx):
    repo = ctx.repo
    ctx.rule("C04.R7", "every datagram on a translated circuit goes through that circuit's trackers, for the whole life of "
                       "the circuit: the intercepting proxy never relays a datagram around the circuit (base-class "
                       "pass-through / transport.send_packet), and the trackers of a live circuit are never replaced")
    # (a) no relay around the circuit
    hp = repo.fn("InterceptingLLUDPProxyProtocol.handle_proxied_packet")
    fns = class_methods_reachable(repo, hp, depth=3)
    sends = [c for g in fns for c in calls(g.node, into_defs=True) if isinstance(c.func, ast.Attribute) and c.func.attr == "send"
             and "circuit" in (ap(c.func.value) or "")]
    ctx.floor("C04.R7", "circuit.send calls of the intercepting proxy", len(sends), 1)
    bypass = []
    mro = repo.mro(hp.cls)
    # the base-class pass-through itself (the plain SOCKS relay the intercepting class overrides) may send
    passthrough = {m.full for k in mro[1:] for key, m in k.methods.items() if key == "handle_proxied_packet"}
    scan = {g.full: g for g in fns}
    for k in mro:
        for m in k.methods.values():
            scan.setdefault(m.full, m)
    for g in scan.values():
        if g.full in passthrough:
            continue
        for c in calls(g.node, into_defs=True):
            if not isinstance(c.func, ast.Attribute):
                continue
            recv = c.func.value
            via_super = isinstance(recv, ast.Call) and ap(recv.func) == "super" and c.func.attr == "handle_proxied_packet"
            via_base = isinstance(recv, ast.Name) and recv.id not in ("self", "cls") and c.func.attr == "handle_proxied_packet" \
                and any(b.name == recv.id for b in mro)
            raw_send = c.func.attr == "send_packet"
            if via_super or via_base or raw_send:
                bypass.append((g, c))
    ctx.ob("C04.R7", f"{hp.qual}: datagrams leave only through the circuit", not bypass, hp.where,
           "; ".join(f"{g.qual}: `{norm(c)}`" for g, c in bypass) +
           " relays a datagram as it came: its packet ID is neither shifted past the injected IDs nor fed to track_seen, "
           "so it can collide with an injected ID and later IDs are allocated below it" if bypass else "")
    # (b) the trackers live as long as the circuit: ProxiedCircuit is (re)built only for a dead / missing circuit
    ctors = [(f, c) for f, c in call_index(repo).get("ProxiedCircuit", []) if f.module.rel.startswith("hippolyzer/lib/proxy/")]
    ctx.floor("C04.R7", "ProxiedCircuit constructions in the proxy", len(ctors), 1)
    for f, c in ctors:
        cfg = CFG(f.node)
        targets = cfg.stmt_nodes_containing(c)
        for d in [x for x in calls(f.node, into_defs=True) if isinstance(x.func, ast.Attribute) and x.func.attr == "disconnect"]:
            dead = any((not pol) and (ap(e) or "").endswith(".is_alive") for e, pol in facts(d, f.node))
            reaches = cfg.path_exists(cfg.stmt_nodes_containing(d), lambda n: n in targets, exc=False) is not None
            ctx.ob("C04.R7", f"{f.qual}: `{norm(d)}` never tears down a live circuit ahead of a new ProxiedCircuit",
                   dead or not reaches, ctx.w(f, d),
                   "a circuit that is still alive is disconnected and rebuilt: the endpoint keeps counting, but the new "
                   "trackers start from nothing, so earlier injections are forgotten and IDs translate differently than before")
        def dead_test(e, pol):
            """(e is pol) says: no circuit / circuit not alive"""
            if isinstance(e, ast.UnaryOp) and isinstance(e.op, ast.Not):
                return dead_test(e.operand, not pol)
            if isinstance(e, ast.BoolOp) and isinstance(e.op, ast.Or) and pol:
                return all(dead_test(v, True) for v in e.values)
            if isinstance(e, ast.BoolOp) and isinstance(e.op, ast.And) and not pol:
                return all(dead_test(v, False) for v in e.values)
            return (not pol) and ((ap(e) or "").endswith(".is_alive") or (ap(e) or "").endswith(".circuit"))
        from ..core import conditions
        alive_guard = any(dead_test(cd.test, cd.polarity) for cd in conditions(c, f.node))
        ctx.ob("C04.R7", f"{f.qual}: `ProxiedCircuit(...)` built only when there is no live circuit", alive_guard, ctx.w(f, c),
               "construction not under a `not circuit / not circuit.is_alive` condition")


def r7_lifetime_and_wire(ctx):
    repo = ctx.repo
    # (c) a circuit stops being alive only through Circuit.disconnect: nobody else may flip the flag that lets
    #     open_circuit build a fresh ProxiedCircuit (fresh trackers) in its place
    alive_w = _writers(repo, "is_alive")
    ctx.floor("C04.R7", "stores to <circuit>.is_alive", len(alive_w), 2)
    for f, st in alive_w:
        owner = f.cls is not None and f.cls.name == "Circuit" and f.name in ("__init__", "disconnect")
        if not owner and not f.module.rel.startswith("hippolyzer/lib/proxy/"):
            continue        # client-side regions manage their own (untranslated) circuits; region teardown (mark_dead)
        ctx.ob("C04.R7", f"{f.qual}: store {st.path} = {norm(st.value) if st.value is not None else st.kind} by the circuit itself",
               owner, ctx.w(f, st.node),
               "a circuit is declared dead from outside Circuit.__init__/disconnect: the next UseCircuitCode replaces it "
               "with a new ProxiedCircuit whose trackers know nothing of the IDs already translated")
    # (d) what prepare_message translated is what goes out: serialize() writes msg.packet_id into the buffer it
    #     returns, on every path - it never hands back bytes kept from the received datagram instead
    from .c01 import flat_ops
    sf = repo.fn("UDPMessageSerializer.serialize")
    rets = [n for n in walk(sf.node) if isinstance(n, ast.Return) and n.value is not None]

    def base_of(expr):
        """name of the object a returned expression is taken from, local aliases (`out = writer`) resolved"""
        b = expr
        while isinstance(b, (ast.Call, ast.Attribute, ast.Subscript)):
            b = b.func if isinstance(b, ast.Call) else b.value
        seen = set()
        while isinstance(b, ast.Name) and b.id not in seen:
            seen.add(b.id)
            srcs = [st.value for st in stores(sf.node, into_defs=False) if st.path == b.id and st.kind == "assign"]
            if len(srcs) == 1 and isinstance(srcs[0], ast.Name) and _stored_once(sf, b.id):
                b = srcs[0]
            else:
                break
        return b.id if isinstance(b, ast.Name) else None
    bases = {base_of(r.value) for r in rets}
    id_writes = []
    for w in {x for x in bases if x}:
        for c, g, chain in flat_ops(repo, sf, "write", {w}):
            if any(isinstance(x, ast.Attribute) and x.attr == "packet_id" for a in c.args[1:] for x in ast.walk(a)):
                id_writes.append((w, chain[0][0] if chain else c))
    ctx.ob("C04.R7", "UDPMessageSerializer.serialize writes msg.packet_id into the buffer it returns", len(id_writes) >= 1, sf.where,
           "no write of <msg>.packet_id to a buffer that serialize returns")
    writers = {w for w, _c in id_writes}
    for r in rets:
        ok = base_of(r.value) in writers
        ctx.ob("C04.R7", f"UDPMessageSerializer.serialize: `{norm(r)}` returns the buffer the translated header was written to", ok,
               ctx.w(sf, r), "returns bytes that were not built from the message's current packet_id / acks (e.g. the datagram "
                             "as received): the IDs prepare_message translated never reach the wire")
    if id_writes:
        cfg = CFG(sf.node)
        wnodes = [n for _w, c in id_writes for n in cfg.stmt_nodes_containing(c)]
        wit = cfg.witness_path(cfg.entry, lambda n: n is cfg.exit, avoid=lambda n: n in wnodes, exc=False)
        ctx.ob("C04.R7", "UDPMessageSerializer.serialize: every returning path writes msg.packet_id", wit is None, sf.where,
               "a path returns without the packet ID having been written", path=cfg.describe_path(wit) if wit else None)


def _through_property(repo, ci, e, pol):
    """A fact that is the truth of `self.<property>` stands for what the property returns (single-return getter)."""
    if isinstance(e, ast.Call) and not e.args and not e.keywords and isinstance(e.func, ast.Attribute) \
            and isinstance(e.func.value, ast.Name) and e.func.value.id == "self":
        m = repo.lookup_method(ci, e.func.attr)          # `self._window_full()`: a predicate method
        rets = [r for r in walk(m.node) if isinstance(r, ast.Return)] if m is not None else []
        if len(rets) == 1 and rets[0].value is not None and len(m.node.args.args) == 1:
            return rets[0].value, pol
    if isinstance(e, ast.Attribute) and isinstance(e.value, ast.Name) and e.value.id == "self":
        m = repo.lookup_method(ci, e.attr)
        if m is not None and any((ap(d) or "").split(".")[-1] == "property" for d in m.node.decorator_list):
            rets = [r for r in walk(m.node) if isinstance(r, ast.Return)]
            if len(rets) == 1 and rets[0].value is not None:
                return rets[0].value, pol
    return e, pol


def r5_standin(ctx):
    """C04.R5, second half: a packet the proxy itself puts on a translated circuit with an explicit packet_id (the
    PacketAck standing in for a dropped packet) carries a wire ID: get_effective_id(...) of the tracker of its
    direction, fed to track_seen before it is sent.  (Without packet_id the ID comes from gen_injectable_id.)"""
    repo = ctx.repo
    pc = repo.cls("ProxiedCircuit", CIRC)
    sites = []
    for m in pc.methods.values():
        for c in calls(m.node, into_defs=True):
            if isinstance(c.func, ast.Attribute) and ap(c.func.value) == "self" and c.func.attr in ("send_acks", "send"):
                pid = kw(c, "packet_id")
                if pid is not None and not (isinstance(pid, ast.Constant) and pid.value is None):
                    sites.append((m, c, pid))
    ctx.stats["C04.R5.explicit packet_id sends"] = len(sites)
    for m, c, pid in sites:
        ok, why = False, f"packet_id={norm(pid)} is not a translated ID"
        if isinstance(pid, ast.Name) and _stored_once(m, pid.id):
            src_ = next((st.value for st in stores(m.node, into_defs=True) if st.path == pid.id and st.kind == "assign"), None)
            if isinstance(src_, ast.Call) and isinstance(src_.func, ast.Attribute) and src_.func.attr == "get_effective_id":
                tracker = ap(src_.func.value)
                cfg = CFG(m.node)
                tgt = cfg.stmt_nodes_containing(c)

                def feeds(n):
                    return n.kind == "stmt" and n.ast is not None and any(
                        ap(x.func) == f"{tracker}.track_seen" and len(x.args) == 1 and ap(x.args[0]) == pid.id for x in calls(n.ast))
                wit = None
                for t in tgt:
                    wit = wit or cfg.witness_path(cfg.entry, lambda n, t=t: n is t, avoid=feeds, exc=False)
                ok = bool(tgt) and wit is None
                why = f"{tracker}.track_seen({pid.id}) does not precede the send on every path"
        ctx.ob("C04.R5", f"{m.qual}: `{norm(c)}` goes out under a translated and tracked wire ID", ok, ctx.w(m, c),
               why + ": the packet takes a slot in the wire sequence, so an untranslated / unseen ID collides with an injected "
                     "one or is handed out again by the next injection")


def _is_len_deq(e):
    return isinstance(e, ast.Call) and ap(e.func) == "len" and len(e.args) == 1 and ap(e.args[0]) == DEQ


def run(ctx):
    r1(ctx)
    r2_early_exit(ctx)
    r3_symmetry(ctx)
    r4(ctx)
    r5(ctx)
    r5_standin(ctx)
    r6(ctx)
    r7(ctx)
    r7_lifetime_and_wire(ctx)
    ctx.assume("the bijection law over all histories is arithmetic over runtime state and is not decided statically")
