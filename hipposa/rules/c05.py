"""C05 - proxied circuit: acks truthful under injection, drops, resends (DESIGN.md section 4 C05).

Also hosts machinery shared with C06 / C19 (same author): a small path explorer with a
three-valued boolean environment, the ack-form flow analysis of `Circuit.collect_acks`, and the
removal/completion pairing of the unacked table.
"""
from __future__ import annotations

import ast
from typing import Any, Dict, List, Optional, Tuple

from ..cfg import CFG
from ..consteval import ConstEval
from ..core import (AnalysisError, FuncInfo, ap, atoms, call_attr, calls, conditions, enclosing_stmt, facts,
                    find_calls, is_none_test, norm, parent, paths_in, src, stores, walk, _block_of, ancestors)
from .common import callers_of, class_methods_reachable, loops_over, top_fn, writers_of

PCIRC = "hippolyzer/lib/proxy/circuit.py"
BCIRC = "hippolyzer/lib/base/message/circuit.py"
LLUDP = "hippolyzer/lib/proxy/lludp_proxy.py"

FWD = {"get_effective_id", "track_seen", "was_dropped", "mark_dropped", "gen_injectable_id"}
REV = {"get_original_id", "was_injected"}


# ============================================================================ shared: path explorer

def dump(e) -> str:
    return ast.dump(e)


class St:
    """Path state: env maps dump(expr) -> (expr, truth); data is rule specific."""
    __slots__ = ("env", "data")

    def __init__(self, env=None, data=None):
        self.env = env if env is not None else {}
        self.data = data if data is not None else {}

    def copy(self):
        d = {}
        for k, v in self.data.items():
            d[k] = dict(v) if isinstance(v, dict) else list(v) if isinstance(v, list) else v
        return St(dict(self.env), d)


def tv(e, st: St) -> Optional[bool]:
    """Three-valued truth of `e` under the facts of the path."""
    if isinstance(e, ast.Constant):
        return bool(e.value)
    if isinstance(e, ast.UnaryOp) and isinstance(e.op, ast.Not):
        r = tv(e.operand, st)
        return None if r is None else not r
    if isinstance(e, ast.BoolOp):
        vals = [tv(v, st) for v in e.values]
        if isinstance(e.op, ast.And):
            if any(v is False for v in vals):
                return False
            if all(v is True for v in vals):
                return True
        else:
            if any(v is True for v in vals):
                return True
            if all(v is False for v in vals):
                return False
    k = dump(e)
    if k in st.env:
        return st.env[k][1]
    if isinstance(e, ast.Compare) and len(e.ops) == 1 and isinstance(e.comparators[0], ast.Constant) \
            and e.comparators[0].value is None and isinstance(e.ops[0], (ast.Is, ast.IsNot)):
        t = st.env.get(dump(e.left))
        if t is not None and t[1] is True:
            return isinstance(e.ops[0], ast.IsNot)
    if isinstance(e, ast.Compare) and len(e.ops) == 1 and isinstance(e.ops[0], (ast.Eq, ast.NotEq)):
        # the mirrored / negated spelling of a recorded comparison
        for op2 in (ast.Eq, ast.NotEq):
            for l, r in ((e.left, e.comparators[0]), (e.comparators[0], e.left)):
                alt = ast.Compare(left=l, ops=[op2()], comparators=[r])
                t = st.env.get(dump(alt))
                if t is not None:
                    same = isinstance(e.ops[0], op2)
                    return t[1] if same else not t[1]
    return None


def assume(e, val: bool, st: St) -> bool:
    """Record that `e` evaluated to `val`; False when that contradicts the path."""
    for a, pol in atoms(e, val):
        cur = tv(a, st)
        if cur is not None and cur != pol:
            return False
        st.env[dump(a)] = (a, pol)
        if isinstance(a, ast.Compare) and len(a.ops) == 1 and isinstance(a.comparators[0], ast.Constant) \
                and a.comparators[0].value is None:
            if (isinstance(a.ops[0], ast.Is) and pol) or (isinstance(a.ops[0], ast.IsNot) and not pol):
                st.env[dump(a.left)] = (a.left, False)
    return True


def invalidate(st: St, path: str):
    dead = []
    for k, (e, _) in st.env.items():
        for q in paths_in(e) | {ap(x) for x in ast.walk(e) if isinstance(x, (ast.Subscript, ast.Call)) and ap(x)}:
            if q == path or q.startswith(path + ".") or q.startswith(path + "[") or q.startswith(path + "("):
                dead.append(k)
                break
    for k in dead:
        st.env.pop(k, None)


class Explorer:
    """Enumerates the syntactic paths of a statement list (loops: zero or one iteration),
    pruning branches that contradict the recorded facts."""
    BUDGET = 40000

    def __init__(self):
        self.steps = 0

    # hooks
    def on_stmt(self, s, st: St):
        return None

    def branch(self, test, st: St) -> List[Tuple[bool, St]]:
        v = tv(test, st)
        out = []
        for val in (True, False):
            if v is not None and v != val:
                continue
            s2 = st.copy()
            if assume(test, val, s2):
                out.append((val, s2))
        return out

    def simple(self, s, st: St):
        for sto in stores(s, into_defs=False):
            invalidate(st, sto.path)

    def on_handler(self, h, st: St):
        """Called with the state in which an exception handler body starts."""

    # engine
    def explore(self, stmts, st: St):
        states = [st]
        outs = []
        for s in stmts:
            nxt = []
            for cur in states:
                for kind, node, s2 in self.step(s, cur):
                    if kind == "fall":
                        nxt.append(s2)
                    else:
                        outs.append((kind, node, s2))
            states = nxt
            if not states:
                break
        outs.extend(("fall", None, s) for s in states)
        return outs

    def step(self, s, st: St):
        self.steps += 1
        if self.steps > self.BUDGET:
            raise AnalysisError("path explorer: budget exhausted (function too branchy for the path rules)")
        r = self.on_stmt(s, st)
        if r is not None:
            return r
        if isinstance(s, ast.If):
            outs = []
            for val, s2 in self.branch(s.test, st):
                outs.extend(self.explore(s.body if val else s.orelse, s2))
            return outs
        if isinstance(s, (ast.For, ast.AsyncFor, ast.While)):
            outs = []

            def after(state, via_break=False):
                if s.orelse and not via_break:
                    return self.explore(s.orelse, state)
                return [("fall", None, state)]
            infinite = isinstance(s, ast.While) and isinstance(s.test, ast.Constant) and bool(s.test.value)
            if not infinite:
                outs.extend(after(st.copy()))
            st1 = st.copy()
            if isinstance(s, ast.While):
                entries = [b for v, b in self.branch(s.test, st1) if v]
            else:
                for sto in stores(ast.Module(body=[ast.Assign(targets=[s.target], value=ast.Constant(value=None))],
                                             type_ignores=[]), into_defs=False):
                    invalidate(st1, sto.path)
                entries = [st1]
            for e in entries:
                for kind, node, s2 in self.explore(s.body, e):
                    if kind in ("fall", "continue"):
                        if not infinite:
                            outs.extend(after(s2))
                    elif kind == "break":
                        outs.extend(after(s2, via_break=True))
                    else:
                        outs.append((kind, node, s2))
            return outs
        if isinstance(s, (ast.With, ast.AsyncWith)):
            return self.explore(s.body, st)
        if isinstance(s, ast.Try):
            return self._try(s, st)
        if isinstance(s, ast.Return):
            return [("return", s, st)]
        if isinstance(s, ast.Raise):
            return [("raise", s, st)]
        if isinstance(s, ast.Break):
            return [("break", s, st)]
        if isinstance(s, ast.Continue):
            return [("continue", s, st)]
        if isinstance(s, ast.Match):
            raise AnalysisError("path explorer: match statement not supported")
        self.simple(s, st)
        return [("fall", None, st)]

    def _try(self, s, st: St):
        entry = st.copy()
        for sto in stores(ast.Module(body=s.body, type_ignores=[]), into_defs=False):
            invalidate(entry, sto.path)
        body_outs = self.explore(s.body, st.copy())
        outs = []
        h_entries = [entry]
        for kind, node, s2 in body_outs:
            if kind == "fall":
                h_entries.append(s2.copy())
                outs.extend(self.explore(s.orelse, s2) if s.orelse else [("fall", None, s2)])
            elif kind == "raise" and s.handlers:
                h_entries.append(s2.copy())
                from ..core import handler_catches_all
                if not any(handler_catches_all(h) for h in s.handlers):
                    outs.append((kind, node, s2))
            else:
                outs.append((kind, node, s2))
        for h in s.handlers:
            for e in h_entries:
                e2 = e.copy()
                self.on_handler(h, e2)
                outs.extend(self.explore(h.body, e2))
        if s.finalbody:
            fin = []
            for kind, node, s2 in outs:
                for k2, n2, s3 in self.explore(s.finalbody, s2):
                    fin.append((kind, node, s3) if k2 == "fall" else (k2, n2, s3))
            outs = fin
        return outs


# ============================================================================ shared: small helpers

def msg_param(fi: FuncInfo, index=0) -> str:
    args = [a.arg for a in fi.node.args.args if a.arg not in ("self", "cls")]
    if len(args) <= index:
        raise AnalysisError(f"{fi.qual}: expected a parameter at position {index}")
    return args[index]


def single_assign(fn_node, name: str) -> Optional[ast.AST]:
    vals = [s.value for s in stores(fn_node, into_defs=False) if s.path == name and s.kind == "assign"]
    if len(vals) == 1 and vals[0] is not None:
        return vals[0]
    return None


def is_const_sub(node, key: str) -> bool:
    return isinstance(node, ast.Subscript) and isinstance(node.slice, ast.Constant) and node.slice.value == key


def name_eq_atom(e, text: str) -> bool:
    """`<x>.name == "text"` (either operand order)."""
    if isinstance(e, ast.Compare) and len(e.ops) == 1 and isinstance(e.ops[0], ast.Eq):
        l, r = e.left, e.comparators[0]
        for a, b in ((l, r), (r, l)):
            if (ap(a) or "").endswith(".name") and isinstance(b, ast.Constant) and b.value == text:
                return True
    return False


def xfacts(repo, fi: "FuncInfo", node):
    """facts() with (a) a bare local that was assigned once from a boolean expression and (b) a call of a
    one-expression predicate helper (own class / collaborator / static) replaced by that expression, the
    arguments substituted for the parameters."""
    out = []
    for e, p in facts_resolved(node, fi.node):
        exp = None
        if isinstance(e, ast.Call):
            h = resolve_any_call(repo, fi, e)
            if h is not None and h != fi:
                rets = [r for r in walk(h.node) if isinstance(r, ast.Return) and r.value is not None]
                if len(rets) == 1 and isinstance(rets[0].value, (ast.Compare, ast.BoolOp, ast.UnaryOp)):
                    params = method_params(h)
                    amap = {params[i]: a for i, a in enumerate(e.args) if i < len(params)}
                    amap.update({k.arg: k.value for k in e.keywords if k.arg})
                    exp = clone(rets[0].value, lambda n: clone(amap[n.id]) if isinstance(n, ast.Name) and n.id in amap else None)
        if exp is not None:
            out.extend(atoms(exp, p))
        else:
            out.append((e, p))
    return out


def _fs(node, stop, xf):
    return xfacts(xf[0], xf[1], node) if xf is not None else facts(node, stop)


def name_fact(node, text: str, stop=None, xf=None) -> Optional[bool]:
    """Polarity with which `<x>.name == text` is known at node (None: unknown)."""
    for e, pol in _fs(node, stop, xf):
        if name_eq_atom(e, text):
            return pol
        if isinstance(e, ast.Compare) and len(e.ops) == 1 and isinstance(e.ops[0], ast.NotEq):
            eq = ast.Compare(left=e.left, ops=[ast.Eq()], comparators=e.comparators)
            if name_eq_atom(eq, text):
                return not pol
    return None


def path_fact(node, path: str, stop=None, xf=None) -> Optional[bool]:
    """Polarity with which the truthiness of exactly `path` is known at node."""
    for e, pol in _fs(node, stop, xf):
        if ap(e) == path:
            return pol
        nt = is_none_test(e)
        if nt and nt[0] == path:
            if nt[1] and pol:
                return False          # path is None
            if (not nt[1]) and pol:
                return True           # is not None: the guard the code relies on
            if nt[1] and not pol:
                return True
    return None


def call_fact(node, attr: str, stop=None, xf=None) -> Optional[bool]:
    """Polarity with which the result of a call to `*.attr(...)` is known at node."""
    for e, pol in _fs(node, stop, xf):
        if isinstance(e, ast.Call) and call_attr(e) == attr:
            return pol
    return None


def is_invert_of(e, path: str, fn_node=None) -> bool:
    if isinstance(e, ast.Name) and fn_node is not None:
        v = single_assign(fn_node, e.id)
        if v is not None:
            e = v
    return isinstance(e, ast.UnaryOp) and isinstance(e.op, ast.Invert) and ap(e.operand) == path


def arg_of(call: ast.Call, pos: int, name: str) -> Optional[ast.AST]:
    if len(call.args) > pos:
        return call.args[pos]
    for k in call.keywords:
        if k.arg == name:
            return k.value
    return None


def resolve_path(fn_node, e) -> Optional[str]:
    """Access path of e with a leading local alias (assigned once from a path) substituted."""
    p = ap(e)
    if p is None:
        return None
    for _ in range(4):
        head, sep, rest = p.partition(".")
        v = single_assign(fn_node, head)
        if v is None or ap(v) is None or isinstance(v, ast.Call):
            break
        p = ap(v) + sep + rest
    return p


def lookup_var(fi: FuncInfo, callee: str) -> str:
    """The local that receives `*.callee(...)` in fi (e.g. the region found by region_by_circuit_addr)."""
    names = {st.path for st in stores(fi.node, into_defs=False) if st.kind == "assign" and "." not in st.path
             and isinstance(st.value, ast.Call) and call_attr(st.value) == callee}
    if len(names) != 1:
        raise AnalysisError(f"{fi.qual}: expected exactly one local assigned from {callee}(), found {sorted(names)}")
    return next(iter(names))


def cfg_nodes(cfg: CFG, node) -> list:
    return cfg.stmt_nodes_containing(node)


# ============================================================================ shared: collaborator objects

def attr_class(repo, ci, attr: str):
    """Class of the object the constructor (along the MRO) stores in `self.<attr>` (`self.attr = Cls(...)`)."""
    for k in repo.mro(ci):
        init = k.methods.get("__init__")
        if init is None:
            continue
        for st in stores(init.node, into_defs=False):
            if st.path == f"self.{attr}" and st.kind == "assign" and isinstance(st.value, ast.Call):
                c = repo.resolve_class(ap(st.value.func) or "", k.module)
                if c is not None:
                    return c
    return None


def forwarded_field(repo, ci, name: str):
    """`name` is a forwarding property of ci (`return self.<a>.<b>`): (collaborator class, b, a); else None."""
    f = repo.lookup_method(ci, name)
    if f is None or not any((ap(d) or "") == "property" for d in f.node.decorator_list):
        return None
    rets = [r for r in walk(f.node) if isinstance(r, ast.Return) and r.value is not None]
    if len(rets) != 1:
        return None
    p = ap(rets[0].value) or ""
    parts = p.split(".")
    if len(parts) == 3 and parts[0] == "self":
        c = attr_class(repo, ci, parts[1])
        if c is not None:
            return c, parts[2], parts[1]
    return None


def field_names(repo, ci, name: str) -> Dict[str, Any]:
    """Last path components under which the state field `ci.<name>` is reached: {name: None, forwarded: collaborator class}."""
    out: Dict[str, Any] = {name: None}
    fw = forwarded_field(repo, ci, name)
    if fw is not None:
        out[fw[1]] = fw[0]
    return out


def resolve_any_call(repo, fi: FuncInfo, c: ast.Call) -> Optional[FuncInfo]:
    """self.m() / cls.m() / self.<attr>.m() (method of the class the constructor stores in <attr>)."""
    r = resolve_method_call(repo, fi, c)
    if r is not None:
        return r
    f = c.func
    if isinstance(f, ast.Attribute) and isinstance(f.value, ast.Attribute) and isinstance(f.value.value, ast.Name) \
            and f.value.value.id == "self" and fi.cls is not None:
        k = attr_class(repo, fi.cls, f.value.attr)
        if k is not None:
            return repo.lookup_method(k, f.attr)
    return None


def follow_delegate(repo, fi: FuncInfo) -> FuncInfo:
    """A method whose whole body hands its parameters on to one other method (own or of a collaborator object)
    stands for that method."""
    for _ in range(3):
        body = [s_ for s_ in fi.node.body if not (isinstance(s_, ast.Expr) and isinstance(s_.value, ast.Constant))]
        if len(body) != 1 or not isinstance(body[0], (ast.Expr, ast.Return)) or not isinstance(body[0].value, ast.Call):
            return fi
        c = body[0].value
        params = method_params(fi)
        if [ap(a) for a in c.args] != params[:len(c.args)] or c.keywords:
            return fi
        nxt = resolve_any_call(repo, fi, c)
        if nxt is None or nxt == fi:
            return fi
        fi = nxt
    return fi


def table_names(repo) -> Dict[str, Any]:
    return field_names(repo, repo.cls("Circuit", BCIRC), "unacked_reliable")


def is_table(repo, path: Optional[str]) -> bool:
    return bool(path) and path.split(".")[-1].replace("[]", "") in table_names(repo)


def table_writers(repo, field="unacked_reliable"):
    """writers_of for a Circuit state field and its forwarded spelling inside the collaborator class (the
    forwarded name is only counted in the collaborator class, the circuit classes, or through the collaborator attribute)."""
    ccls = repo.cls("Circuit", BCIRC)
    names = field_names(repo, ccls, field)
    fw = forwarded_field(repo, ccls, field)
    circ = {c.name for c in repo.subclasses(ccls)}
    out = []
    for nm, k in names.items():
        for f, st in writers_of(repo, nm):
            if k is None or (f.cls is not None and (f.cls.name == k.name or f.cls.name in circ)) \
                    or (fw is not None and f".{fw[2]}." in st.path):
                out.append((f, st))
    # writes through a local alias (`window = circuit.seen_reliable; window.popleft()`)
    for f in repo.all_funcs:
        if f.parent_fn is not None:
            continue
        aliases = None
        for st in stores(f.node, into_defs=True):
            base = st.path.split(".")[0].replace("[]", "")
            if "." in st.path or st.kind in ("assign", "augassign") and st.path == base and st.kind == "assign":
                continue
            if st.kind not in ("mutcall", "setitem", "delitem", "augsetitem"):
                continue
            if aliases is None:
                aliases = {}
                for a_ in stores(f.node, into_defs=True):
                    if a_.kind == "assign" and "." not in a_.path and a_.value is not None and ap(a_.value) \
                            and ap(a_.value).split(".")[-1] == field and "." in ap(a_.value):
                        aliases[a_.path] = ap(a_.value)
            if base in aliases and single_assign(f.node, base) is not None:
                out.append((f, st))
    return out


def removal_helpers(repo, fi: FuncInfo):
    """Calls in fi of a method (own class / collaborator) that removes the entry keyed by one of its parameters
    from the unacked table: [(call, helper, removal store, key argument, conditions in the helper that are not
    mere presence tests of the entry)]."""
    out = []
    for c in calls(fi.node, into_defs=True):
        h = resolve_any_call(repo, fi, c)
        if h is None or h == fi:
            continue
        params = method_params(h)
        for st in stores(h.node, into_defs=False):
            if not is_table(repo, st.path):
                continue
            if st.kind == "delitem":
                k = st.target.slice
            elif st.kind == "mutcall" and st.method == "pop" and st.node.args:
                k = st.node.args[0]
            else:
                continue
            amap_ = {params[i_]: a_ for i_, a_ in enumerate(c.args) if i_ < len(params)}
            amap_.update({kw_.arg: kw_.value for kw_ in c.keywords if kw_.arg})
            if isinstance(k, ast.Name) and k.id in params:
                arg = amap_.get(k.id)
                if arg is None:
                    continue
            else:
                # key computed inside the helper from what it was handed: the key expression with the arguments
                # substituted for the parameters
                used = {n_.id for n_ in ast.walk(k) if isinstance(n_, ast.Name)} - {"self", "cls"}
                if not used or not used <= set(amap_):
                    continue
                arg = clone(k, lambda n_: clone(amap_[n_.id]) if isinstance(n_, ast.Name) and n_.id in amap_ else None)
            # entry locals: assigned from table.get(key) / table[key]
            entry = {s_.path for s_ in stores(h.node, into_defs=False) if s_.kind == "assign" and s_.value is not None
                     and "." not in s_.path and any(is_table(repo, ap(x)) for x in ast.walk(s_.value)
                                                    if isinstance(x, (ast.Attribute, ast.Name)))}
            bad = []
            for e, pol in facts(st.node, h.node):
                nt = is_none_test(e)
                if nt and nt[0] in entry and ((nt[1] and not pol) or (not nt[1] and pol)):
                    continue
                if ap(e) in entry and pol:
                    continue
                if isinstance(e, ast.Compare) and len(e.ops) == 1 and isinstance(e.ops[0], (ast.In, ast.NotIn)) \
                        and ap(e.left) == k.id and is_table(repo, ap(e.comparators[0])) and \
                        (isinstance(e.ops[0], ast.In) == pol):
                    continue
                bad.append(("" if pol else "not ") + norm(e))
            out.append((c, h, st, arg, bad))
    return out


# ============================================================================ shared: collect_acks flow

class AckFlow(Explorer):
    """Which ack forms (appended `message.acks`, `PacketAck` block IDs) definitely reach the
    unacked-table removal on each path of collect_acks (must-include analysis)."""

    def __init__(self, fi: FuncInfo, msg: str, tables=("unacked_reliable",)):
        super().__init__()
        self.fi, self.msg, self.tables = fi, msg, set(tables)
        self.keys: List[ast.AST] = []
        self.repo = None
        self.cond_removals: List[str] = []

    def _is_table(self, path: Optional[str]) -> bool:
        return bool(path) and path.split(".")[-1] in self.tables

    def is_packets(self, e) -> bool:
        return is_const_sub(e, "Packets") and ap(e.value) == self.msg

    def sources(self, e, st: St) -> frozenset:
        vars_ = st.data["vars"]
        if ap(e) == f"{self.msg}.acks":
            return frozenset({"acks"})
        if isinstance(e, ast.Name):
            return vars_.get(e.id, frozenset())
        if isinstance(e, ast.Call):
            if f"@call{id(e)}" in vars_:
                return vars_[f"@call{id(e)}"]          # a helper handed the message, inlined by on_stmt
            fn = ap(e.func) or ""
            if fn in ("list", "tuple", "set", "sorted", "iter", "reversed", "frozenset", "deque") and e.args:
                return self.sources(e.args[0], st)
            if fn.split(".")[-1] == "chain":
                out = frozenset()
                for a in e.args:
                    out |= self.sources(a, st)
                return out
            return frozenset()
        if isinstance(e, (ast.ListComp, ast.GeneratorExp, ast.SetComp)) and len(e.generators) == 1:
            g = e.generators[0]
            if g.ifs or not isinstance(g.target, ast.Name):
                return frozenset()
            if self.is_packets(g.iter) and is_const_sub(e.elt, "ID") and ap(e.elt.value) == g.target.id:
                return frozenset({"blocks"})
            if isinstance(e.elt, ast.Name) and e.elt.id == g.target.id:
                return self.sources(g.iter, st)
            return frozenset()
        if isinstance(e, ast.BinOp) and isinstance(e.op, ast.Add):
            return self.sources(e.left, st) | self.sources(e.right, st)
        if isinstance(e, (ast.List, ast.Tuple, ast.Set)):
            out = frozenset()
            for x in e.elts:
                if isinstance(x, ast.Starred):
                    out |= self.sources(x.value, st)
            return out
        if isinstance(e, ast.IfExp):
            return self.sources(e.body, st) & self.sources(e.orelse, st)
        return frozenset()

    def _unguarded(self, node, loop) -> bool:
        for e, pol in facts(node, loop):
            if isinstance(e, ast.Compare) and len(e.ops) == 1 and isinstance(e.ops[0], ast.In) and pol \
                    and self._is_table(ap(e.comparators[0])):
                continue
            return False
        return True

    def _helper_returns(self, call: ast.Call, depth: int):
        """[(facts of the helper path in terms of the caller's message, ack forms its return value carries)] for a
        call of a method (own class / collaborator / static) that is handed the message and returns id collections."""
        if self.repo is None or depth > 2:
            return None
        h = resolve_any_call(self.repo, self.fi, call)
        if h is None or h == self.fi:
            return None
        params = method_params(h)
        hm = next((params[i] for i, a_ in enumerate(call.args) if i < len(params) and ap(a_) == self.msg), None) or \
            next((k.arg for k in call.keywords if ap(k.value) == self.msg), None)
        if hm is None or any(isinstance(x, (ast.Yield, ast.YieldFrom)) for x in walk(h.node)):
            return None
        sub = AckFlow(h, hm, tables=self.tables)
        sub.repo, sub.depth = self.repo, depth + 1
        res = []
        for kind, node, hst in sub.explore(h.node.body, St(data={"vars": {}, "popped": frozenset()})):
            if kind == "raise":
                continue
            if kind != "return" or node.value is None:
                return None
            fs = []
            for e_, pol in hst.env.values():
                if hm != self.msg:
                    e_ = clone(e_, lambda n: ast.Name(id=self.msg, ctx=ast.Load())
                               if isinstance(n, ast.Name) and n.id == hm else None)
                fs.append((e_, pol))
            res.append((fs, sub.sources(node.value, hst)))
        return res or None

    def _inline_helpers(self, s, st: St):
        """Fork the path per return path of a message helper called in the statement's head expression."""
        head = s.iter if isinstance(s, (ast.For, ast.AsyncFor)) else s.value if isinstance(s, (ast.Assign, ast.AnnAssign, ast.AugAssign)) \
            else s.value if isinstance(s, ast.Expr) else None
        if head is None:
            return None
        for c in [x for x in ast.walk(head) if isinstance(x, ast.Call)]:
            if f"@call{id(c)}" in st.data["vars"]:
                continue
            rets = self._helper_returns(c, getattr(self, "depth", 0))
            if rets is None:
                continue
            outs = []
            for fs, srcs in rets:
                s2 = st.copy()
                if not all(assume(e_, pol, s2) for e_, pol in fs):
                    continue
                s2.data["vars"][f"@call{id(c)}"] = srcs
                outs.extend(self.step(s, s2))
            return outs
        return None

    def on_stmt(self, s, st: St):
        vars_ = st.data["vars"]
        forked = self._inline_helpers(s, st)
        if forked is not None:
            return forked
        if isinstance(s, ast.Assign) and len(s.targets) == 1 and isinstance(s.targets[0], ast.Name):
            vars_[s.targets[0].id] = self.sources(s.value, st)
            return None
        if isinstance(s, ast.AnnAssign) and isinstance(s.target, ast.Name) and s.value is not None:
            vars_[s.target.id] = self.sources(s.value, st)
            return None
        if isinstance(s, ast.AugAssign) and isinstance(s.target, ast.Name) and isinstance(s.op, ast.Add):
            vars_[s.target.id] = vars_.get(s.target.id, frozenset()) | self.sources(s.value, st)
            return None
        if isinstance(s, ast.Expr) and isinstance(s.value, ast.Call) and isinstance(s.value.func, ast.Attribute) \
                and isinstance(s.value.func.value, ast.Name) and s.value.args:
            recv, meth = s.value.func.value.id, s.value.func.attr
            if meth in ("extend", "update"):
                vars_[recv] = vars_.get(recv, frozenset()) | self.sources(s.value.args[0], st)
            return None
        if isinstance(s, (ast.For, ast.AsyncFor)) and isinstance(s.target, ast.Name):
            elem = s.target.id
            S = self.sources(s.iter, st)
            blocks = self.is_packets(s.iter)
            if not S and not blocks:
                return None

            def elem_sources(x):
                if isinstance(x, ast.Name) and x.id == elem and S:
                    return S
                if blocks and is_const_sub(x, "ID") and ap(x.value) == elem:
                    return frozenset({"blocks"})
                if blocks and isinstance(x, ast.Name):
                    v = single_assign(ast.Module(body=s.body, type_ignores=[]), x.id)
                    if v is not None and is_const_sub(v, "ID") and ap(v.value) == elem:
                        return frozenset({"blocks"})
                return frozenset()
            seen_any = False
            if self.repo is not None:
                inside = {id(x) for x in ast.walk(ast.Module(body=s.body, type_ignores=[]))}
                for c_, h_, st_h, arg, bad in removal_helpers(self.repo, self.fi):
                    if id(c_) not in inside:
                        continue
                    key = arg
                    if isinstance(key, ast.Name):
                        kv = single_assign(ast.Module(body=s.body, type_ignores=[]), key.id)
                        key = kv if kv is not None else key
                    if isinstance(key, ast.Tuple) and len(key.elts) == 2:
                        es = elem_sources(key.elts[1])
                        if es and self._unguarded(c_, s) and not bad:
                            st.data["popped"] = st.data["popped"] | es
                            seen_any = True
                        if es:
                            self.keys.append(key)
                            self.cond_removals.extend(bad)
                            seen_any = True
            for n in walk(ast.Module(body=s.body, type_ignores=[])):
                key = None
                if isinstance(n, ast.Call) and call_attr(n) == "pop" and isinstance(n.func, ast.Attribute) \
                        and self._is_table(ap(n.func.value)) and n.args:
                    key = n.args[0]
                elif isinstance(n, ast.Delete):
                    for t in n.targets:
                        if isinstance(t, ast.Subscript) and self._is_table(ap(t.value)):
                            key = t.slice
                if key is not None:
                    if isinstance(key, ast.Name):
                        kv = single_assign(ast.Module(body=s.body, type_ignores=[]), key.id)
                        key = kv if kv is not None else key
                    if isinstance(key, ast.Tuple) and len(key.elts) == 2:
                        es = elem_sources(key.elts[1])
                        if es and self._unguarded(n, s):
                            st.data["popped"] = st.data["popped"] | es
                            self.keys.append(key)
                            seen_any = True
                elif isinstance(n, ast.Call) and call_attr(n) in ("append", "add") and isinstance(n.func, ast.Attribute) \
                        and isinstance(n.func.value, ast.Name) and n.args:
                    es = elem_sources(n.args[0])
                    if es and self._unguarded(n, s):
                        vars_[n.func.value.id] = vars_.get(n.func.value.id, frozenset()) | es
                        seen_any = True
            return [("fall", None, st)] if seen_any else None
        return None


def check_collect_acks(ctx, rule: str):
    """Both ack forms complete sends: on every path of Circuit.collect_acks the removal key set
    includes message.acks, and the PacketAck block IDs whenever the message is a PacketAck;
    the key direction is the inverse of the ack's own direction."""
    repo = ctx.repo
    fi = follow_delegate(repo, repo.fn("Circuit.collect_acks", BCIRC))
    msg = msg_param(fi)
    fl = AckFlow(fi, msg, tables=table_names(repo))
    fl.repo = repo
    outs = fl.explore(fi.node.body, St(data={"vars": {}, "popped": frozenset()}))
    if fl.cond_removals:
        ctx.ob(rule, "Circuit.collect_acks: an acknowledged entry is removed whatever state its future is in", False, fi.where,
               f"the removal additionally depends on {sorted(set(fl.cond_removals))}: an entry whose awaiter went away "
               f"(cancelled / timed-out future) is never removed and keeps being retransmitted")
    n = 0
    saw_blocks = False
    for kind, node, st in outs:
        if kind == "raise":
            continue
        pa = None
        for e, pol in st.env.values():
            if name_eq_atom(e, "PacketAck"):
                pa = pol
            elif isinstance(e, ast.Compare) and len(e.ops) == 1 and isinstance(e.ops[0], ast.NotEq) and \
                    name_eq_atom(ast.Compare(left=e.left, ops=[ast.Eq()], comparators=e.comparators), "PacketAck"):
                pa = not pol
        need = {"acks"} | (set() if pa is False else {"blocks"})
        got = set(st.data["popped"])
        saw_blocks = saw_blocks or "blocks" in got
        label = {True: "PacketAck", False: "other message", None: "any message"}[pa]
        missing = sorted(need - got)
        ctx.ob(rule, f"Circuit.collect_acks[{label}]: removal keys cover appended acks"
                     f"{' and PacketAck block IDs' if pa is not False else ''}",
               not missing, fi.where,
               f"ack form(s) {missing} do not reach the unacked-table removal on this path: a send acknowledged "
               f"that way never completes and keeps being retransmitted" if missing else "")
        n += 1
    ctx.floor(rule, "collect_acks paths", n, 1)
    ctx.floor(rule, "collect_acks removal keys", len(fl.keys), 1)
    seen = set()
    for key in fl.keys:
        d = key.elts[0]
        if dump(d) in seen:
            continue
        seen.add(dump(d))
        ctx.ob(rule, f"Circuit.collect_acks: removal key direction {norm(d)} is ~{msg}.direction",
               is_invert_of(d, f"{msg}.direction", fi.node), ctx.w(fi, key),
               "an ack travelling in direction d acknowledges packets sent in ~d (insertion keys on message.direction)")


def check_pairing(ctx, rule: str, names=("collect_acks", "resend_unacked")):
    """Every removal from unacked_reliable completes the entry's `completed` future."""
    repo = ctx.repo
    total = 0
    for nm in names:
        fi = follow_delegate(repo, repo.fn(f"Circuit.{nm}", BCIRC))
        if nm == "resend_unacked":
            fi = resend_core(repo, fi)[0]
        rem = [(fi, st) for st in stores(fi.node, into_defs=True) if is_table(repo, st.path)
               and (st.kind == "delitem" or (st.kind == "mutcall" and st.method in ("pop", "popitem", "clear")))]
        rem += [(h_, st_h) for _c, h_, st_h, _a, _b in removal_helpers(repo, fi)]
        ctx.ob(rule, f"Circuit.{nm} removes entries from the unacked table", bool(rem), fi.where,
               "no removal left: an acknowledged / exhausted send stays registered and keeps being retransmitted")
        top = fi
        # a handed-out future may have been cancelled / completed by its awaiter: set_result / set_exception on it
        # raise InvalidStateError unless a `not <future>.done()` test on that same future dominates the call
        seen_fns = []
        for f_ in [top] + [h_ for h_, _ in rem]:
            if f_ in seen_fns:
                continue
            seen_fns.append(f_)
            for c in calls(f_.node, into_defs=True):
                if call_attr(c) not in ("set_result", "set_exception") or not isinstance(c.func, ast.Attribute):
                    continue
                fut = c.func.value
                if not (ap(fut) or "").endswith(".completed"):
                    continue
                guarded = any(isinstance(e, ast.Call) and call_attr(e) == "done" and isinstance(e.func, ast.Attribute)
                              and dump(e.func.value) == dump(fut) and not pol for e, pol in facts(c, f_.node))
                ctx.ob(rule, f"Circuit.{nm}: `{norm(c.func)}` only on a future that is not done yet", guarded, ctx.w(f_, c),
                       f"no dominating `not {norm(fut)}.done()`: the awaiter may have cancelled the future (wait_for timeout); "
                       f"completing it then raises InvalidStateError out of {'ack collection (the ack-carrying datagram is lost)' if nm == 'collect_acks' else 'the resend loop (the resend task dies)'}")
        for fi, st in rem:
            total += 1
            stmt = enclosing_stmt(st.node)
            ok, why = False, ""
            completions = [c for c in calls(fi.node, into_defs=True)
                           if call_attr(c) in ("set_result", "set_exception") and (ap(c.func) or "").count(".completed.")]
            assigned = isinstance(stmt, ast.Assign) and len(stmt.targets) == 1 and isinstance(stmt.targets[0], ast.Name) \
                and stmt.value is st.node
            if st.kind == "mutcall" and st.method == "pop" and assigned:
                r = stmt.targets[0].id
                # path form first: on every path on which the popped entry is present its future gets completed
                if _pop_completed_on_all_paths(fi, stmt, r, repo):
                    ctx.ob(rule, f"Circuit.{nm}: removal `{norm(st.node)}` completes the entry's future", True, ctx.w(fi, st.node))
                    continue
                base = {dump(e) + str(p) for e, p in facts(stmt, fi.node)}
                for c in completions:
                    if not (ap(c.func) or "").startswith(f"{r}.completed."):
                        continue
                    extra = [(e, p) for e, p in facts(c, fi.node) if dump(e) + str(p) not in base]
                    if all((ap(e) == r and p) or (is_none_test(e) in ((r, False),) and p)
                           or (is_none_test(e) in ((r, True),) and not p) for e, p in extra) \
                            and _same_or_inner_block(stmt, c):
                        ok = True
                why = f"no `{r}.completed.set_result/set_exception` that depends only on `{r}` being present"
            elif st.kind == "delitem" or (st.kind == "mutcall" and st.method == "pop"):
                blk, _ = _block_of(stmt)
                loopvars = [a.target.id for a in ancestors(stmt) if isinstance(a, (ast.For, ast.AsyncFor))
                            and isinstance(a.target, ast.Name)]
                loopvars += [a.arg for a in fi.node.args.args if a.arg not in ("self", "cls")]   # per-entry helper
                loopvars += [s_.path for s_ in stores(fi.node, into_defs=False) if s_.kind == "assign" and "." not in s_.path
                             and s_.value is not None and any(is_table(repo, ap(x)) for x in ast.walk(s_.value)
                                                              if isinstance(x, (ast.Attribute, ast.Name)))]
                for c in completions:
                    cs = enclosing_stmt(c)
                    if blk is not None and (any(cs is x for x in blk) or _same_or_inner_block(stmt, c)) and \
                            any((ap(c.func) or "").startswith(f"{v}.completed.") for v in loopvars):
                        ok = True
                why = "entry removed without completing its future in the same block (a discarded pop loses the future)"
            else:
                why = "bulk removal without completing the futures"
            ctx.ob(rule, f"Circuit.{nm}: removal `{norm(st.node)}` completes the entry's future", ok, ctx.w(fi, st.node),
                   "" if ok else why)
    ctx.stats[f"{rule}.unacked-table removals"] = total


def _done_call(r: str) -> ast.AST:
    return ast.Call(func=ast.Attribute(value=ast.Attribute(value=ast.Name(id=r, ctx=ast.Load()), attr="completed", ctx=ast.Load()),
                                       attr="done", ctx=ast.Load()), args=[], keywords=[])


def _pop_completed_on_all_paths(fi: FuncInfo, pop_stmt, r: str, repo=None) -> bool:
    """On every path on which the popped entry is present, its future gets completed - or is known to be done
    already (the awaiter cancelled it): `entry present and not entry.completed.done()` is excluded by the path."""
    class P(Explorer):
        def on_stmt(self, s_, st_):
            if s_ is pop_stmt:
                self.simple(s_, st_)
                outs_ = []
                for present in (True, False):
                    s2 = st_.copy()
                    assume(ast.Name(id=r, ctx=ast.Load()), present, s2)
                    if not present:
                        assume(ast.Compare(left=ast.Name(id=r, ctx=ast.Load()), ops=[ast.Is()],
                                           comparators=[ast.Constant(value=None)]), True, s2)
                    s2.data["pending"] = present
                    outs_.append(("fall", None, s2))
                return outs_
            if not isinstance(s_, (ast.If, ast.For, ast.AsyncFor, ast.While, ast.Try, ast.With, ast.Return, ast.Raise,
                                   ast.Break, ast.Continue)):
                for c in calls(s_, into_defs=False):
                    if call_attr(c) in ("set_result", "set_exception") and (ap(c.func) or "").startswith(f"{r}.completed."):
                        st_.data["pending"] = False
            return None
    bad = False
    for kind, node, st_ in P().explore(fi.node.body, St(data={"pending": False})):
        if kind != "raise" and st_.data.get("pending"):
            fs = [(e, pol) for e, pol in st_.env.values()] + [(_done_call(r), False)]
            if repo is not None and facts_exclude(repo, fs, [ast.Name(id=r, ctx=ast.Load())]):
                continue      # present and not done is impossible here: the future was already done
            bad = True
    return not bad


def _same_or_inner_block(stmt, node) -> bool:
    """`node` lies in the statement list that contains `stmt` (at any depth), after it."""
    blk, _ = _block_of(stmt)
    if blk is None:
        return False
    after = False
    for s in blk:
        if s is stmt:
            after = True
            continue
        if after and any(x is node for x in ast.walk(s)):
            return True
    return False


# ============================================================================ R1 tracker roles

TRACKER_FIELDS = {"self.in_injections", "self.out_injections"}


def nt_fields(repo, name: Optional[str], mod) -> Optional[List[str]]:
    """Field names of a typing.NamedTuple class referenced as `name` in module `mod`."""
    ci = repo.resolve_class(name, mod) if name else None
    if ci is None or not any(b_.split(".")[-1] == "NamedTuple" for b_ in ci.base_names):
        return None
    return [st.target.id for st in ci.node.body if isinstance(st, ast.AnnAssign) and isinstance(st.target, ast.Name)]


def _pair_elems(repo, f: FuncInfo, v) -> Optional[Tuple[List[ast.AST], Optional[List[str]]]]:
    """v is a pair of the two tracker fields: a 2-tuple, or a 2-field NamedTuple construction."""
    if isinstance(v, ast.Tuple) and len(v.elts) == 2 and {ap(e) for e in v.elts} == TRACKER_FIELDS:
        return list(v.elts), None
    if isinstance(v, ast.Call):
        fields = nt_fields(repo, ap(v.func), f.module)
        if fields is not None and len(fields) == 2:
            vals = {fields[i]: a_ for i, a_ in enumerate(v.args) if i < 2}
            vals.update({k.arg: k.value for k in v.keywords if k.arg})
            if set(vals) == set(fields) and {ap(x) for x in vals.values()} == TRACKER_FIELDS:
                return [vals[fields[0]], vals[fields[1]]], fields
    return None


class SelectorInfo:
    def __init__(self, fn, rows, fields):
        self.fn, self.rows, self.fields = fn, rows, fields     # rows: [(return node, [elem0, elem1])]
        self.pos_roles = ["fwd", "rev"]                        # refined by r1 from the per-direction rows


_SEL_CACHE: List[Any] = []      # [(repo, info)] - holds the repo so that its identity cannot be recycled


def selector_info(repo) -> SelectorInfo:
    """The tracker-selecting helper of ProxiedCircuit, found by shape (not by name): the method all of
    whose returns are pairs (tuple / NamedTuple) of the two per-direction tracker fields."""
    if _SEL_CACHE and _SEL_CACHE[0][0] is repo:
        return _SEL_CACHE[0][1]
    ci = repo.cls("ProxiedCircuit", PCIRC)
    found = []
    for f in ci.methods.values():
        rets = [r for r in walk(f.node) if isinstance(r, ast.Return)]
        rows, fields, ok = [], None, bool(rets)
        for r in rets:
            pe = _pair_elems(repo, f, r.value)
            if pe is None:
                ok = False
                break
            rows.append((r, pe[0]))
            fields = pe[1] or fields
        if ok:
            found.append(SelectorInfo(f, rows, fields))
    if len(found) != 1:
        raise AnalysisError(f"ProxiedCircuit: expected one method returning the (in_injections, out_injections) pairs "
                            f"by direction, found {[x.fn.qual for x in found]}")
    info = found[0]
    # which position is the forward tracker: the one that is out_injections for OUT and in_injections for IN
    by_dir: Dict[str, List[str]] = {}
    dparam = msg_param(info.fn)
    for ret, elems in info.rows:
        d = _direction_of(ret, info.fn, dparam)
        if d is not None:
            by_dir[d] = [ap(e) for e in elems]
    info.by_dir = by_dir
    if set(by_dir) == {"OUT", "IN"}:
        roles = []
        for i in range(2):
            o, n = by_dir["OUT"][i], by_dir["IN"][i]
            roles.append("fwd" if (o, n) == ("self.out_injections", "self.in_injections") else
                         "rev" if (o, n) == ("self.in_injections", "self.out_injections") else None)
        if None not in roles and set(roles) == {"fwd", "rev"}:
            info.pos_roles = roles
            info.consistent = True
        else:
            info.consistent = False
    else:
        info.consistent = False
    _SEL_CACHE[:] = [(repo, info)]
    return info


def facts_resolved(node, fn_node):
    """facts() with a bare local that was assigned once from a boolean expression replaced by that expression."""
    out = []
    for e, p in facts(node, fn_node):
        if isinstance(e, ast.Name):
            v = single_assign(fn_node, e.id)
            if isinstance(v, (ast.Compare, ast.BoolOp)) or (isinstance(v, ast.UnaryOp) and isinstance(v.op, ast.Not)):
                out.extend(atoms(v, p))
                continue
        out.append((e, p))
    return out


def _direction_of(ret, fn: FuncInfo, dparam: str) -> Optional[str]:
    pol = None
    for e, p in facts_resolved(ret, fn.node):
        if isinstance(e, ast.Compare) and len(e.ops) == 1 and isinstance(e.ops[0], (ast.Eq, ast.NotEq, ast.Is, ast.IsNot)):
            l, r = ap(e.left) or "", ap(e.comparators[0]) or ""
            if dparam in (l, r):
                other = r if l == dparam else l
                eq = isinstance(e.ops[0], (ast.Eq, ast.Is)) == p
                if other.endswith("Direction.OUT"):
                    pol = "OUT" if eq else "IN"
                elif other.endswith("Direction.IN"):
                    pol = "IN" if eq else "OUT"
    return pol


def selector_fn(repo) -> FuncInfo:
    return selector_info(repo).fn


class Roles(dict):
    """local name -> 'fwd' | 'rev' | 'pair' | 'pair~' (the whole selector result, ~ = asked for the inverse direction)."""
    def __init__(self, info: SelectorInfo):
        super().__init__()
        self.info = info

    def of(self, e) -> Optional[str]:
        if isinstance(e, ast.Name):
            r = self.get(e.id)
            return r if r in ("fwd", "rev") else None
        base, idx = None, None
        if isinstance(e, ast.Attribute) and isinstance(e.value, ast.Name) and self.info.fields and e.attr in self.info.fields:
            base, idx = e.value.id, self.info.fields.index(e.attr)
        elif isinstance(e, ast.Subscript) and isinstance(e.value, ast.Name) and isinstance(e.slice, ast.Constant) \
                and e.slice.value in (0, 1):
            base, idx = e.value.id, e.slice.value
        if base is not None and self.get(base) in ("pair", "pair~"):
            r = self.info.pos_roles[idx]
            if self[base] == "pair~":
                r = "rev" if r == "fwd" else "fwd"
            return r
        return None

    def whole(self, e) -> Optional[str]:
        if isinstance(e, ast.Name) and self.get(e.id) in ("pair", "pair~"):
            return self[e.id]
        return self.of(e)


def method_params(callee: FuncInfo) -> List[str]:
    """Parameter names as seen by a caller (without self/cls; staticmethods keep all)."""
    names = [a.arg for a in callee.node.args.args]
    static = any((ap(d) or "").split(".")[-1] == "staticmethod" for d in callee.node.decorator_list)
    return names if static or callee.cls is None else names[1:]


def resolve_method_call(repo, fi: FuncInfo, c: ast.Call) -> Optional[FuncInfo]:
    """self.m(...) / cls.m(...) / OwnClass.m(...) -> the method (class hierarchy of fi)."""
    f = c.func
    if not (isinstance(f, ast.Attribute) and isinstance(f.value, ast.Name) and fi.cls is not None):
        return None
    if f.value.id in ("self", "cls") or f.value.id in {k.name for k in repo.mro(fi.cls)}:
        return repo.lookup_method(fi.cls, f.attr)
    return None


def tracker_roles(ctx, start: FuncInfo) -> Dict[FuncInfo, Roles]:
    """For start and the self.-helpers it reaches: which locals / parameters hold the forward tracker, the
    reverse tracker, or the whole selector result."""
    repo = ctx.repo
    info = selector_info(repo)
    sel = info.fn
    out: Dict[FuncInfo, Roles] = {start: Roles(info)}
    work = [start]

    def unpack(roles, tgt, whole, fi):
        if isinstance(tgt, ast.Name):
            roles[tgt.id] = whole
        elif isinstance(tgt, ast.Tuple) and len(tgt.elts) == 2 and all(isinstance(e, ast.Name) for e in tgt.elts):
            pr = list(info.pos_roles)
            if whole == "pair~":
                pr = ["rev" if r == "fwd" else "fwd" for r in pr]
            roles[tgt.elts[0].id], roles[tgt.elts[1].id] = pr
        else:
            raise AnalysisError(f"{fi.qual}: result of {sel.name} is neither kept whole nor unpacked into two names")
    while work:
        fi = work.pop()
        roles = out[fi]
        changed = True
        while changed:
            changed = False
            before = dict(roles)
            for n in walk(fi.node):
                if not isinstance(n, ast.Assign) or len(n.targets) != 1:
                    continue
                if isinstance(n.value, ast.Call) and call_attr(n.value) == sel.name and resolve_method_call(repo, fi, n.value) == sel:
                    arg = n.value.args[0] if n.value.args else None
                    m = msg_param(fi)
                    if arg is not None and ap(arg) == f"{m}.direction":
                        whole = "pair"
                    elif arg is not None and is_invert_of(arg, f"{m}.direction"):
                        whole = "pair~"
                    else:
                        raise AnalysisError(f"{fi.qual}: {sel.name} argument {norm(arg) if arg is not None else None} "
                                            f"is not the message's direction")
                    unpack(roles, n.targets[0], whole, fi)
                elif isinstance(n.value, ast.Name) and roles.get(n.value.id) in ("pair", "pair~"):
                    unpack(roles, n.targets[0], roles[n.value.id], fi)
                elif isinstance(n.targets[0], ast.Name) and roles.of(n.value) is not None:
                    roles[n.targets[0].id] = roles.of(n.value)
                elif isinstance(n.targets[0], ast.Tuple) and isinstance(n.value, ast.Tuple) \
                        and len(n.targets[0].elts) == len(n.value.elts):
                    for t_, v_ in zip(n.targets[0].elts, n.value.elts):
                        if isinstance(t_, ast.Name) and roles.whole(v_) is not None:
                            roles[t_.id] = roles.whole(v_)
            changed = dict(roles) != before
        for c in calls(fi.node, into_defs=True):
            callee = resolve_method_call(repo, fi, c)
            if callee is not None and callee != sel:
                params = method_params(callee)
                passed = {}
                for i, a in enumerate(c.args):
                    if roles.whole(a) is not None and i < len(params):
                        passed[params[i]] = roles.whole(a)
                for k in c.keywords:
                    if roles.whole(k.value) is not None and k.arg:
                        passed[k.arg] = roles.whole(k.value)
                if not passed:
                    continue
                cur = out.setdefault(callee, Roles(info))
                for p, r in passed.items():
                    if cur.get(p, r) != r:
                        raise AnalysisError(f"{callee.qual}: parameter {p} receives both tracker roles")
                    if p not in cur:
                        cur[p] = r
                        if callee not in work:
                            work.append(callee)
    return out


def call_chains(repo, rmap: Dict[FuncInfo, Any], start: FuncInfo, target: FuncInfo) -> List[List[Tuple[FuncInfo, ast.Call]]]:
    """Chains of call sites [(caller, call), ...] (outermost first) leading from start to target through the
    functions of rmap; [[]] when target is start."""
    if target == start:
        return [[]]
    out = []

    def rec(fi, prefix, seen):
        for c in calls(fi.node, into_defs=True):
            callee = resolve_method_call(repo, fi, c)
            if callee is None or callee in seen or callee not in rmap:
                continue
            if callee == target:
                out.append(prefix + [(fi, c)])
            else:
                rec(callee, prefix + [(fi, c)], seen | {callee})
    rec(start, [], {start})
    return out


def r1(ctx):
    repo = ctx.repo
    ctx.rule("C05.R1", "tracker roles: _get_injections returns (forward, reverse) per direction; packet IDs go "
                       "through the forward tracker only, acks through the reverse tracker only")
    info = selector_info(repo)
    gi = info.fn
    for ret, elems in info.rows:
        if _direction_of(ret, gi, msg_param(gi)) is None:
            raise AnalysisError(f"{gi.qual}: cannot tell for which direction `{norm(ret)}` is returned")
    ctx.floor("C05.R1", "tracker selector OUT returns", 1 if "OUT" in info.by_dir else 0, 1)
    ctx.floor("C05.R1", "tracker selector IN returns", 1 if "IN" in info.by_dir else 0, 1)
    for i in range(2):
        o, n_ = info.by_dir["OUT"][i], info.by_dir["IN"][i]
        label = (info.fields[i] if info.fields else f"element {i}")
        ctx.ob("C05.R1", f"tracker selector: {label} is one role for both directions (out/in for OUT/IN or the inverse)",
               o != n_ and {o, n_} == TRACKER_FIELDS and info.by_dir["OUT"][1 - i] == n_ and info.by_dir["IN"][1 - i] == o,
               gi.where, f"{label} is {o} for OUT and {n_} for IN: IDs of one direction would be translated in the other "
               f"direction's ID space")
    nf = nr = 0
    role_fns = set()
    for anchor in ("ProxiedCircuit.prepare_message", "ProxiedCircuit.drop_message"):
        start = repo.fn(anchor)
        for fi, roles in tracker_roles(ctx, start).items():
            role_fns.add(fi)
            for c in calls(fi.node, into_defs=True):
                meth = call_attr(c)
                if meth not in FWD | REV or not isinstance(c.func, ast.Attribute):
                    continue
                recv = c.func.value
                if roles.of(recv) is None:
                    if isinstance(recv, ast.Name) and recv.id == "self":
                        continue
                    raise AnalysisError(f"{fi.qual}: tracker method {norm(c)} on a receiver whose role is unknown")
                want = "fwd" if meth in FWD else "rev"
                if want == "fwd":
                    nf += 1
                else:
                    nr += 1
                ctx.ob("C05.R1", f"{fi.qual}: {norm(c)} uses the {'forward' if want == 'fwd' else 'reverse'} tracker",
                       roles.of(recv) == want, ctx.w(fi, c),
                       f"{meth} is a {'packet-ID' if want == 'fwd' else 'ack'} operation but runs on the "
                       f"{'reverse' if want == 'fwd' else 'forward'} tracker")
    ctx.floor("C05.R1", "forward-tracker calls", nf, 3)
    ctx.floor("C05.R1", "reverse-tracker calls", nr, 2)
    # nobody else drives the trackers
    for meth in sorted(FWD | REV):
        for f, c in callers_of(repo, meth):
            if not isinstance(c.func, ast.Attribute):
                continue
            if f in role_fns or (f.cls is not None and f.cls.name == "InjectionTracker"):
                continue
            tgt = resolve_any_call(repo, f, c)
            if tgt is not None and (tgt.cls is None or tgt.cls.name != "InjectionTracker"):
                continue      # same method name on another class (resolved receiver)
            ctx.ob("C05.R1", f"{f.qual}: {norm(c)} outside the proxied-circuit rewrite functions", False, ctx.w(f, c),
                   "InjectionTracker state driven from outside prepare_message/drop_message and their helpers")


# ============================================================================ R2 ack sanitiser

class Sanit:
    def __init__(self, fi: FuncInfo, roles: Dict[str, str], msg: Optional[str], sources=None, roles_map=None, repo=None):
        self.fi, self.roles, self.msg = fi, roles, msg
        # access paths that denote the raw appended acks in this function
        self.sources = set(sources) if sources is not None else ({f"{msg}.acks"} if msg else set())
        self.roles_map = roles_map or {}
        self.repo = repo

    def is_source(self, e) -> bool:
        return ap(e) in self.sources

    def via_helper(self, e, depth) -> Optional[Tuple[bool, str]]:
        """e is a call of a helper method that receives the raw acks: every return of the helper must be
        sanitised with respect to the receiving parameter."""
        if not isinstance(e, ast.Call) or self.repo is None:
            return None
        callee = resolve_method_call(self.repo, self.fi, e)
        if callee is None:
            return None
        params = method_params(callee)
        srcs = {params[i] for i, a in enumerate(e.args) if i < len(params) and self.is_source(a)}
        srcs |= {k.arg for k in e.keywords if k.arg and self.is_source(k.value)}
        if not srcs:
            return None
        roles = self.roles_map.get(callee, Roles(selector_info(self.repo)))
        sub = Sanit(callee, roles, None, sources=srcs, roles_map=self.roles_map, repo=self.repo)
        rets = [r for r in walk(callee.node) if isinstance(r, ast.Return) and r.value is not None]
        if not rets:
            return False, f"helper {callee.qual} returns nothing"
        for r in rets:
            ok, why = sub.sanitised(r.value, depth + 1)
            if not ok:
                return False, f"helper {callee.qual}: {why}"
        return True, ""

    def rev(self, e) -> bool:
        return self.roles.of(e) == "rev" if isinstance(self.roles, Roles) else False

    def elem_origin(self, x) -> Optional[str]:
        """'acks' when x is an element of <msg>.acks, 'blocks' when it is a Packets block ID."""
        if is_const_sub(x, "ID"):
            b = x.value
            if isinstance(b, ast.Name) and self._loop_iter_is_packets(b.id):
                return "blocks"
            return None
        if not isinstance(x, ast.Name):
            return None
        for n in walk(self.fi.node):
            if isinstance(n, (ast.ListComp, ast.GeneratorExp, ast.SetComp)):
                for g in n.generators:
                    if isinstance(g.target, ast.Name) and g.target.id == x.id and any(a is n for a in ancestors(x)):
                        return "acks" if self.is_source(g.iter) else None
            if isinstance(n, (ast.For, ast.AsyncFor)) and isinstance(n.target, ast.Name) and n.target.id == x.id \
                    and any(a is n for a in ancestors(x)):
                return "acks" if self.is_source(n.iter) else None
        v = single_assign(self.fi.node, x.id)
        if v is not None and is_const_sub(v, "ID"):
            return self.elem_origin(v)
        return None

    def _loop_iter_is_packets(self, name: str) -> bool:
        for n in walk(self.fi.node):
            if isinstance(n, (ast.For, ast.AsyncFor)) and isinstance(n.target, ast.Name) and n.target.id == name:
                return is_const_sub(n.iter, "Packets") and (self.msg is None or ap(n.iter.value) == self.msg)
        return False

    def not_injected_fact(self, node, arg) -> bool:
        for e, pol in facts(node, self.fi.node):
            if isinstance(e, ast.Call) and call_attr(e) == "was_injected" and isinstance(e.func, ast.Attribute) \
                    and self.rev(e.func.value) and e.args and not pol:
                if dump(e.args[0]) == dump(arg) or self._same_value(e.args[0], arg):
                    return True
        return False

    def _same_value(self, a, b) -> bool:
        def res(x):
            if isinstance(x, ast.Name):
                v = single_assign(self.fi.node, x.id)
                if v is not None:
                    return dump(v)
            return dump(x)
        return res(a) == res(b)

    def translated(self, e, origin: Optional[str] = None) -> Tuple[bool, str]:
        """e is `<rev>.get_original_id(x)` with x a source element and `not <rev>.was_injected(x)` dominating."""
        if not (isinstance(e, ast.Call) and call_attr(e) == "get_original_id" and isinstance(e.func, ast.Attribute)
                and e.args):
            return False, f"`{norm(e)}` is not translated through get_original_id"
        if not self.rev(e.func.value):
            return False, f"`{norm(e)}` translates with a tracker that is not the reverse one"
        x = e.args[0]
        o = self.elem_origin(x)
        if o is None or (origin and o != origin):
            return False, f"`{norm(x)}` is not an element of the ack source"
        if not self.not_injected_fact(e, x):
            return False, f"`{norm(e)}` is not guarded by `not <reverse>.was_injected({norm(x)})`: acks for " \
                          f"proxy-injected packets would be shown to the endpoint"
        return True, ""

    def sanitised(self, e, depth=0) -> Tuple[bool, str]:
        if depth > 6:
            return False, "expression too deep"
        h = self.via_helper(e, depth)
        if h is not None:
            return h
        if isinstance(e, ast.Call) and (ap(e.func) in ("tuple", "list", "set", "sorted", "frozenset")) and len(e.args) == 1:
            return self.sanitised(e.args[0], depth + 1)
        if isinstance(e, (ast.ListComp, ast.GeneratorExp, ast.SetComp)):
            if len(e.generators) != 1:
                return False, "nested comprehension"
            return self.translated(e.elt, "acks")
        if isinstance(e, ast.BinOp) and isinstance(e.op, ast.Add):
            a, b = self.sanitised(e.left, depth + 1), self.sanitised(e.right, depth + 1)
            return (a[0] and b[0]), a[1] or b[1]
        if isinstance(e, (ast.List, ast.Tuple)) and not e.elts:
            return True, ""
        if isinstance(e, ast.Name):
            assigns = [s for s in stores(self.fi.node, into_defs=False) if s.path == e.id]
            if not assigns:
                return False, f"`{e.id}` is not a local built in this function"
            for s in assigns:
                if s.kind == "assign" and s.value is not None:
                    if isinstance(s.value, ast.Call) and ap(s.value.func) in ("list", "set", "deque") and not s.value.args:
                        continue
                    r = self.sanitised(s.value, depth + 1)
                    if not r[0]:
                        return r
                elif s.kind == "augassign" and s.value is not None:
                    r = self.sanitised(s.value, depth + 1)
                    if not r[0]:
                        return r
                elif s.kind == "mutcall" and s.method in ("append", "add"):
                    r = self.translated(s.node.args[0], "acks") if s.node.args else (False, "append without value")
                    if not r[0]:
                        return r
                elif s.kind == "mutcall" and s.method == "extend":
                    r = self.sanitised(s.node.args[0], depth + 1) if s.node.args else (False, "extend without value")
                    if not r[0]:
                        return r
                elif s.kind == "assign" and s.value is None:
                    return False, f"`{e.id}` is a loop variable"
                else:
                    return False, f"`{e.id}` mutated by {s.kind} {s.method or ''}"
            return True, ""
        return False, f"`{norm(e)}` is not built from `<reverse>.get_original_id(x) for x in {sorted(self.sources)} if not " \
                      f"<reverse>.was_injected(x)`"


def chain_guards(repo, rmap, start: FuncInfo, fi: FuncInfo, node, extra=()) -> List[str]:
    """Disallowed dominating conditions of `node` in fi, including those of every call site between start and fi."""
    bad = list(_guards_allowed(node, fi, msg_param(fi), extra))
    chains = call_chains(repo, rmap, start, fi)
    if not chains:
        raise AnalysisError(f"{fi.qual}: no call chain from {start.qual}")
    for chain in chains:
        for caller, call in chain:
            bad.extend(_guards_allowed(call, caller, msg_param(caller), extra))
    return sorted(set(bad))


def _guards_allowed(node, fi, msg, extra=()) -> List[str]:
    """Dominating conditions of `node` that are not in the allowed set (normalised text)."""
    bad = []
    for e, pol in facts(node, fi.node):
        p = ap(e)
        ok = False
        if p in (f"{msg}.finalized", f"{msg}.queued", f"{msg}.synthetic") and not pol:
            ok = True
        elif p == f"{msg}.acks" and pol:
            ok = True
        elif is_none_test(e) and is_none_test(e)[0] == f"{msg}.packet_id":
            isnone, = is_none_test(e)[1:]
            ok = (isnone and not pol) or (not isnone and pol)
        else:
            for x in extra:
                if x(e, pol):
                    ok = True
        if not ok:
            bad.append(("" if pol else "not ") + norm(e))
    return bad


def r2(ctx):
    repo = ctx.repo
    ctx.rule("C05.R2", "ack sanitiser: every ack written to a forwarded message, a PacketAck block, or the stand-in "
                       "PacketAck of a dropped packet is get_original_id(x) under `not was_injected(x)` on the "
                       "reverse tracker; an all-injected PacketAck is not sent")
    pm = repo.fn("ProxiedCircuit.prepare_message")
    dm = repo.fn("ProxiedCircuit.drop_message")
    n_sinks = 0
    for start in (pm, dm):
        rmap = tracker_roles(ctx, start)
        for fi, roles in rmap.items():
            if fi.cls is None or fi.cls.name != "ProxiedCircuit":
                continue
            msg = msg_param(fi)
            sz = Sanit(fi, roles, msg, roles_map=rmap, repo=repo)
            for st in stores(fi.node, into_defs=True):
                # forwarded message's appended acks
                if st.path == f"{msg}.acks" and st.kind == "assign" and isinstance(st.value, (ast.Tuple, ast.List)) \
                        and not st.value.elts:
                    # the appended acks are emptied: allowed only where they were moved into the PacketAck body first
                    # (same block installs a Packets list built from exactly these acks)
                    blk, _ = _block_of(st.node)
                    moved = False
                    installed = {ins.value.id for ins in stores(fi.node, into_defs=False)
                                 if ins.kind == "setitem" and is_const_sub(ins.target, "Packets") and isinstance(ins.value, ast.Name)}
                    for a_ in stores(ast.Module(body=list(blk or []), type_ignores=[]), into_defs=False):
                        v_ = a_.value
                        if a_.path in installed and a_.kind == "assign" and \
                                isinstance(v_, (ast.ListComp, ast.GeneratorExp)) and len(v_.generators) == 1 \
                                and ap(v_.generators[0].iter) == f"{msg}.acks":
                            moved = True
                    ctx.ob("C05.R2", f"{fi.qual}: appended acks are cleared only after being moved into the PacketAck body",
                           moved, ctx.w(fi, st.node), f"`{norm(st.node)}` throws the (translated) appended acks away: they never "
                           f"reach the endpoint they are meant for")
                    continue
                if st.path == f"{msg}.acks" and st.kind in ("assign", "augassign"):
                    n_sinks += 1
                    ok, why = sz.sanitised(st.value)
                    ctx.ob("C05.R2", f"{fi.qual}: store {msg}.acks is filtered and translated", ok, ctx.w(fi, st.node), why)
                    if start == pm:
                        bad = chain_guards(repo, rmap, pm, fi, st.node)
                        ctx.ob("C05.R2", f"{fi.qual}: ack rewrite runs for every endpoint-originated packet", not bad,
                               ctx.w(fi, st.node), f"rewrite of {msg}.acks additionally depends on {bad}: other "
                               f"forwarded packets keep raw wire-space acks")
                elif st.path.endswith(".acks") and st.kind == "mutcall" and st.path == f"{msg}.acks":
                    n_sinks += 1
                    ctx.ob("C05.R2", f"{fi.qual}: in-place mutation {norm(st.node)} of {msg}.acks", False, ctx.w(fi, st.node),
                           "acks mutated in place without the filter/translate form")
                # PacketAck block IDs
                if st.kind == "setitem" and is_const_sub(st.target, "ID"):
                    n_sinks += 1
                    ok, why = sz.translated(st.value, "blocks")
                    if ok:
                        src_v = st.value.args[0]
                        same = sz._same_value(src_v, ast.Subscript(value=st.target.value, slice=ast.Constant(value="ID"),
                                                                   ctx=ast.Load()))
                        if not same:
                            ok, why = False, f"block ID rewritten from `{norm(src_v)}`, not from its own ID"
                    ctx.ob("C05.R2", f"{fi.qual}: store {norm(st.target)} is filtered and translated", ok, ctx.w(fi, st.node), why)
    # presence of the appended-ack rewrite in prepare_message (else raw acks are forwarded)
    pm_msg = msg_param(pm)
    pm_map = tracker_roles(ctx, pm)
    pm_fns = [f for f in pm_map if f.cls is not None and f.cls.name == "ProxiedCircuit"]
    has_store = any(st.path == f"{msg_param(f)}.acks" and st.kind == "assign" for f in pm_fns for st in stores(f.node))
    ctx.ob("C05.R2", "ProxiedCircuit.prepare_message rewrites the appended acks of forwarded packets", has_store, pm.where,
           "no store to message.acks: wire-space acks (including acks for injected packets) reach the endpoint")

    # PacketAck rewrite helper: injected blocks removed, new block list installed, emptiness reported
    # the PacketAck block rewriter, found by shape: the helper reached from prepare_message that stores block["ID"]
    rps = [f for f in pm_map if f != pm and any(st.kind == "setitem" and is_const_sub(st.target, "ID") for st in stores(f.node))]
    if len(rps) > 1 or (not rps and any(st.kind == "setitem" and is_const_sub(st.target, "ID") for st in stores(pm.node))):
        raise AnalysisError("prepare_message: PacketAck block rewrite is not in exactly one helper (inlined or split): "
                            "read it and extend C05.R2")
    rp = rps[0] if rps else None
    rp_name = rp.name if rp is not None else "_rewrite_packet_ack"
    rp_calls = [(f, c) for f in pm_fns if f != rp for c in find_calls(f.node, rp_name)]
    ctx.ob("C05.R2", "ProxiedCircuit.prepare_message rewrites PacketAck blocks", len(rp_calls) >= 1, pm.where,
           "PacketAck block IDs are forwarded untranslated")
    def name_consistent(e, pol, want="PacketAck"):
        """A test of `<msg>.name` against a constant whose known outcome is what it is for a PacketAck
        (`== "PacketAck"` true, `!= "PacketAck"` false, `== <other>` false ...): it does not narrow the rewrite."""
        if isinstance(e, ast.Compare) and len(e.ops) == 1 and isinstance(e.ops[0], (ast.Eq, ast.NotEq)):
            l, r = e.left, e.comparators[0]
            for a_, b_ in ((l, r), (r, l)):
                if (ap(a_) or "").endswith(".name") and isinstance(b_, ast.Constant) and isinstance(b_.value, str):
                    truth = (b_.value == want) if isinstance(e.ops[0], ast.Eq) else (b_.value != want)
                    return truth == pol
        return False
    is_pa = (name_consistent,)
    for f, c in rp_calls:
        bad = chain_guards(repo, pm_map, pm, f, c, extra=is_pa)
        ctx.ob("C05.R2", "ProxiedCircuit.prepare_message: PacketAck rewrite runs for every endpoint-originated PacketAck",
               not bad and name_fact(c, "PacketAck", f.node) is True, ctx.w(f, c), f"depends on {bad}")
    if rp is not None and rp_calls:
        rmsg = msg_param(rp)
        roles = pm_map.get(rp, Roles(selector_info(repo)))
        sz = Sanit(rp, roles, rmsg, roles_map=pm_map, repo=repo)
        installs = [st for st in stores(rp.node) if st.kind == "setitem" and is_const_sub(st.target, "Packets")
                    and ap(st.target.value) == rmsg]
        ctx.ob("C05.R2", "_rewrite_packet_ack installs the filtered block list", len(installs) >= 1, rp.where,
               "message[\"Packets\"] is never replaced: blocks acking injected packets stay in the PacketAck")
        for st in installs:
            lst = st.value
            ok, why = isinstance(lst, ast.Name), "installed value is not a local list"
            if ok:
                apps = [s for s in stores(rp.node) if s.path == lst.id and s.kind == "mutcall" and s.method in ("append", "add")]
                ok = bool(apps)
                why = "nothing is appended to the installed list"
                for a in apps:
                    blk = a.node.args[0] if a.node.args else None
                    idexpr = ast.Subscript(value=blk, slice=ast.Constant(value="ID"), ctx=ast.Load()) if blk is not None else None
                    guarded = blk is not None and any(
                        isinstance(e, ast.Call) and call_attr(e) == "was_injected" and not pol and e.args and
                        isinstance(e.func, ast.Attribute) and sz.rev(e.func.value) and sz._same_value(e.args[0], idexpr)
                        for e, pol in facts(a.node, rp.node))
                    if not guarded:
                        ok, why = False, f"`{norm(a.node)}` keeps a block without the `not was_injected(block ID)` guard"
            ctx.ob("C05.R2", "_rewrite_packet_ack keeps only blocks acking non-injected packets", ok, ctx.w(rp, st.node), why)
            if isinstance(lst, ast.Name):
                empt = [r for r in walk(rp.node) if isinstance(r, ast.Return) and isinstance(r.value, ast.Constant)
                        and r.value.value is False and path_fact(r, lst.id, rp.node) is False]
                ctx.ob("C05.R2", "_rewrite_packet_ack reports an emptied PacketAck (returns False)", len(empt) >= 1, rp.where,
                       "an all-injected PacketAck is not reported to the caller and goes out empty")
        # a return that leaves the ORIGINAL blocks in the message (no install on its path) is only safe when the
        # caller then refuses to send - which it does exactly when no appended ack survives either
        rcfg = CFG(rp.node)
        inst_nodes = [n for st in installs for n in rcfg.nodes_for(st.node)]
        unfiltered = rcfg.reachable([rcfg.entry], avoid=lambda n: n in inst_nodes)
        for r in [x for x in walk(rp.node) if isinstance(x, ast.Return)]:
            if not any(n in unfiltered for n in rcfg.nodes_for(r)):
                continue
            falsy = r.value is None or (isinstance(r.value, ast.Constant) and not r.value.value)
            ok = falsy and path_fact(r, f"{rmsg}.acks", rp.node) is False
            ctx.ob("C05.R2", f"{rp.name}: a return that leaves the original blocks in place happens only when no "
                             f"appended ack survives", ok, ctx.w(rp, r),
                   f"`{norm(r)}` is reached without installing the filtered block list and without knowing that "
                   f"{rmsg}.acks is empty: prepare_message still sends a PacketAck that carries surviving appended acks, "
                   f"with its original blocks - acks for proxy-injected packets, untranslated - reaching the endpoint")
        # caller does not send it: the function that asked for the rewrite returns False, and so does every
        # function between it and prepare_message
        for f, c in rp_calls:
            fmsg = msg_param(f)
            rets = [r for r in walk(f.node) if isinstance(r, ast.Return) and isinstance(r.value, ast.Constant)
                    and r.value.value is False and call_fact(r, rp_name, f.node) is False]
            ok_up, why_up = bool(rets), "emptied PacketAck is still sent"
            for chain in call_chains(repo, pm_map, pm, f):
                for caller, call in chain:
                    up = [r for r in walk(caller.node) if isinstance(r, ast.Return) and isinstance(r.value, ast.Constant)
                          and r.value.value is False and call_fact(r, call_attr(call), caller.node) is False]
                    if not up:
                        ok_up, why_up = False, f"{caller.qual} ignores the refusal of {call_attr(call)}"
            ctx.ob("C05.R2", "prepare_message returns False for a PacketAck left with no acks at all", ok_up, f.where, why_up)
            for r in rets:
                ctx.ob("C05.R2", "prepare_message refuses the PacketAck only when no appended ack survives either",
                       path_fact(r, f"{fmsg}.acks", f.node) is False, ctx.w(f, r),
                       "a PacketAck whose blocks were all injected but which still carries surviving appended acks is "
                       "suppressed: those acks never reach the endpoint")
    send = repo.fn("Circuit.send", BCIRC)
    sp = find_calls(send.node, "_send_prepared_message")
    ctx.floor("C05.R2", "Circuit.send transmissions", len(sp), 1)
    for c in sp:
        ctx.ob("C05.R2", "Circuit.send transmits only when prepare_message returned truthy",
               call_fact(c, "prepare_message", send.node) is True, ctx.w(send, c),
               "the refusal of prepare_message is ignored")
    ctx.floor("C05.R2", "ack sinks", n_sinks, 2)


# ============================================================================ R3 drop semantics

def r3(ctx):
    repo = ctx.repo
    ctx.rule("C05.R3", "drop semantics: the sender of a dropped packet is acked iff it was reliable, with the "
                       "untranslated id, in the inverse direction; piggy-backed acks are forwarded sanitised in the "
                       "packet's own direction")
    dm = repo.fn("ProxiedCircuit.drop_message")
    msg = msg_param(dm)
    dmap = tracker_roles(ctx, dm)
    roles = dmap.get(dm, Roles(selector_info(repo)))
    sz = Sanit(dm, roles, msg, roles_map=dmap, repo=repo)
    sa = repo.fn("Circuit.send_acks", BCIRC)
    sa_params = [a.arg for a in sa.node.args.args][1:]
    ctx.require(sa_params[:2] == ["to_ack", "direction"], "Circuit.send_acks signature changed (to_ack, direction, ...)")
    sender_acks, fwd_acks = [], []
    for fi in class_methods_reachable(repo, dm, depth=2):
        if fi.cls is None or fi.cls.name != "ProxiedCircuit":
            continue
        if fi is not dm and fi != dm:
            # helpers are followed for the ownership part only
            continue
        for c in find_calls(fi.node, "send_acks", into_defs=True):
            d = arg_of(c, 1, "direction")
            if d is not None and is_invert_of(d, f"{msg}.direction", dm.node):
                sender_acks.append(c)
            elif d is not None and ap(d) == f"{msg}.direction":
                fwd_acks.append(c)
            else:
                ctx.ob("C05.R3", f"drop_message: {norm(c)} direction is the packet's or its inverse", False, ctx.w(dm, c),
                       f"direction argument {norm(d) if d is not None else 'defaulted to Direction.OUT'} is "
                       f"independent of the dropped packet's direction")
    ctx.ob("C05.R3", "drop_message acks the sender (send_acks towards ~message.direction)", len(sender_acks) >= 1, dm.where,
           "a dropped reliable packet is never acknowledged to its sender, which retransmits it forever")
    for c in sender_acks:
        ids = arg_of(c, 0, "to_ack")
        if isinstance(ids, ast.Name):
            ids = single_assign(dm.node, ids.id) or ids
        okid = isinstance(ids, (ast.List, ast.Tuple)) and len(ids.elts) == 1 and ap(ids.elts[0]) == f"{msg}.packet_id"
        ctx.ob("C05.R3", "drop_message: sender ack carries exactly the packet's own (untranslated) id", okid, ctx.w(dm, c),
               f"acked ids are `{norm(ids) if ids is not None else None}`")
        rel = path_fact(c, f"{msg}.reliable", dm.node)
        ctx.ob("C05.R3", "drop_message: sender ack is control-dependent on message.reliable", rel is True, ctx.w(dm, c),
               "an ack is shown for a packet that was not sent reliably")
        bad = _guards_allowed(c, dm, msg, extra=(lambda e, pol: ap(e) == f"{msg}.reliable" and pol,))
        ctx.ob("C05.R3", "drop_message: sender ack depends on nothing but reliability", not bad, ctx.w(dm, c),
               f"additionally depends on {bad}")
    pid_stores = [st for st in stores(dm.node) if st.path == f"{msg}.packet_id"]
    ctx.ob("C05.R3", "drop_message leaves message.packet_id untranslated", not pid_stores, dm.where,
           "the id acked to the sender must be the one the sender used")
    ctx.ob("C05.R3", "drop_message forwards piggy-backed acks (send_acks towards message.direction)", len(fwd_acks) >= 1,
           dm.where, "acks riding on a dropped packet are lost")
    for c in fwd_acks:
        ids = arg_of(c, 0, "to_ack")
        ok, why = sz.sanitised(ids) if ids is not None else (False, "no ids")
        ctx.ob("C05.R2", "ProxiedCircuit.drop_message: forwarded piggy-backed acks are filtered and translated", ok,
               ctx.w(dm, c), why)

        def own_truthy(e, pol, ids=ids):
            return pol and isinstance(ids, ast.Name) and ap(e) == ids.id
        bad = _guards_allowed(c, dm, msg, extra=(own_truthy,))
        ctx.ob("C05.R3", "drop_message: piggy-backed acks are forwarded whether or not the packet was reliable", not bad,
               ctx.w(dm, c), f"forwarding depends on {bad}")
    # Direction.__invert__ really swaps (used by both ack directions)
    check_invert(ctx, "C05.R3")


def check_invert(ctx, rule):
    repo = ctx.repo
    from ..consteval import EnumVal, enum_members
    from ..miniinterp import run_block
    inv = repo.fn("Direction.__invert__")
    dcls = repo.cls("Direction", "hippolyzer/lib/base/network/transport.py")
    mem = enum_members(repo, dcls)
    ctx.require(set(mem) == {"OUT", "IN"}, f"Direction members changed: {sorted(mem)}")
    for m, other in (("OUT", "IN"), ("IN", "OUT")):
        ev = ConstEval(repo, inv.module)

        def hook(base, attr):
            if isinstance(base, EnumVal) and base.cls == "Direction" and attr in mem:
                return EnumVal("Direction", attr, mem[attr])
            return None
        ev.attr_hook = hook
        out = run_block(ev, inv.node.body, {"self": EnumVal("Direction", m, mem[m])})
        got = out.value if out.kind == "return" else None
        ctx.ob(rule, f"~Direction.{m} is Direction.{other}", isinstance(got, EnumVal) and got.name == other, inv.where,
               f"evaluates to {got!r}")


# ============================================================================ R4 unacked table

def insertion_sites(repo):
    """(function, store, call site in send or None, name of the message there): insertions into the unacked
    table in Circuit.send itself, or in the method (own / collaborator) send hands the message to."""
    send = repo.fn("Circuit.send", BCIRC)
    m = msg_param(send)
    ins = [(send, st, None, m) for st in stores(send.node) if is_table(repo, st.path) and st.kind == "setitem"]
    for c in calls(send.node, into_defs=False):
        callee = resolve_any_call(repo, send, c)
        if callee is None or callee == send:
            continue
        params = method_params(callee)
        cm = next((params[i] for i, a_ in enumerate(c.args) if i < len(params) and ap(a_) == m), None) or \
            next((k.arg for k in c.keywords if ap(k.value) == m), None)
        for st in stores(callee.node):
            if is_table(repo, st.path) and st.kind == "setitem":
                ins.append((callee, st, c, cm))
    return ins


TABLE_OWNERS = {
    "Circuit.__init__": {"assign"},
    "Circuit.disconnect": {"mutcall:clear", "assign"},
    "Circuit.send": {"setitem", "mutcall:pop", "delitem"},      # may take back its own registration when the send fails
    "Circuit.collect_acks": {"mutcall:pop"},
    "Circuit.resend_unacked": {"delitem", "mutcall:pop"},
}


def r4(ctx):
    repo = ctx.repo
    ctx.rule("C05.R4", "unacked table: inserted only by send for reliable synthetic packets after prepare_message; "
                       "every removal completes the future; both ack forms are collected; resends reuse the prepared "
                       "packet, are marked RESENT, and stop once the budget is spent")
    # owners by role: the five circuit methods, the collaborator methods they hand the job to, the
    # collaborator's constructor and the forwarding property's setter
    allowed: Dict[str, set] = {}
    ccls = repo.cls("Circuit", BCIRC)
    for q, kinds in TABLE_OWNERS.items():
        o = repo.fn(q, BCIRC)
        allowed.setdefault(o.full, set()).update(kinds)
        for c in calls(o.node, into_defs=True):
            callee = resolve_any_call(repo, o, c)
            if callee is not None and callee.module.rel == BCIRC and callee.name not in ("send", "_send_prepared_message",
                                                                                          "prepare_message", "send_datagram"):
                allowed.setdefault(callee.full, set()).update(kinds)
    fw = forwarded_field(repo, ccls, "unacked_reliable")
    if fw is not None:
        init = fw[0].methods.get("__init__")
        if init is not None:
            allowed.setdefault(init.full, set()).add("assign")
        for f in repo.all_funcs:
            if f.cls is not None and f.cls.name == "Circuit" and f.name == "unacked_reliable" and f.qual.endswith(".setter"):
                allowed.setdefault(f.full, set()).add("assign")
    n = 0
    for f, st in table_writers(repo):
        kind = st.kind + (f":{st.method}" if st.kind == "mutcall" else "")
        n += 1
        ok = kind in allowed.get(f.full, set())
        ctx.ob("C05.R4", f"{f.qual}: {kind} on the unacked table is an owner operation", ok, ctx.w(f, st.node),
               "unacked table written outside its owners (send inserts, collect_acks/resend_unacked remove, "
               "disconnect clears)")
    ctx.floor("C05.R4", "unacked-table writers", n, 4)

    send = repo.fn("Circuit.send", BCIRC)
    m = msg_param(send)
    ins = insertion_sites(repo)
    ctx.ob("C05.R4", "Circuit.send registers reliable proxy-originated packets for resend", len(ins) >= 1, send.where,
           "nothing is ever inserted into the unacked table: injected reliable packets are never retransmitted")
    for fn, st, via, cm in ins:
        levels = [(st.node, fn, cm)] + ([(via, send, m)] if via is not None else [])

        def known(suffix, want=True):
            return any(nm is not None and path_fact(nd, f"{nm}.{suffix}", f_.node) is want for nd, f_, nm in levels)
        key = st.target.slice
        okk = cm is not None and entry_key(repo, fn, key) == (f"{cm}.direction", f"{cm}.packet_id")
        ctx.ob("C05.R4", "Circuit.send: table key is (message.direction, message.packet_id)", okk, ctx.w(fn, st.node),
               f"key is {norm(key)}")
        ctx.ob("C05.R4", "Circuit.send: insertion requires message.reliable", known("reliable"),
               ctx.w(fn, st.node), "unreliable packets would be retransmitted")
        ctx.ob("C05.R4", "Circuit.send: insertion requires message.synthetic", known("synthetic"),
               ctx.w(fn, st.node), "endpoint-originated packets would be retransmitted by the proxy as well")
        ctx.ob("C05.R4", "Circuit.send: insertion happens after a successful prepare_message (final id known)",
               any(call_fact(nd, "prepare_message", f_.node) is True for nd, f_, _ in levels), ctx.w(fn, st.node))
        extra = [norm(e) for nd, f_, nm in levels for e, pol in facts(nd, f_.node)
                 if not (ap(e) in (f"{nm}.reliable", f"{nm}.synthetic") and pol)
                 and not (isinstance(e, ast.Call) and call_attr(e) == "prepare_message" and pol)]
        ctx.ob("C05.R4", "Circuit.send: insertion depends on nothing else", not extra, ctx.w(fn, st.node),
               f"additionally depends on {extra}")
        val = st.value
        if isinstance(val, ast.Name) and single_assign(fn.node, val.id) is not None:
            val = single_assign(fn.node, val.id)
        okv = isinstance(val, ast.Call) and call_attr(val) == "ReliableResendInfo" and \
            any(k.arg == "message" and ap(k.value) == cm for k in val.keywords) or \
            (isinstance(val, ast.Call) and call_attr(val) == "ReliableResendInfo" and len(val.args) >= 2 and ap(val.args[1]) == cm)
        ctx.ob("C05.R4", "Circuit.send: the entry remembers the prepared message itself", bool(okv), ctx.w(fn, st.node))

    check_collect_acks(ctx, "C05.R4")
    check_pairing(ctx, "C05.R4")
    check_resend(ctx, "C05.R4")

    # timer
    ar = repo.fn("InterceptingLLUDPProxyProtocol.attempt_resends")
    okt = timer_drives(repo, ar)
    ctx.ob("C05.R4", "attempt_resends drives resend_unacked for every region of the session, forever", okt, ar.where,
           "no periodic resend of unacknowledged injected packets")
    check_register_after_send(ctx, "C05.R4")
    check_region_calls_keep_table(ctx, "C05.R4")
    check_resend_survives(ctx, "C05.R4", ar, "attempt_resends")
    check_poll_ungated(ctx, "C05.R4", ar, "attempt_resends",
                       "CloseCircuit / DisableSimulator mark the circuit dead while it keeps forwarding and send_reliable() "
                       "keeps accepting packets, so reliable packets injected before or after that are neither "
                       "retransmitted nor given up on and their completion futures never fire")


def entry_key(repo, fi: FuncInfo, expr, depth=0) -> Optional[Tuple[str, str]]:
    """(direction path, id path) of an unacked-table key expression.  A local assigned once is resolved, a
    property of the entry object is expanded, and `<entry>.message` of an entry built in this function is
    replaced by the message it was built with."""
    if expr is None or depth > 4:
        return None
    if isinstance(expr, ast.Name):
        v = single_assign(fi.node, expr.id)
        return entry_key(repo, fi, v, depth + 1) if v is not None else None
    pair = None
    if isinstance(expr, ast.Tuple) and len(expr.elts) == 2 and all(ap(e) for e in expr.elts):
        pair = (ap(expr.elts[0]), ap(expr.elts[1]))
    elif isinstance(expr, ast.Attribute) and ap(expr.value):
        props = [g for g in repo.funcs.get(expr.attr, []) if g.module is fi.module and g.cls is not None
                 and any((ap(d) or "") == "property" for d in g.node.decorator_list)]
        if len(props) == 1:
            rets = [r for r in walk(props[0].node) if isinstance(r, ast.Return)]
            if len(rets) == 1 and isinstance(rets[0].value, ast.Tuple) and len(rets[0].value.elts) == 2:
                ps = [ap(e) for e in rets[0].value.elts]
                if all(p_ and p_.startswith("self.") for p_ in ps):
                    base = ap(expr.value)
                    pair = (base + ps[0][4:], base + ps[1][4:])
    elif isinstance(expr, ast.Call):
        # a one-expression helper (same-module function or method of the own class) that builds the key:
        # its result with the arguments substituted for the parameters
        callee = None
        if isinstance(expr.func, ast.Name):
            cands = [g for g in repo.funcs.get(expr.func.id, []) if g.module is fi.module and g.cls is None
                     and g.parent_fn is None]
            callee = cands[0] if len(cands) == 1 else None
        else:
            callee = resolve_method_call(repo, fi, expr)
        if callee is not None and callee != fi:
            rets = [r for r in walk(callee.node) if isinstance(r, ast.Return) and r.value is not None]
            params = method_params(callee) if not isinstance(expr.func, ast.Name) else [a.arg for a in callee.node.args.args]
            argmap = {params[i]: ap(a) for i, a in enumerate(expr.args) if i < len(params)}
            argmap.update({k.arg: ap(k.value) for k in expr.keywords if k.arg})
            if len(rets) == 1 and all(argmap.values()):
                inner = entry_key(repo, callee, rets[0].value, depth + 1)
                if inner is not None:
                    def sub(p_):
                        head, sep, rest = p_.partition(".")
                        return argmap[head] + sep + rest if head in argmap else p_
                    pair = (sub(inner[0]), sub(inner[1]))
    if pair is None:
        return None
    out = []
    for p_ in pair:
        head, _, rest = p_.partition(".message.")
        if rest and "." not in head:
            v = single_assign(fi.node, head)
            if isinstance(v, ast.Call):
                msgs = [ap(k.value) for k in v.keywords if k.arg == "message"]
                if len(msgs) == 1 and msgs[0]:
                    p_ = f"{msgs[0]}.{rest}"
        out.append(p_)
    return out[0], out[1]


class Emit:
    """One place where a retransmission leaves the resend loop: a `_send_prepared_message(x)` call, or a
    `yield x` of a generator whose consumer sends every item."""
    def __init__(self, node, msg):
        self.node, self.msg = node, msg
        self.args = [msg] if msg is not None else []


def inline_stmt_helpers(repo, fi: FuncInfo) -> FuncInfo:
    """fi with every statement `self.h(a, b)` - h a short method of the own class without return / yield, handed plain
    names or attribute paths - replaced by h's body, parameters substituted.  The per-entry work of a loop that
    was split into step methods reads like the unsplit loop again.  fi itself when nothing was inlined."""
    from ..core import set_parents
    done = [0]
    caller_names = {n.id for n in walk(fi.node) if isinstance(n, ast.Name)} | {a.arg for a in fi.node.args.args}

    def body_of(call):
        h = resolve_method_call(repo, fi, call)
        if h is None or h == fi or isinstance(h.node, ast.AsyncFunctionDef):
            return None
        if any(isinstance(x, (ast.Return, ast.Yield, ast.YieldFrom, ast.Await)) for x in walk(h.node)):
            return None
        stmts = [x for x in h.node.body if not (isinstance(x, ast.Expr) and isinstance(x.value, ast.Constant))]
        if not stmts or len(stmts) > 12 or call.keywords and any(k.arg is None for k in call.keywords):
            return None
        params = method_params(h)
        amap = {params[i]: a for i, a in enumerate(call.args) if i < len(params)}
        amap.update({k.arg: k.value for k in call.keywords if k.arg})
        if set(amap) != set(params) or any(ap(a) is None for a in amap.values()):
            return None
        rebound = {st.path for st in stores(h.node, into_defs=False) if "." not in st.path and "[" not in st.path}
        if rebound & (set(params) | caller_names):
            return None
        return [clone(x, lambda n: clone(amap[n.id]) if isinstance(n, ast.Name) and n.id in amap else None) for x in stmts]

    def rewrite(stmts):
        out = []
        for st in stmts:
            if isinstance(st, ast.Expr) and isinstance(st.value, ast.Call):
                b = body_of(st.value)
                if b is not None:
                    done[0] += 1
                    out.extend(b)
                    continue
            new = clone(st, lambda n: None)
            for fld in ("body", "orelse", "finalbody"):
                if isinstance(getattr(st, fld, None), list) and not isinstance(st, (ast.FunctionDef, ast.AsyncFunctionDef, ast.ClassDef)):
                    setattr(new, fld, rewrite(getattr(st, fld)))
            if isinstance(st, ast.Try):
                for hn, ho in zip(new.handlers, st.handlers):
                    hn.body = rewrite(ho.body)
            out.append(new)
        return out
    node = clone(fi.node, lambda n: None)
    node.body = rewrite(fi.node.body)
    if not done[0]:
        return fi
    ast.fix_missing_locations(node)
    set_parents(node)
    return FuncInfo(fi.name, fi.qual, fi.module, node, fi.cls, fi.parent_fn)


def resend_core(repo, cr: FuncInfo):
    """(function holding the loop over the unacked table, emits, consumer problems).  The loop may live in a
    generator (own method or collaborator) that resend_unacked iterates, sending each item."""
    def table_loops(f):
        return [n for n in walk(f.node) if isinstance(n, (ast.For, ast.AsyncFor))
                and any(is_table(repo, ap(x)) for x in ast.walk(n.iter) if isinstance(x, (ast.Attribute, ast.Name)))]
    if table_loops(cr):
        direct = [Emit(c, c.args[0] if c.args else None) for c in find_calls(cr.node, "_send_prepared_message", into_defs=False)]
        if direct:
            return cr, direct, [], None
        # the steps of the per-entry work (give up / resend) may be methods the loop body calls one after the other
        ci = inline_stmt_helpers(repo, cr)
        if ci is not cr:
            direct = [Emit(c, c.args[0] if c.args else None) for c in find_calls(ci.node, "_send_prepared_message", into_defs=False)]
            if direct:
                return ci, direct, [], None
        # the per-entry work (budget, give-up, resend) may be a helper that is handed the entry: one call of it
        # is one iteration of the loop, the conditions at the call site still dominate
        for loop in table_loops(cr):
            vars_ = {x.id for x in ast.walk(loop.target) if isinstance(x, ast.Name)}
            for c in calls(ast.Module(body=loop.body, type_ignores=[]), into_defs=False):
                h = resolve_any_call(repo, cr, c)
                if h is None or h == cr or not any(isinstance(a, ast.Name) and a.id in vars_ for a in c.args):
                    continue
                inner = [Emit(x, x.args[0] if x.args else None) for x in find_calls(h.node, "_send_prepared_message", into_defs=False)]
                if inner:
                    return h, inner, [], (cr, c)
        return cr, [], [], None
    problems = []
    for loop in [n for n in walk(cr.node) if isinstance(n, (ast.For, ast.AsyncFor)) and isinstance(n.iter, ast.Call)]:
        g = resolve_any_call(repo, cr, loop.iter)
        if g is None or not table_loops(g) or not any(isinstance(x, (ast.Yield, ast.YieldFrom)) for x in walk(g.node)):
            continue
        v = ap(loop.target)
        sent = [c for c in find_calls(ast.Module(body=loop.body, type_ignores=[]), "_send_prepared_message", into_defs=False)
                if c.args and ap(c.args[0]) == v and not facts(c, loop)]
        if not sent:
            problems.append(f"the items handed out by {g.qual} are not all sent through _send_prepared_message")
        if any(isinstance(x, ast.YieldFrom) for x in walk(g.node)):
            raise AnalysisError(f"{g.qual}: `yield from` in the resend generator is not supported")
        return g, [Emit(y, y.value) for y in walk(g.node) if isinstance(y, ast.Yield)], problems, None
    return cr, [], ["no loop over the unacked table (directly or through a generator)"], None


def check_resend(ctx, rule):
    repo = ctx.repo
    cr = repo.fn("Circuit.resend_unacked", BCIRC)
    ru, sends, problems, outer = resend_core(repo, follow_delegate(repo, cr))
    for pr in problems:
        ctx.ob(rule, "Circuit.resend_unacked sends what the resend loop hands out", False, cr.where, pr)
    cfg = CFG(ru.node)
    if ru != cr:
        for c in calls(cr.node, into_defs=True):
            f = c.func
            if isinstance(f, ast.Attribute) and isinstance(f.value, ast.Name) and f.value.id == "self" and \
                    f.attr in ("send", "prepare_message", "send_reliable", "send_acks"):
                ctx.ob(rule, f"Circuit.resend_unacked: {norm(c)} re-prepares the packet", False, ctx.w(cr, c),
                       "a retransmission must go out through _send_prepared_message with its id unchanged")
    # forbidden re-preparation
    for c in calls(ru.node, into_defs=True):
        f = c.func
        if isinstance(f, ast.Attribute) and isinstance(f.value, ast.Name) and f.value.id == "self" and \
                f.attr in ("send", "prepare_message", "send_reliable", "send_acks"):
            ctx.ob(rule, f"Circuit.resend_unacked: {norm(c)} re-prepares the packet", False, ctx.w(ru, c),
                   "a retransmission must go out through _send_prepared_message with its id unchanged; send() "
                   "allocates/translates a new id and re-registers the packet")
    ctx.ob(rule, "Circuit.resend_unacked re-emits through _send_prepared_message", len(sends) >= 1, ru.where,
           "unacknowledged packets are never retransmitted")
    pid = [st for st in stores(ru.node) if st.path.endswith(".packet_id")]
    ctx.ob(rule, "Circuit.resend_unacked keeps the packet id", not pid, ru.where, "packet_id is rewritten before the resend")
    loops = [n for n in walk(ru.node) if isinstance(n, (ast.For, ast.AsyncFor))
             and any(is_table(repo, ap(x)) for x in ast.walk(n.iter) if isinstance(x, (ast.Attribute, ast.Name)))]
    if outer is None:
        ctx.require(len(loops) == 1, "resend_unacked: expected exactly one loop over the unacked table")
        head = cfg.nodes_for(loops[0])
        ctx.require(bool(head), "resend_unacked: loop head not in CFG")
    else:
        head = [cfg.entry]       # one call of the per-entry helper is one iteration
    send_nodes = [n for c in sends for n in cfg_nodes(cfg, c.node)]
    for c in sends:
        sent = c.args[0] if c.args else None
        sname = ap(sent) if sent is not None else None
        marks = [st for st in stores(ru.node) if st.kind == "augassign" and isinstance(st.node.op, ast.BitOr)
                 and st.path == f"{sname}.send_flags" and (ap(st.value) or "").endswith("PacketFlags.RESENT")]
        mark_nodes = [n for st in marks for n in cfg.nodes_for(st.node)]
        reach = cfg.reachable(head, avoid=lambda n: n in mark_nodes)
        ok = bool(marks) and not any(n in reach for n in cfg_nodes(cfg, c.node))
        ctx.ob(rule, "Circuit.resend_unacked: every retransmission carries PacketFlags.RESENT", ok, ctx.w(ru, c.node),
               "a path reaches the resend without `send_flags |= PacketFlags.RESENT` on the message being sent")
        # the message sent is the entry's message (copy)
        origin = single_assign(ru.node, sname) if sname and "." not in sname else sent
        txt = src(origin) if origin is not None else ""
        ctx.ob(rule, "Circuit.resend_unacked resends the entry's own message", ".message" in txt, ctx.w(ru, c.node),
               f"resent message comes from `{txt}`")
    # cadence: the resend is held back by a test on the time elapsed since last_resent, over the full duration
    def expand(e, depth=0, fn=None):
        """e with local names (assigned once) replaced by their values and calls of predicate methods of the
        entry class (same module) replaced by what they return, as a list of sub-expressions to inspect."""
        fn = fn or ru
        out = [e]
        if depth < 4:
            for n in ast.walk(e):
                if isinstance(n, ast.Name):
                    v = single_assign(fn.node, n.id)
                    if v is not None:
                        out.extend(expand(v, depth + 1, fn))
                elif isinstance(n, ast.Call) and isinstance(n.func, ast.Attribute):
                    cands = [g for g in repo.funcs.get(n.func.attr, []) if g.module is ru.module and g.cls is not None]
                    if len(cands) == 1 and cands[0] != ru:
                        for r in walk(cands[0].node):
                            if isinstance(r, ast.Return) and r.value is not None:
                                out.extend(expand(r.value, depth + 1, cands[0]))
        return out
    for c in sends:
        tests = []
        conds = [(cond, ru) for cond in conditions(c.node, ru.node)]
        if outer is not None:
            conds += [(cond, outer[0]) for cond in conditions(outer[1], outer[0].node)]
        for cond, cf in conds:
            parts = expand(cond.test, 0, cf)
            if any("last_resent" in src(p_) for p_ in parts):
                tests.append((cond, parts))
        ctx.ob(rule, "Circuit.resend_unacked: a retransmission waits for the time elapsed since last_resent", bool(tests),
               ctx.w(ru, c.node), "no dominating test on last_resent: every timer tick retransmits every unacked packet")
        for cond, parts in tests:
            comps = sorted({n.attr for p_ in parts for n in ast.walk(p_) if isinstance(n, ast.Attribute)
                            and n.attr in ("seconds", "microseconds", "days") and isinstance(n.ctx, ast.Load)})
            ctx.ob(rule, "Circuit.resend_unacked: the cadence test compares the full elapsed duration", not comps,
                   ctx.w(ru, cond.test),
                   f"uses the timedelta component(s) {comps} of the elapsed time: `.seconds` is the whole-second "
                   f"remainder modulo one day (fractional cadences fire late, an entry older than a day looks fresh); "
                   f"compare timedeltas or use total_seconds()")
            ctx.ob(rule, "Circuit.resend_unacked: the cadence test uses the configured resend_every",
                   any("resend_every" in src(p_) for p_ in parts), ctx.w(ru, cond.test),
                   "the hold-back interval is not the circuit's resend_every")
    stamps = [st for st in stores(ru.node) if st.path.endswith(".last_resent")]
    # elapsed time is not measured with naive local wall-clock time (`datetime.now()` without a tz): the difference
    # of two such values is not elapsed time across a UTC-offset change (DST)
    def naive_now(e, fn, depth=0):
        out = []
        for n in ast.walk(e):
            if not isinstance(n, ast.Call):
                continue
            p_ = ap(n.func) or ""
            if p_.split(".")[-2:] == ["datetime", "now"] and not n.args and not n.keywords:
                out.append(norm(n))
            elif depth < 2 and not n.args and not n.keywords:
                g = None
                if isinstance(n.func, ast.Name):
                    cands = [x for x in repo.funcs.get(n.func.id, []) if x.module is fn.module and x.cls is None and x.parent_fn is None]
                    g = cands[0] if len(cands) == 1 else None
                else:
                    g = resolve_any_call(repo, fn, n)
                if g is not None and g != fn:
                    for r_ in walk(g.node):
                        if isinstance(r_, ast.Return) and r_.value is not None:
                            out.extend(naive_now(r_.value, g, depth + 1))
        return out
    for c in sends:
        conds_ = [(cond, ru) for cond in conditions(c.node, ru.node)] + \
            ([(cond, outer[0]) for cond in conditions(outer[1], outer[0].node)] if outer is not None else [])
        for cond, cf in conds_:
            parts = expand(cond.test, 0, cf)
            if any("last_resent" in src(p_) for p_ in parts):
                bad = sorted({x for p_ in parts for x in naive_now(p_, cf)})
                ctx.ob(rule, "Circuit.resend_unacked: the cadence test does not read naive local time", not bad, ctx.w(cf, cond.test),
                       f"elapsed time is computed from {bad}: naive local datetimes; when the UTC offset changes (end of DST) "
                       f"the difference is off by the offset and no resend / give-up happens for that long")
    for st in stamps:
        bad = naive_now(st.value, ru) if st.value is not None else []
        ctx.ob(rule, "Circuit.resend_unacked: last_resent is not restarted with naive local time", not bad, ctx.w(ru, st.node),
               f"stamped with {bad}")
    for fn_, st_i, _via, _cm in insertion_sites(repo):
        val_ = st_i.value
        if isinstance(val_, ast.Name) and single_assign(fn_.node, val_.id) is not None:
            val_ = single_assign(fn_.node, val_.id)
        lr = next((k.value for k in val_.keywords if k.arg == "last_resent"), None) if isinstance(val_, ast.Call) else None
        if lr is None and isinstance(val_, ast.Call) and val_.args:
            lr = val_.args[0]
        if lr is not None:
            bad = naive_now(lr, fn_)
            ctx.ob(rule, "Circuit.send: last_resent is not stamped with naive local time", not bad, ctx.w(fn_, st_i.node),
                   f"stamped with {bad}")
    stamp_nodes = [n for st in stamps for n in cfg.nodes_for(st.node)]
    reach_s = cfg.reachable(head, avoid=lambda n: n in stamp_nodes)
    ctx.ob(rule, "Circuit.resend_unacked: every retransmission restarts the interval (last_resent updated)",
           bool(stamps) and not any(n in reach_s for n in send_nodes), ru.where,
           "a path resends without updating last_resent: the packet is retransmitted on every tick afterwards")
    # the scan visits every entry: the table is ordered by first send, not by last_resent, so an entry that is
    # not due says nothing about the entries after it
    if outer is None and loops:
        lp = loops[0]
        early = [x for x in walk(ast.Module(body=lp.body, type_ignores=[]))
                 if isinstance(x, (ast.Break, ast.Return))
                 and not any(isinstance(a_, (ast.For, ast.AsyncFor, ast.While)) and a_ is not lp and any(b_ is lp for b_ in ancestors(a_))
                             for a_ in ancestors(x))]
        ctx.ob(rule, "Circuit.resend_unacked: the scan over the unacked table has no early exit", not early,
               ctx.w(ru, early[0]) if early else ru.where,
               f"`{norm(early[0]) if early else ''}` leaves the loop over the unacked table: entries behind a not-yet-due "
               f"(or given-up) entry are not looked at in this pass, their retransmission is late by up to a full interval")
    # budget
    decs = [st for st in stores(ru.node) if st.kind == "augassign" and isinstance(st.node.op, ast.Sub)
            and st.path.endswith(".tries_left")]
    okd = bool(decs) and all(isinstance(st.value, ast.Constant) and isinstance(st.value.value, int) and st.value.value > 0
                             for st in decs)
    ctx.ob(rule, "Circuit.resend_unacked spends one unit of the retry budget per attempt", okd, ru.where,
           "tries_left is not decremented by a positive constant: the budget never runs out")
    dec_nodes = [n for st in decs for n in cfg.nodes_for(st.node)]
    reach = cfg.reachable(head, avoid=lambda n: n in dec_nodes)
    ctx.ob(rule, "Circuit.resend_unacked: no retransmission without spending budget",
           not any(n in reach for n in send_nodes), ru.where, "a path resends without decrementing tries_left")
    # removal sites of the give-up branch: a del / pop in the loop, or a call of a helper that removes the entry
    # keyed by the argument (and completes its future)
    class Rem:
        def __init__(self, node, key, helper=None, hstore=None, bad=()):
            self.node, self.key, self.helper, self.hstore, self.bad = node, key, helper, hstore, list(bad)
    removals = [Rem(st.node, st.target.slice if st.kind == "delitem" else (st.node.args[0] if st.node.args else None))
                for st in stores(ru.node) if is_table(repo, st.path)
                and (st.kind == "delitem" or (st.kind == "mutcall" and st.method == "pop"))]
    removals += [Rem(c_, arg, h_, st_h, bad) for c_, h_, st_h, arg, bad in removal_helpers(repo, ru)]
    exhausted = [r_ for r_ in removals if any("tries_left" in src(e) for e, pol in facts(r_.node, ru.node))]
    ctx.ob(rule, "Circuit.resend_unacked gives up (removes the entry) when the budget is spent", len(exhausted) >= 1,
           ru.where, "no removal guarded by tries_left: the packet is retransmitted forever or its future never fails")
    for st in exhausted:
        key = st.key
        ek = entry_key(repo, ru, key)
        okk = ek is not None and ek[0].endswith(".direction") and ek[1].endswith(".packet_id")
        ctx.ob(rule, "Circuit.resend_unacked: give-up removes the (direction, packet_id) key of the entry", okk,
               ctx.w(ru, st.node), f"key is {norm(key) if key is not None else None}")
        rn = [n for n in cfg.nodes_for(enclosing_stmt(st.node))]
        reach2 = cfg.reachable(rn, avoid=lambda n: n in head)
        ctx.ob(rule, "Circuit.resend_unacked: nothing is sent for an entry after giving up on it",
               not any(n in reach2 for n in send_nodes), ctx.w(ru, st.node),
               "the exhausted entry is still retransmitted after its completion signal fired")
        if st.helper is None:
            exc = [c for c in find_calls(ru.node, "set_exception") if _in_same_block(enclosing_stmt(st.node), c)]
            # the removal comes first: completing the future can raise (cancelled / already done future), and then
            # the entry must already be gone
            comp_nodes = [n for c in exc for n in cfg_nodes(cfg, c)]
            after_comp = cfg.reachable(comp_nodes, avoid=lambda n: n in head)
            ordered = not any(n in after_comp for n in rn)
            dep = [("" if pol else "not ") + norm(e) for e, pol in facts(st.node, ru.node) if ".completed" in src(e)]
            uncond = not dep
            why_c = f"the removal additionally depends on {dep}"
        else:
            hcfg = CFG(st.helper.node)
            exc = find_calls(st.helper.node, "set_exception")
            hrn = hcfg.nodes_for(enclosing_stmt(st.hstore.node))
            comp_nodes = [n for c in exc + find_calls(st.helper.node, "set_result") for n in cfg_nodes(hcfg, c)]
            ordered = not any(n in hcfg.reachable(comp_nodes) for n in hrn)
            uncond = not st.bad
            why_c = f"the removal in {st.helper.qual} additionally depends on {st.bad}"
        ctx.ob(rule, "Circuit.resend_unacked: the exhausted entry is removed before its future is completed",
               ordered, ctx.w(ru, st.node),
               "set_exception runs before the removal: on a cancelled / already completed future it raises, the entry "
               "stays in the table with a spent budget and is retransmitted forever")
        ctx.ob(rule, "Circuit.resend_unacked: the exhausted entry is removed whatever state its future is in", uncond,
               ctx.w(ru, st.node), why_c + ": an entry whose awaiter was cancelled is never removed and is "
               "retransmitted forever")
        ctx.ob(rule, "Circuit.resend_unacked: budget exhaustion fails the send (set_exception)", len(exc) >= 1,
               ctx.w(ru, st.node), "the completion future is not failed when the budget is spent")


EMIT_NAMES = ("_send_prepared_message", "send_datagram")


def exc_walk(cfg: CFG, nodes, avoid=lambda n: False) -> set:
    """CFG nodes an exception raised by one of the statement nodes can lead to: its handlers' bodies and what
    follows them (normal edges only - that a handler may fail itself is not the point), outward through a
    dispatch node whose handlers do not catch everything and through a finally, which runs and passes it on."""
    seen = set()
    stack = [(s_, False) for n in nodes for s_ in n.exc_succs]
    while stack:
        n, fin = stack.pop()
        if (n, fin) in seen or avoid(n):
            continue
        seen.add((n, fin))
        fin = fin or (n.label or "").startswith("finally[exc]")
        for s_ in n.succs:
            stack.append((s_, fin))
        if fin or (n.kind == "handler" and n.label == "dispatch") or isinstance(n.ast, ast.Raise):
            for s_ in n.exc_succs:
                stack.append((s_, fin and not (s_.kind == "handler" and s_.label == "dispatch")))
    return {n for n, _ in seen}


def check_register_after_send(ctx, rule):
    """A packet that could not be serialized / handed to the transport was never on the wire: no ack can ever
    arrive for it, so it must not stay in the unacked table (every resend pass would trip over it again)."""
    repo = ctx.repo
    send = repo.fn("Circuit.send", BCIRC)
    cfg = CFG(send.node)
    emits = [c for c in calls(send.node, into_defs=False) if call_attr(c) in EMIT_NAMES]
    for c in calls(send.node, into_defs=False):
        if call_attr(c) in EMIT_NAMES or call_attr(c) in ("send", "send_reliable", "send_acks"):
            continue
        h = resolve_any_call(repo, send, c)
        if h is not None and h != send and h.module.rel == BCIRC and \
                any(call_attr(x) in EMIT_NAMES for x in calls(h.node, into_defs=False)):
            emits.append(c)
    ctx.require(bool(emits), "Circuit.send: no call that hands the prepared message to the transport found")
    removals = [n for st in stores(send.node) if is_table(repo, st.path) and
                (st.kind in ("delitem", "del") or (st.kind == "mutcall" and st.method in ("pop", "clear", "popitem")))
                for n in cfg.nodes_for(st.node) or cfg_nodes(cfg, st.node)]
    removals += [n for rh in removal_helpers(repo, send) for n in cfg_nodes(cfg, rh[0])]
    for fn, st, via, cm in insertion_sites(repo):
        site = via if via is not None else st.node
        ins_nodes = cfg_nodes(cfg, site)
        after = cfg.reachable(ins_nodes, exc=False)
        late = [n for e in emits for n in cfg_nodes(cfg, e) if n in after and n not in ins_nodes]
        leak = cfg.raise_exit in exc_walk(cfg, late, avoid=lambda n: n in removals) if late else False
        ctx.ob(rule, "Circuit.send: a packet whose send failed is not left in the unacked table", not leak,
               ctx.w(fn, st.node),
               "the packet is registered before it is serialized and handed to the transport and nothing removes it when "
               "that raises: a packet that was never on the wire waits for an ack forever, every resend pass fails on "
               "it again and skips the entries behind it")


def check_region_calls_keep_table(ctx, rule):
    """What the packet handler does to a region because of the traffic it forwards (mark_dead on CloseCircuit /
    DisableSimulator, ...) must not drop the circuit's unacked table: the circuit keeps forwarding, the entries'
    futures would never complete and nothing would be retransmitted (only disconnect(), the proxy's own
    teardown, clears it)."""
    repo = ctx.repo
    hp = repo.fn("InterceptingLLUDPProxyProtocol.handle_proxied_packet")
    rvar = lookup_var(hp, "region_by_circuit_addr")
    rcls = repo.cls("ProxiedRegion")
    fns = [hp] + [f for f in class_methods_reachable(repo, hp, depth=2) if f != hp and f.cls is not None and f.cls == hp.cls]
    n = 0
    for f in fns:
        for c in calls(f.node, into_defs=False):
            fu = c.func
            if not (isinstance(fu, ast.Attribute) and isinstance(fu.value, ast.Name) and
                    (fu.value.id == rvar or fu.value.id == "region")):
                continue
            m = repo.lookup_method(rcls, fu.attr)
            if m is None:
                continue
            n += 1
            seen, todo, bad = set(), [m], []
            while todo and len(seen) < 12:
                g = todo.pop()
                if g.full in seen:
                    continue
                seen.add(g.full)
                for st in stores(g.node, into_defs=False):
                    if is_table(repo, st.path) and (st.kind in ("assign", "delitem", "del") or
                                                    (st.kind == "mutcall" and st.method in ("clear", "pop", "popitem"))):
                        bad.append(f"{g.qual}: {norm(st.node)}")
                for c2 in calls(g.node, into_defs=False):
                    f2 = c2.func
                    if isinstance(f2, ast.Attribute) and f2.attr == "disconnect" and (ap(f2.value) or "").endswith("circuit"):
                        bad.append(f"{g.qual}: {norm(c2)}")
                    # super().m() / self.m(): stay inside the region classes
                    if isinstance(f2, ast.Attribute) and g.cls is not None and \
                            ((isinstance(f2.value, ast.Call) and ap(f2.value.func) == "super") or ap(f2.value) == "self"):
                        for k in repo.mro(g.cls):
                            if f2.attr in k.methods and k.methods[f2.attr].full not in seen:
                                todo.append(k.methods[f2.attr])
            ctx.ob(rule, f"handle_proxied_packet: {norm(c)} leaves the circuit's unacked table alone", not bad, ctx.w(f, c),
                   f"{bad}: the circuit object keeps forwarding after CloseCircuit / DisableSimulator, but the reliable packets the "
                   f"proxy injected on it are forgotten - never retransmitted, their completion futures never fire (and "
                   f"packet_id_base restarts under a live translation state)")
    ctx.stats[f"{rule}.region calls checked for table loss"] = n


def timer_polls(repo, timer: FuncInfo):
    """[(function holding the `<circuit>.resend_unacked()` call, that call, call in the timer coroutine through which
    it is reached or None)]: the poll may sit in the timer itself or in a synchronous pass method of its class."""
    out = [(timer, c, None) for c in find_calls(timer.node, "resend_unacked")]
    for hc in calls(timer.node, into_defs=False):
        h = resolve_method_call(repo, timer, hc)
        if h is None or h == timer:
            continue
        inner = find_calls(h.node, "resend_unacked")
        if not inner:
            for hc2 in calls(h.node, into_defs=False):
                h2 = resolve_method_call(repo, h, hc2)
                if h2 is not None and h2 not in (h, timer) and find_calls(h2.node, "resend_unacked"):
                    h, inner = h2, find_calls(h2.node, "resend_unacked")
                    break
        out.extend((h, c, hc) for c in inner)
    return out


def timer_drives(repo, timer: FuncInfo) -> bool:
    """Some poll runs for every region of the session (for loop over session.regions around the call) on every
    turn of the timer's loop (the call, or the pass method holding it, sits in a while loop of the timer)."""
    for f, c, via in timer_polls(repo, timer):
        in_for = any(isinstance(a, (ast.For, ast.AsyncFor)) and (ap(a.iter) or "").endswith("session.regions") for a in ancestors(c))
        top = via if via is not None else c
        in_while = any(isinstance(a, ast.While) for a in ancestors(top))
        if in_for and in_while:
            return True
    return False


def check_resend_survives(ctx, rule, timer: FuncInfo, label: str):
    """An exception out of one retransmission (serializer, transport) is contained somewhere between the
    emitting call and the timer loop, and the timer loop goes on."""
    repo = ctx.repo
    cr0 = repo.fn("Circuit.resend_unacked", BCIRC)
    cr = follow_delegate(repo, cr0)
    ru, sends, _problems, outer = resend_core(repo, cr)
    levels = []
    if sends and all(isinstance(e.node, ast.Yield) for e in sends):
        levels.append((cr, find_calls(cr.node, "_send_prepared_message", into_defs=False), False))
    else:
        levels.append((ru, [e.node for e in sends], False))
    if outer is not None:
        levels.append((outer[0], [outer[1]], False))
    if cr != cr0:
        levels.append((cr0, list(calls(cr0.node, into_defs=False)), False))
    polls = timer_polls(repo, timer)
    for f_, c_, via_ in polls:
        if via_ is not None:
            levels.append((f_, [c_], False))
    levels.append((timer, [via_ if via_ is not None else c_ for _f, c_, via_ in polls], True))
    contained = False
    for f, cs, is_timer in levels:
        if not cs:
            continue
        cfg = CFG(f.node)
        nodes = [n for c in cs for n in cfg_nodes(cfg, c)]
        if not nodes:
            continue
        seen = exc_walk(cfg, nodes)
        if cfg.raise_exit in seen:
            continue
        if is_timer and not any(n in seen for n in nodes):
            continue            # caught outside the polling loop: the task is over all the same
        contained = True
        break
    ctx.ob(rule, f"{label}: an exception out of one retransmission does not end the resend task", contained, timer.where,
           "a retransmission that fails to serialize or to go out raises through resend_unacked into the timer "
           "coroutine, which has no handler: the only task driving retransmission and budget expiry ends, no packet "
           "sent reliably afterwards is retransmitted and no completion future fails")


def _alive_names(repo, attrs) -> set:
    out = {"is_alive"} & set(attrs)
    for a in attrs:
        for f in repo.funcs.get(a, []):
            if f.cls is not None and any(ap(d) == "property" for d in f.node.decorator_list) and \
                    any(isinstance(n, ast.Attribute) and n.attr == "is_alive" for n in walk(f.node)):
                out.add(a)
    return out


def check_poll_ungated(ctx, rule, timer: FuncInfo, label: str, why: str):
    """The periodic resend_unacked poll does not depend on the circuit being marked alive (it may depend on the
    table still holding something)."""
    repo = ctx.repo
    tn = set(table_names(repo))

    def parts_of(e, depth=0, fn=None):
        fn = fn or timer
        out = [e]
        if depth < 3:
            for n in ast.walk(e):
                if isinstance(n, ast.Name):
                    v = single_assign(fn.node, n.id)
                    if v is not None:
                        out.extend(parts_of(v, depth + 1, fn))
        return out
    for f_, c, via in timer_polls(repo, timer):
        gated = []
        for e, pol in facts(c, f_.node) + (facts(via, timer.node) if via is not None else []):
            attrs = {n.attr for p_ in parts_of(e, 0, f_) for n in ast.walk(p_) if isinstance(n, ast.Attribute)}
            if _alive_names(repo, attrs) and not (attrs & tn):
                gated.append(("" if pol else "not ") + norm(e))
        ctx.ob(rule, f"{label}: resend_unacked is polled whether or not the circuit is marked alive", not gated,
               ctx.w(f_, c), f"the poll depends on {gated}: {why}")


def _in_same_block(stmt, node) -> bool:
    blk, _ = _block_of(stmt)
    return blk is not None and any(any(x is node for x in ast.walk(s)) for s in blk)


# ============================================================================ R5 collect before forwarding

def try_contexts_of(node) -> list:
    """The ast.Try statements in whose *body* node lies (innermost first)."""
    from ..core import try_contexts
    return [tc.node for tc in try_contexts(node) if tc.section == "body"]


def parsed_message_vars(repo, fi: FuncInfo) -> set:
    """Locals of fi that hold the message decoded from this datagram: assigned from `*.deserialize(...)`, or
    from a helper of the own class that returns such a local."""
    out = set()
    for st in stores(fi.node, into_defs=False):
        if st.kind != "assign" or not isinstance(st.value, ast.Call) or not ap(st.target):
            continue
        if call_attr(st.value) == "deserialize":
            out.add(ap(st.target))
            continue
        h = resolve_method_call(repo, fi, st.value)
        if h is not None and h != fi:
            inner = parsed_message_vars(repo, h)
            rets = [r for r in walk(h.node) if isinstance(r, ast.Return) and r.value is not None]
            if rets and all(ap(r.value) in inner for r in rets):
                out.add(ap(st.target))
    return out


def r5(ctx):
    repo = ctx.repo
    ctx.rule("C05.R5", "ack collection precedes forwarding: every path of handle_proxied_packet to a handler, the "
                       "addon dispatch, a drop or the final send passes region.circuit.collect_acks(message)")
    hp = repo.fn("InterceptingLLUDPProxyProtocol.handle_proxied_packet")
    cfg = CFG(hp.node)
    collects = find_calls(hp.node, "collect_acks", into_defs=False)
    ctx.ob("C05.R5", "handle_proxied_packet collects acks", len(collects) >= 1, hp.where,
           "acks for proxy-injected packets are never consumed by the proxy")
    msgs = parsed_message_vars(repo, hp)
    for c in collects:
        ctx.ob("C05.R5", "collect_acks receives the parsed message of this datagram",
               bool(c.args) and ap(c.args[0]) in msgs, ctx.w(hp, c), f"argument {norm(c.args[0]) if c.args else None}")
        recv = resolve_path(hp.node, c.func.value) if isinstance(c.func, ast.Attribute) else None
        ctx.ob("C05.R5", "collect_acks runs on the circuit the datagram belongs to",
               recv == f"{lookup_var(hp, 'region_by_circuit_addr')}.circuit", ctx.w(hp, c), f"receiver {recv}")
    cn = [n for c in collects for n in cfg_nodes(cfg, c)]
    reach = cfg.reachable([cfg.entry], avoid=lambda n: n in cn)
    # the UDP-ban refusal: a received packet's acks are real even when its message is not passed on
    from ..core import handler_names, handler_catches_all
    refusals = []       # (node in hp that raises the refusal, raised class name or None, description)
    for c in calls(hp.node, into_defs=False):
        h = resolve_method_call(repo, hp, c)
        if h is not None and h != hp and find_calls(h.node, "validate_udp_msg", into_defs=False):
            raised = [x for x in walk(h.node) if isinstance(x, ast.Raise)]
            if raised:
                exc = raised[0].exc
                cname = call_attr(exc) if isinstance(exc, ast.Call) else (ap(exc) or "").split(".")[-1] if exc is not None else None
                refusals.append((c, cname, norm(c)))
    for x in walk(hp.node):
        if isinstance(x, ast.Raise) and any(isinstance(e, ast.Call) and call_attr(e) == "validate_udp_msg" and not pol
                                            for e, pol in facts(x, hp.node)):
            refusals.append((x, None, norm(x)))
    msgs_ = parsed_message_vars(repo, hp)
    for node, cname, desc in refusals:
        nn = cfg.nodes_for(node) if isinstance(node, ast.stmt) else cfg_nodes(cfg, node)
        ctx.ob("C05.R5", "handle_proxied_packet: the UDP-ban refusal comes after collect_acks", not any(n in reach for n in nn),
               ctx.w(hp, node), f"`{desc}` can refuse the packet before its acks were collected: acks appended to a "
               f"UDP-banned packet are lost (an acked injected packet is retransmitted until its budget runs out)")

        def drops_first(stmts):
            for s_ in stmts:
                if any(call_attr(c_) == "drop_message" and c_.args and ap(c_.args[0]) in msgs_ for c_ in calls(s_, into_defs=False)):
                    return True
                if isinstance(s_, (ast.Raise, ast.Return)):
                    return False
            return False
        through_drop = False
        if isinstance(node, ast.Raise):
            blk, _ = _block_of(node)
            through_drop = blk is not None and drops_first(blk)
        else:
            for tc in try_contexts_of(node):
                for h_ in tc.handlers:
                    if handler_catches_all(h_) or (cname is not None and cname in handler_names(h_)):
                        through_drop = through_drop or drops_first(h_.body)
        ctx.ob("C05.R5", "handle_proxied_packet: a refused (UDP-banned) packet is discarded through drop_message",
               through_drop, ctx.w(hp, node),
               f"the refusal `{desc}` leaves handle_proxied_packet without drop_message(message): the piggy-backed acks "
               f"of the refused packet never reach the endpoint they are meant for and its sender is never acked")

    def is_target(c):
        a = call_attr(c)
        p = ap(c.func) or ""
        return (a == "handle" and p.endswith("message_handler.handle")) or a in ("handle_lludp_message", "drop_message") \
            or (a in ("send", "send_reliable") and p.endswith("circuit." + a))
    # (node in handle_proxied_packet, the dispatch call itself): stage helpers of the protocol class are followed
    targets = [(c, c) for c in calls(hp.node, into_defs=False) if is_target(c)]
    for hc in calls(hp.node, into_defs=False):
        h = resolve_method_call(repo, hp, hc)
        if h is not None and h != hp:
            targets.extend((hc, c) for c in calls(h.node, into_defs=False) if is_target(c))
    ctx.floor("C05.R5", "forwarding/dispatch sites", len(targets), 3)
    for at, c in targets:
        bad = [n for n in cfg_nodes(cfg, at) if n in reach]
        ctx.ob("C05.R5", f"handle_proxied_packet: {norm(c)} is preceded by collect_acks on every path", not bad,
               ctx.w(hp, at), "reachable without collecting the datagram's acks (prepare_message strips acks for "
               "injected packets afterwards, so they are lost)")


# ============================================================================ R6 early exits of the translation loops

def _iter_base(it):
    base = it
    while isinstance(base, ast.Call) and base.args:
        base = base.args[0]
    while isinstance(base, ast.Subscript):
        base = base.value
    return base


def r6(ctx):
    repo = ctx.repo
    ctx.rule("C05.R6", "ack translation counts every injection: a loop over the (ascending) injection deque may leave "
                       "early only in the direction its iteration order justifies")
    ctx.assume("InjectionTracker.injections is strictly ascending (C04.R1)")
    n = 0
    for q in ("InjectionTracker.get_original_id", "InjectionTracker.get_effective_id"):
        fi0 = repo.fn(q)
        def is_inj(f_, e_):
            return (resolve_path(f_.node, _iter_base(e_)) or "").endswith(".injections")
        found = [(fi0, loop) for loop in walk(fi0.node, into_defs=True)
                 if isinstance(loop, (ast.For, ast.AsyncFor)) and is_inj(fi0, loop.iter)]
        # the walk may live in a helper (method or module-level function) that is handed self.injections
        from .common import module_funcs_reachable
        for g in module_funcs_reachable(repo, fi0, depth=2):
            if g == fi0:
                continue
            gparams = [a.arg for a in g.node.args.args]
            recv = set()
            for h in module_funcs_reachable(repo, fi0, depth=2):
                for c in find_calls(h.node, g.name, into_defs=False):
                    ps = gparams[1:] if g.cls is not None and isinstance(c.func, ast.Attribute) else gparams
                    for i, a in enumerate(c.args):
                        if (ap(a) or "").endswith(".injections") and i < len(ps):
                            recv.add(ps[i])
                    for k in c.keywords:
                        if (ap(k.value) or "").endswith(".injections") and k.arg:
                            recv.add(k.arg)
            for prm in recv:
                found.extend((f, loop) for f, loop in loops_over([g], prm)
                             if (ap(_iter_base(loop.iter)) or "") == prm)
        for fi, loop in found:
            n += 1
            it = loop.iter
            desc = isinstance(it, ast.Call) and ap(it.func) == "reversed"
            if isinstance(it, ast.Call) and not desc:
                raise AnalysisError(f"{q}: iteration order of `{norm(it)}` unknown")
            if not isinstance(loop.target, ast.Name):
                raise AnalysisError(f"{q}: loop target is not a name")
            elem = loop.target.id
            exits = [x for x in walk(ast.Module(body=loop.body, type_ignores=[]))
                     if isinstance(x, (ast.Break, ast.Return))
                     and not any(isinstance(a, (ast.For, ast.While)) and a is not loop and any(b is loop for b in ancestors(a))
                                 for a in ancestors(x))]
            if not exits:
                ctx.ob("C05.R6", f"{q}: walk over {norm(it)} has no early exit", True, ctx.w(fi, loop))
                continue
            for x in exits:
                verdicts = []
                for e, pol in facts(x, loop):
                    if isinstance(e, ast.Compare) and len(e.ops) == 1 and isinstance(e.ops[0], (ast.Lt, ast.LtE, ast.Gt, ast.GtE)):
                        l, r = ap(e.left), ap(e.comparators[0])
                        gt = isinstance(e.ops[0], (ast.Gt, ast.GtE))
                        if l == elem:
                            big = gt == pol
                        elif r == elem:
                            big = (not gt) == pol
                        else:
                            continue
                        verdicts.append("large" if big else "small")
                if not verdicts:
                    raise AnalysisError(f"{q}: early exit `{norm(x)}` does not depend on a comparison with the element")
                ok = all(v == ("small" if desc else "large") for v in verdicts)
                ctx.ob("C05.R6", f"{q}: early exit of the {'descending' if desc else 'ascending'} walk only on element too "
                                 f"{'small' if desc else 'large'}", ok, ctx.w(fi, x),
                       f"leaves a {'newest-first' if desc else 'oldest-first'} walk when the element is too "
                       f"{verdicts[0]}: the remaining (still counting) injections are skipped and the id is "
                       f"translated by too little")
        # walks written as comprehensions: `next((.. for p in <injections> if <cond>), default)` leaves at the first
        # element satisfying <cond>; any other comprehension over the deque visits every element
        for g_fn in {fi0} | {f for f, _ in found}:
            for comp in [x for x in walk(g_fn.node, into_defs=True) if isinstance(x, (ast.GeneratorExp, ast.ListComp, ast.SetComp))]:
                gen = comp.generators[0]
                it = gen.iter
                order_it = it
                enumerated = isinstance(it, ast.Call) and ap(it.func) == "enumerate" and it.args
                if enumerated:
                    order_it = it.args[0]
                base = ap(_iter_base(order_it)) or ""
                if not (is_inj(g_fn, order_it) or any(f is g_fn and (ap(_iter_base(l.iter)) or "") == base for f, l in found)):
                    continue
                if len(comp.generators) != 1:
                    raise AnalysisError(f"{q}: nested comprehension over the injections")
                n += 1
                desc = isinstance(order_it, ast.Call) and ap(order_it.func) == "reversed"
                if isinstance(order_it, ast.Call) and not desc:
                    raise AnalysisError(f"{q}: iteration order of `{norm(it)}` unknown")
                tgt = gen.target
                if enumerated and isinstance(tgt, ast.Tuple) and len(tgt.elts) == 2:
                    tgt = tgt.elts[1]
                if not isinstance(tgt, ast.Name):
                    raise AnalysisError(f"{q}: comprehension target over the injections is not a name")
                elem = tgt.id
                par = parent(comp)
                first_only = isinstance(par, ast.Call) and ap(par.func) == "next" and par.args and par.args[0] is comp
                if not first_only or not gen.ifs:
                    ctx.ob("C05.R6", f"{q}: walk over {norm(it)} has no early exit", True, ctx.w(g_fn, comp))
                    continue
                verdicts = []
                for cond in gen.ifs:
                    for e, pol in atoms(cond, True):
                        if isinstance(e, ast.Compare) and len(e.ops) == 1 and isinstance(e.ops[0], (ast.Lt, ast.LtE, ast.Gt, ast.GtE)):
                            l_, r_ = e.left, e.comparators[0]
                            l_ = l_.target if isinstance(l_, ast.NamedExpr) else l_
                            r_ = r_.target if isinstance(r_, ast.NamedExpr) else r_
                            gt = isinstance(e.ops[0], (ast.Gt, ast.GtE))
                            if ap(l_) == elem:
                                verdicts.append("large" if gt == pol else "small")
                            elif ap(r_) == elem:
                                verdicts.append("large" if (not gt) == pol else "small")
                if not verdicts:
                    raise AnalysisError(f"{q}: `next()` over the injections stops on a condition that does not compare the element")
                ok = all(v == ("small" if desc else "large") for v in verdicts)
                ctx.ob("C05.R6", f"{q}: early exit of the {'descending' if desc else 'ascending'} walk only on element too "
                                 f"{'small' if desc else 'large'}", ok, ctx.w(g_fn, comp),
                       f"`next()` settles on the first element that is too {verdicts[0]} of a "
                       f"{'newest-first' if desc else 'oldest-first'} walk: the remaining (still counting) injections are skipped")
    ctx.floor("C05.R6", "translation loops", n, 2)
    # the C04 tracker rules (early-exit soundness, forward/inverse symmetry) re-run under C05 keys when the
    # C04 module exposes them; the own version above keeps C05 independent of that module's presence
    try:
        from . import c04 as _c04
    except (ImportError, SyntaxError):
        _c04 = None
    for fname in ("r2_early_exit", "r3_symmetry"):
        f = getattr(_c04, fname, None) if _c04 is not None else None
        if callable(f):
            f(ctx, "C05.R6")
        else:
            ctx.stats[f"C05.R6.c04.{fname}"] = "not available (own early-exit rule only)"
    ctx.rule("C05.R6", "ack translation relies on a sound inverse map: loops over the (ascending) injection deque leave "
                       "early only in the direction their iteration order justifies; forward/inverse shift symmetry "
                       "(C04.R2/R3 re-run under C05 keys)")


# ============================================================================ R7 a taken copy starts clean

def r7(ctx):
    repo = ctx.repo
    ctx.rule("C05.R7", "a taken copy never carries the original's acks: Message.take() clears acks, the ACK flag and "
                       "the packet id of the copy on every path (the original's acks are forwarded by drop_message)")
    tk = repo.fn("Message.take", "hippolyzer/lib/base/message/message.py")
    cfg = CFG(tk.node)
    rets = [r for r in walk(tk.node) if isinstance(r, ast.Return) and r.value is not None]
    ctx.require(bool(rets), "Message.take returns nothing")
    for r in rets:
        cp = ap(r.value)
        if cp is None or cp == "self":
            ctx.ob("C05.R7", "Message.take returns a separate copy", False, ctx.w(tk, r), f"returns {norm(r.value)}")
            continue
        rn = cfg.nodes_for(r)

        def must_pass(pred, cp=cp):
            nodes = [n for st in stores(tk.node, into_defs=False) if st.path.startswith(cp + ".") and pred(st, cp)
                     for n in cfg.nodes_for(st.node)]
            # a method of the message class called on the copy that performs the store on every one of its paths
            for c in calls(tk.node, into_defs=False):
                if isinstance(c.func, ast.Attribute) and ap(c.func.value) == cp and tk.cls is not None:
                    m = repo.lookup_method(tk.cls, c.func.attr)
                    if m is None:
                        continue
                    mcfg = CFG(m.node)
                    inner = [n for st in stores(m.node, into_defs=False) if st.path.startswith("self.") and pred(st, "self")
                             for n in mcfg.nodes_for(st.node)]
                    if inner and mcfg.exit not in mcfg.reachable([mcfg.entry], avoid=lambda n: n in inner):
                        nodes.extend(cfg_nodes(cfg, c))
            reach = cfg.reachable([cfg.entry], avoid=lambda n: n in nodes)
            return bool(nodes) and not any(n in reach for n in rn)

        def empty(v):
            return (isinstance(v, (ast.Tuple, ast.List)) and not v.elts) or \
                (isinstance(v, ast.Call) and ap(v.func) in ("tuple", "list") and not v.args and not v.keywords)
        ctx.ob("C05.R7", "Message.take: the copy's acks are emptied on every path",
               must_pass(lambda st, o: st.path == f"{o}.acks" and st.kind == "assign" and st.value is not None and empty(st.value)),
               ctx.w(tk, r), "a path returns the copy with the original's appended acks: they reach the endpoint a second "
               "time (and untranslated) when the copy is sent")
        ctx.ob("C05.R7", "Message.take: the copy's ACK flag is cleared on every path",
               must_pass(lambda st, o: st.path == f"{o}.send_flags" and st.kind == "augassign" and isinstance(st.node.op, ast.BitAnd)
                         and isinstance(st.value, ast.UnaryOp) and isinstance(st.value.op, ast.Invert)
                         and (ap(st.value.operand) or "").endswith("PacketFlags.ACK")),
               ctx.w(tk, r), "a path returns the copy with PacketFlags.ACK still set")
        ctx.ob("C05.R7", "Message.take: the copy's packet id is reset to None on every path",
               must_pass(lambda st, o: st.path == f"{o}.packet_id" and st.kind == "assign" and isinstance(st.value, ast.Constant)
                         and st.value.value is None),
               ctx.w(tk, r), "a path returns the copy with the original's packet id: it is sent as if it were the "
               "original endpoint packet instead of an injected one")


# ============================================================================ R8 live circuit state is not discarded

def _prop_formula(fn: FuncInfo) -> Optional[ast.AST]:
    """Boolean property body `if t: return a ... return z` as one expression over `self`."""
    body = [s_ for s_ in fn.node.body if not (isinstance(s_, ast.Expr) and isinstance(s_.value, ast.Constant))]
    expr = None
    for s_ in reversed(body):
        if isinstance(s_, ast.Return) and s_.value is not None and expr is None:
            expr = s_.value
        elif isinstance(s_, ast.If) and not s_.orelse and len(s_.body) == 1 and isinstance(s_.body[0], ast.Return) \
                and s_.body[0].value is not None and expr is not None:
            expr = ast.IfExp(test=s_.test, body=s_.body[0].value, orelse=expr)
        else:
            return None
    return expr


def clone(n, leaf=None):
    """Structural copy of an AST (fields only: the parent links the engine adds are not followed).  `leaf(node)`
    may return a replacement node for a sub-tree."""
    if leaf is not None:
        r = leaf(n)
        if r is not None:
            return r
    if isinstance(n, ast.AST):
        new = type(n)(**{f: clone(v, leaf) for f, v in ast.iter_fields(n)})
        return ast.copy_location(new, n) if hasattr(n, "lineno") else new
    if isinstance(n, list):
        return [clone(x, leaf) for x in n]
    return n


def _subst_self(e, repl: ast.AST):
    return clone(e, lambda n: clone(repl) if isinstance(n, ast.Name) and n.id == "self" else None)


def _canon(e):
    """`a != b` -> not (a == b) with ordered operands, `a not in b` -> not (a in b): one atom per comparison."""
    if isinstance(e, ast.Compare) and len(e.ops) == 1 and not is_none_test(e):
        l, r = e.left, e.comparators[0]
        op = e.ops[0]
        if isinstance(op, (ast.Eq, ast.NotEq)):
            if dump(l) > dump(r):
                l, r = r, l
            base = ast.Compare(left=l, ops=[ast.Eq()], comparators=[r])
            return ast.UnaryOp(op=ast.Not(), operand=base) if isinstance(op, ast.NotEq) else base
        if isinstance(op, ast.NotIn):
            return ast.UnaryOp(op=ast.Not(), operand=ast.Compare(left=l, ops=[ast.In()], comparators=[r]))
    return e


def _bool_leaves(e, out, expand):
    e = _canon(expand(e))
    if isinstance(e, ast.UnaryOp) and isinstance(e.op, ast.Not):
        _bool_leaves(e.operand, out, expand)
    elif isinstance(e, ast.BoolOp):
        for v in e.values:
            _bool_leaves(v, out, expand)
    elif isinstance(e, ast.IfExp):
        for v in (e.test, e.body, e.orelse):
            _bool_leaves(v, out, expand)
    elif isinstance(e, ast.Constant):
        pass
    else:
        nt = is_none_test(e)
        out.add(dump(e.left) if nt else dump(e))


def _bool_eval(e, env, expand) -> bool:
    e = _canon(expand(e))
    if isinstance(e, ast.UnaryOp) and isinstance(e.op, ast.Not):
        return not _bool_eval(e.operand, env, expand)
    if isinstance(e, ast.BoolOp):
        vals = [_bool_eval(v, env, expand) for v in e.values]
        return all(vals) if isinstance(e.op, ast.And) else any(vals)
    if isinstance(e, ast.IfExp):
        return _bool_eval(e.body if _bool_eval(e.test, env, expand) else e.orelse, env, expand)
    if isinstance(e, ast.Constant):
        return bool(e.value)
    nt = is_none_test(e)
    if nt:
        present = env[dump(e.left)]          # object-valued: truthy iff not None
        return (not present) if nt[1] else present
    return env[dump(e)]


def prop_expand(repo, e, keep=()):
    """`x.prop` -> the boolean formula of a (repo-unique) property `prop` with self := x; other nodes unchanged."""
    if isinstance(e, ast.Attribute) and ap(e.value) and not getattr(e, "_noexpand", False) \
            and not any(dump(e) == dump(a) for a in keep):
        props = [g for g in repo.funcs.get(e.attr, []) if g.cls is not None and
                 any((ap(d) or "") == "property" for d in g.node.decorator_list)]
        if len(props) == 1:
            f_ = _prop_formula(props[0])
            if f_ is not None and all(isinstance(n, (ast.expr, ast.boolop, ast.unaryop, ast.cmpop, ast.expr_context))
                                      for n in ast.walk(f_)):
                # the property lives on the object that *has* the attributes its formula reads from self:
                # `y.circuit.is_alive` is the circuit's own flag, not the region property
                reads = {n.attr for n in ast.walk(f_) if isinstance(n, ast.Attribute) and isinstance(n.value, ast.Name)
                         and n.value.id == "self"}
                if isinstance(e.value, ast.Attribute) and e.value.attr in reads:
                    return e
                out = _subst_self(f_, e.value)
                for n in ast.walk(out):
                    n._noexpand = True
                return out
    return e


def facts_exclude(repo, facts_, assumed: List[ast.AST]) -> bool:
    """The conjunction of the facts is unsatisfiable together with all `assumed` expressions being truthy
    (exhaustive truth table over the atomic sub-conditions; boolean properties over `self.circuit` are expanded)."""
    def expand(e):
        return prop_expand(repo, e, assumed)
    leaves: set = set()
    for e, _ in facts_:
        _bool_leaves(e, leaves, expand)
    for a in assumed:
        leaves.add(dump(a))
    leaves = sorted(leaves)
    if len(leaves) > 12:
        raise AnalysisError("too many atomic conditions for the truth-table check")
    fixed = {dump(a) for a in assumed}
    free = [l for l in leaves if l not in fixed]
    for bits in range(1 << len(free)):
        env = {l: True for l in fixed}
        env.update({l: bool(bits >> i & 1) for i, l in enumerate(free)})
        if all(_bool_eval(e, env, expand) == pol for e, pol in facts_):
            return False
    return True


def r8(ctx):
    repo = ctx.repo
    ctx.rule("C05.R8", "live circuit state is never discarded: a region's circuit object (injection trackers, unacked "
                       "table, id counter) is replaced only when the region has no circuit or the circuit is dead")
    ccls = repo.cls("Circuit", BCIRC)
    circ_names = {c.name for c in repo.subclasses(ccls)}
    n = 0
    for f, st in writers_of(repo, "circuit"):
        if st.kind != "assign" or not isinstance(st.value, ast.Call) or call_attr(st.value) not in circ_names:
            # any other write of a `.circuit` field: only constructors may do that (initial None / injected mock)
            if st.path.endswith(".circuit") and st.kind in ("assign", "del", "augassign"):
                ctx.ob("C05.R8", f"{f.qual}: `{norm(st.node)}` - the circuit reference is set by constructors and "
                                 f"open_circuit only", f.name == "__init__", ctx.w(f, st.node),
                       "a region's circuit is released / replaced outside the constructor and open_circuit: its "
                       "translation and resend state is lost and a forward that was already validated for this region "
                       "(handle_proxied_packet sends after mark_dead) fails")
            continue
        n += 1
        owner = st.target.value if isinstance(st.target, ast.Attribute) else None
        if owner is None:
            continue
        cur = ast.Attribute(value=owner, attr="circuit", ctx=ast.Load())
        alive = ast.Attribute(value=cur, attr="is_alive", ctx=ast.Load())
        if isinstance(owner, ast.Name) and owner.id == "self" and f.name == "__init__":
            continue
        ok = facts_exclude(repo, facts(st.node, f.node), [cur, alive])
        ctx.ob("C05.R8", f"{f.qual}: `{norm(st.target)} = {call_attr(st.value)}(...)` only when there is no live circuit", ok,
               ctx.w(f, st.node),
               f"the dominating conditions do not exclude `{norm(cur)} and {norm(alive)}`: a live circuit is thrown away "
               f"together with its injection/ack translation state and its unacknowledged reliable sends (later acks "
               f"are mistranslated, pending sends never complete)")
    ctx.floor("C05.R8", "circuit (re)constructions", n, 1)


def r9(ctx):
    repo = ctx.repo
    ctx.rule("C05.R9", "the injection trackers of a proxied circuit keep the tracker's own declared window: an id that "
                       "falls out of the window stops being recognised as injected (its ack is forwarded) and shifts "
                       "every translation, so the window is not tied to / shrunk below InjectionTracker's default")
    tinit = repo.fn("InjectionTracker.__init__")
    ev = ConstEval(repo, tinit.module)
    a = tinit.node.args
    names = [x.arg for x in a.args]
    ctx.require("maxlen" in names, "InjectionTracker.__init__ has no maxlen parameter any more: read it and extend C05.R9")
    di = names.index("maxlen") - (len(names) - len(a.defaults))
    dnode = a.defaults[di] if 0 <= di < len(a.defaults) else None
    default = ev.ev(dnode) if dnode is not None else None
    if not isinstance(default, int) and dnode is not None and tinit.cls is not None:
        # a default spelt as a constant of the class body (evaluated in the class namespace at def time)
        nm = dnode.id if isinstance(dnode, ast.Name) else \
            dnode.attr if isinstance(dnode, ast.Attribute) and ap(dnode.value) == tinit.cls.name else None
        cv = repo.class_attr(tinit.cls, nm) if nm else None
        default = ev.ev(cv) if cv is not None else default
    ctx.require(isinstance(default, int), "InjectionTracker maxlen default is not a constant")
    pos = names.index("maxlen") - 1
    n = 0
    # constructions in the proxied circuit itself or in a factory of its module that it calls for them
    pmod = repo.cls("ProxiedCircuit", PCIRC).module
    makers = [f for f in repo.all_funcs if f.module is pmod and f.parent_fn is None
              and not (f.cls is not None and f.cls.name == "InjectionTracker")]
    for f in makers:
        # the class may be reached through a local / parameter that stands for it (`factory = InjectionTracker`, a
        # parameter defaulting to the class): calling that is a construction with the same arguments
        alias = {st.path for st in stores(f.node, into_defs=False) if st.kind == "assign" and "." not in st.path
                 and st.value is not None and ap(st.value) == "InjectionTracker"}
        fa = f.node.args
        for a_, d_ in zip(fa.args[len(fa.args) - len(fa.defaults):], fa.defaults):
            if ap(d_) == "InjectionTracker":
                alias.add(a_.arg)
        for a_, d_ in zip(fa.kwonlyargs, fa.kw_defaults):
            if d_ is not None and ap(d_) == "InjectionTracker":
                alias.add(a_.arg)
        built = list(find_calls(f.node, "InjectionTracker", into_defs=True)) + \
            [c for c in calls(f.node, into_defs=False) if isinstance(c.func, ast.Name) and c.func.id in alias]
        for c in built:
            n += 1
            arg = c.args[pos] if len(c.args) > pos else next((k.value for k in c.keywords if k.arg == "maxlen"), None)
            if arg is None:
                ctx.ob("C05.R9", f"{f.qual}: {norm(c)} uses the tracker's declared window", True, ctx.w(f, c))
                continue
            val = ConstEval(repo, f.module).ev(arg)
            if not isinstance(val, int):
                # `<obj>.<deque field>.maxlen`: the window some other component declared for itself
                p_ = ap(arg) or ""
                if p_.startswith("self.") and p_.endswith(".maxlen") and f.cls is not None:
                    field = p_[5:-7]
                    for k in repo.mro(f.cls):
                        init = k.methods.get("__init__")
                        for st in (stores(init.node) if init is not None else []):
                            if st.path == f"self.{field}" and st.kind == "assign" and isinstance(st.value, ast.Call) \
                                    and call_attr(st.value) == "deque":
                                mv = next((kk.value for kk in st.value.keywords if kk.arg == "maxlen"), None)
                                v2 = ConstEval(repo, k.module).ev(mv) if mv is not None else None
                                if isinstance(v2, int):
                                    val = v2
            if not isinstance(val, int):
                raise AnalysisError(f"{f.qual}: tracker window `{norm(arg)}` is not a decidable constant")
            ctx.ob("C05.R9", f"{f.qual}: {norm(c)} keeps at least the tracker's declared window", val >= default, ctx.w(f, c),
                   f"window {val} (from `{norm(arg)}`) is smaller than InjectionTracker's own {default}: after {val} injections "
                   f"in one direction acks for the proxy's own packets are forwarded and older ids are mistranslated")
    ctx.floor("C05.R9", "tracker constructions for ProxiedCircuit", n, 1)


def run(ctx):
    r1(ctx)
    r2(ctx)
    r3(ctx)
    r4(ctx)
    r5(ctx)
    r6(ctx)
    r7(ctx)
    r8(ctx)
    r9(ctx)
    ctx.assume("interleaving-level truthfulness and resend cadence (time) are not decided statically")
    ctx.note("drop_message's stand-in PacketAck reuses the dropped packet's id as a synthetic id "
             "(wire-id space vs endpoint-id space) - observed, not armed")
