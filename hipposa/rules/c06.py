"""C06 - UDP proxying is transparent: SOCKS framing, address roles, effect-free discards, one forward
(DESIGN.md section 4 C06)."""
from __future__ import annotations

import ast
import re
import struct
from typing import Any, Dict, List, Optional, Tuple

from ..cfg import CFG
from ..consteval import CallVal, ConstEval, EnumVal, StructVal, Sym, enum_members
from ..core import (AnalysisError, FuncInfo, ap, ancestors, atoms, call_attr, calls, enclosing_stmt, facts, find_calls,
                    is_none_test, norm, src, stores, walk, _block_of)
from ..miniinterp import run_block
from .common import callers_of, class_methods_reachable, writers_of
from .c05 import (Explorer, St, assume, tv, arg_of, call_fact, cfg_nodes, check_invert, msg_param, name_eq_atom, name_fact,
                  path_fact, resolve_path, single_assign, lookup_var)

SOCKS = "hippolyzer/lib/proxy/socks_proxy.py"
LLUDP = "hippolyzer/lib/proxy/lludp_proxy.py"
PTRANS = "hippolyzer/lib/proxy/transport.py"
BTRANS = "hippolyzer/lib/base/network/transport.py"
BCIRC = "hippolyzer/lib/base/message/circuit.py"
SESS = "hippolyzer/lib/proxy/sessions.py"
STATE = "hippolyzer/lib/client/state.py"


# ============================================================================ R1 SOCKS5 UDP framing

class Mismatch(Exception):
    pass


class Seg:
    """One emitted header field (or the opaque payload) of the abstract datagram."""
    def __init__(self, order: str, code: str, value: Any):
        self.order, self.code, self.value = order, code, value

    @property
    def size(self) -> Optional[int]:
        return None if self.code == "PAYLOAD" else struct.calcsize("!" + self.code)

    def __repr__(self):
        return f"{self.order}{self.code}={self.value!r}"


class Bytes:
    def __init__(self, segs: List[Seg]):
        self.segs = segs

    def __repr__(self):
        return f"Bytes{self.segs!r}"

    def take(self, n: int) -> Tuple["Bytes", "Bytes"]:
        got, i = 0, 0
        while got < n:
            if i >= len(self.segs) or self.segs[i].code == "PAYLOAD":
                raise Mismatch(f"parser reads {n} header bytes where only {got} were emitted before the payload")
            got += self.segs[i].size
            i += 1
        if got != n:
            raise Mismatch(f"parser slices {n} bytes, which splits emitted field {self.segs[i - 1]!r}")
        return Bytes(self.segs[:i]), Bytes(self.segs[i:])


def fmt_fields(fmt: str) -> Tuple[str, List[str]]:
    order = fmt[0] if fmt and fmt[0] in "<>!=@" else "@"
    body = fmt[1:] if fmt and fmt[0] in "<>!=@" else fmt
    out = []
    for cnt, ch in re.findall(r"(\d*)([a-zA-Z?])", body):
        if ch in "sp":
            out.append(f"{cnt or 1}{ch}")
        elif ch == "x":
            raise AnalysisError("pad bytes in SOCKS header format not supported")
        else:
            out.extend([ch] * (int(cnt) if cnt else 1))
    return ("!" if order in "!>" else order), out


def enum_int(v):
    """An IntEnum member evaluates to its int on the wire."""
    return v.value if isinstance(v, EnumVal) and isinstance(v.value, int) else v


def intify(ev: ConstEval, e):
    """Copy of e with references to integer enum members replaced by their values."""
    from .c05 import clone

    def leaf(n):
        if isinstance(n, ast.Attribute):
            v = ev.ev(n)
            if isinstance(v, EnumVal) and isinstance(v.value, int):
                return ast.copy_location(ast.Constant(value=v.value), n)
        return None
    return clone(e, leaf)


class SocksParse:
    """Partial evaluation of _parse_socks_datagram on an abstract datagram made of the emitted fields."""

    def __init__(self, ctx, fi: FuncInfo):
        self.ctx, self.fi = ctx, fi
        self.ev = ConstEval(ctx.repo, fi.module)

    def consts(self, env):
        return {k: v for k, v in env.items() if not isinstance(v, (Bytes, tuple)) or isinstance(v, tuple)
                and not any(isinstance(x, Bytes) for x in v)}

    def eval(self, e, env):
        if isinstance(e, ast.Name) and e.id in env:
            return env[e.id]
        if isinstance(e, ast.Tuple):
            return tuple(self.eval(x, env) for x in e.elts)
        if isinstance(e, ast.Subscript):
            base = self.eval(e.value, env)
            if isinstance(base, Bytes):
                sl = e.slice
                if isinstance(sl, ast.Slice):
                    if sl.step is not None:
                        raise AnalysisError("stepped slice in SOCKS parser")
                    lo = self.eval(sl.lower, env) if sl.lower is not None else 0
                    hi = self.eval(sl.upper, env) if sl.upper is not None else None
                    if not isinstance(lo, int) or not (hi is None or isinstance(hi, int)):
                        raise AnalysisError(f"SOCKS parser slice bounds not constant: {norm(e)}")
                    _, rest = base.take(lo)
                    if hi is None:
                        return rest
                    got, _ = rest.take(hi - lo)
                    return got
                raise Mismatch(f"parser indexes the datagram bytewise ({norm(e)}) on the emitted layout")
            if isinstance(base, tuple):
                idx = self.eval(e.slice, env)
                if isinstance(idx, int) and -len(base) <= idx < len(base):
                    return base[idx]
            return Sym(src(e))
        if isinstance(e, ast.Call):
            fn = ap(e.func) or ""
            last = fn.split(".")[-1]
            if last == "unpack":
                if fn == "struct.unpack":
                    fmt = self.eval(e.args[0], env) if e.args else None
                    buf = self.eval(e.args[1], env) if len(e.args) > 1 else None
                else:
                    sv = self.ev.ev(e.func.value, self.consts(env)) if isinstance(e.func, ast.Attribute) else None
                    fmt = sv.fmt if isinstance(sv, StructVal) else None
                    buf = self.eval(e.args[0], env) if e.args else None
                if not isinstance(fmt, str) or not isinstance(buf, Bytes):
                    raise AnalysisError(f"SOCKS parser: cannot evaluate {norm(e)}")
                order, fields = fmt_fields(fmt)
                got = [(s.order, s.code) for s in buf.segs]
                want = [(order, c) for c in fields]
                if got != want:
                    raise Mismatch(f"parser unpacks {fmt!r} where the emitter packed "
                                   f"{[o + c for o, c in got]}")
                return tuple(s.value for s in buf.segs)
            fields = namedtuple_fields(self.ctx.repo, ap(e.func), self.fi.module)
            if fields is not None:
                vals = {fields[i]: self.eval(a, env) for i, a in enumerate(e.args) if i < len(fields)}
                vals.update({k.arg: self.eval(k.value, env) for k in e.keywords if k.arg})
                if set(vals) != set(fields):
                    raise AnalysisError(f"SOCKS parser: {norm(e)} does not fill the record fields {fields}")
                return tuple(vals[f_] for f_ in fields)
            if last == "inet_ntoa":
                buf = self.eval(e.args[0], env) if e.args else None
                if isinstance(buf, Bytes) and len(buf.segs) == 1 and buf.segs[0].code == "4s":
                    v = buf.segs[0].value
                    if isinstance(v, CallVal) and v.func.split(".")[-1] == "inet_aton" and len(v.args) == 1:
                        return v.args[0]
                    return Sym(f"inet_ntoa({v!r})")
                raise Mismatch(f"parser decodes an IPv4 address from {buf.segs if isinstance(buf, Bytes) else buf!r}, "
                               f"the emitter packed a different field there")
        return enum_int(self.ev.ev(intify(self.ev, e), self.consts(env)))

    def run(self, stmts, env):
        for s in stmts:
            if isinstance(s, ast.If):
                t = self.ev.ev(intify(self.ev, s.test), self.consts(env))
                if isinstance(t, (Sym, CallVal)):
                    raise AnalysisError(f"SOCKS parser: undecidable test `{norm(s.test)}` on the emitted header")
                r = self.run(s.body if t else s.orelse, env)
                if r is not None:
                    return r
            elif isinstance(s, ast.Assign) and len(s.targets) == 1:
                val = self.eval(s.value, env)
                tgt = s.targets[0]
                if isinstance(tgt, ast.Name):
                    env[tgt.id] = val
                elif isinstance(tgt, ast.Tuple) and isinstance(val, tuple) and len(val) == len(tgt.elts) \
                        and all(isinstance(t, ast.Name) for t in tgt.elts):
                    for t, v in zip(tgt.elts, val):
                        env[t.id] = v
                elif isinstance(tgt, ast.Tuple) and isinstance(val, tuple):
                    raise Mismatch(f"parser unpacks {len(tgt.elts)} values where {len(val)} fields were read")
                else:
                    raise AnalysisError(f"SOCKS parser: unsupported assignment {norm(s)}")
            elif isinstance(s, ast.Return):
                return ("return", self.eval(s.value, env) if s.value is not None else None, s)
            elif isinstance(s, ast.Raise):
                return ("raise", None, s)
            elif isinstance(s, (ast.Expr, ast.Pass)):
                continue
            else:
                raise AnalysisError(f"SOCKS parser: unsupported statement {type(s).__name__}")
        return None


def socks_parser(repo) -> Tuple[FuncInfo, List[str]]:
    """The function that really parses the SOCKS datagram (the anchored method may delegate to a module-level
    function or another method) and the names under which callers may see it."""
    from .c05 import resolve_method_call
    f = repo.fn("UDPProxyProtocol._parse_socks_datagram")
    names = [f.name]
    for _ in range(3):
        body = [s_ for s_ in f.node.body if not (isinstance(s_, ast.Expr) and isinstance(s_.value, ast.Constant))]
        if len(body) == 1 and isinstance(body[0], ast.Return) and isinstance(body[0].value, ast.Call):
            c = body[0].value
            dparam = msg_param(f)
            if not (c.args and ap(c.args[0]) == dparam):
                break
            nxt = None
            if isinstance(c.func, ast.Name):
                cands = [g for g in repo.funcs.get(c.func.id, []) if g.module is f.module and g.cls is None and g.parent_fn is None]
                nxt = cands[0] if len(cands) == 1 else None
            else:
                nxt = resolve_method_call(repo, f, c)
            if nxt is None:
                break
            f = nxt
            names.append(f.name)
        else:
            break
    return f, names


def namedtuple_fields(repo, name: Optional[str], mod) -> Optional[List[str]]:
    ci = repo.resolve_class(name, mod) if name else None
    if ci is None or not any(b.split(".")[-1] == "NamedTuple" for b in ci.base_names):
        return None
    return [st.target.id for st in ci.node.body if isinstance(st, ast.AnnAssign) and isinstance(st.target, ast.Name)]


def emitted_header(ctx) -> Tuple[FuncInfo, List[Seg], ast.AST]:
    repo = ctx.repo
    ser = repo.fn("SOCKS5UDPTransport.serialize")
    pk = msg_param(ser)
    ev = ConstEval(repo, ser.module)
    rets = [r for r in walk(ser.node) if isinstance(r, ast.Return) and r.value is not None and ap(r.value) != f"{pk}.data"]
    ctx.require(len(rets) == 1, f"SOCKS5UDPTransport.serialize: expected one header-carrying return, found {len(rets)}")
    terms: List[ast.AST] = []

    def flat(e):
        if isinstance(e, ast.BinOp) and isinstance(e.op, ast.Add):
            flat(e.left)
            flat(e.right)
        elif isinstance(e, ast.Name) and single_assign(ser.node, e.id) is not None:
            flat(single_assign(ser.node, e.id))
        elif isinstance(e, ast.Call) and call_attr(e) != "pack":
            # a one-expression helper of the transport class that builds (part of) the header: its result with
            # the arguments substituted for the parameters
            from .c05 import clone, method_params, resolve_method_call
            h = resolve_method_call(repo, ser, e)
            hrets = [r for r in walk(h.node) if isinstance(r, ast.Return) and r.value is not None] if h is not None else []
            if len(hrets) != 1:
                terms.append(e)
                return
            params = method_params(h)
            amap = {params[i]: a for i, a in enumerate(e.args) if i < len(params)}
            amap.update({k.arg: k.value for k in e.keywords if k.arg})
            flat(clone(hrets[0].value, lambda n: clone(amap[n.id]) if isinstance(n, ast.Name) and n.id in amap else None))
        else:
            terms.append(e)
    flat(rets[0].value)
    ctx.require(terms and ap(terms[-1]) == f"{pk}.data",
                f"SOCKS5UDPTransport.serialize: header return does not end with {pk}.data ({norm(rets[0].value)})")
    segs: List[Seg] = []
    for t in terms[:-1]:
        if not (isinstance(t, ast.Call) and call_attr(t) == "pack"):
            raise AnalysisError(f"SOCKS5UDPTransport.serialize: header part `{norm(t)}` is not a struct pack")
        if ap(t.func) == "struct.pack":
            fmt = ev.ev(t.args[0]) if t.args else None
            args = t.args[1:]
        else:
            recv = t.func.value
            sv = None
            p = ap(recv) or ""
            if p.startswith(("cls.", "self.")) and ser.cls is not None:
                node = repo.class_attr(ser.cls, p.split(".", 1)[1])
                sv = ConstEval(repo, ser.module).ev(node) if node is not None else None
            else:
                sv = ev.ev(recv)
            fmt = sv.fmt if isinstance(sv, StructVal) else None
            args = t.args
        if not isinstance(fmt, str):
            raise AnalysisError(f"SOCKS5UDPTransport.serialize: format of `{norm(t)}` is not a literal")
        # `*<class-level tuple>` among the values stands for its elements
        flat_args = []
        for a in args:
            if isinstance(a, ast.Starred):
                sp_ = ap(a.value) or ""
                node = repo.class_attr(ser.cls, sp_.split(".", 1)[1]) if sp_.startswith(("cls.", "self.")) and ser.cls else a.value
                if isinstance(node, ast.Name):
                    node = repo.module_assign(ser.module, node.id) or node
                if not isinstance(node, (ast.Tuple, ast.List)):
                    raise AnalysisError(f"SOCKS5UDPTransport.serialize: cannot expand `{norm(a)}`")
                flat_args.extend(node.elts)
            else:
                flat_args.append(a)
        args = flat_args
        order, fields = fmt_fields(fmt)
        ctx.ob("C06.R1", f"emit: {norm(t.func)} packs one value per field of {fmt!r}", len(fields) == len(args),
               ctx.w(ser, t), f"{len(args)} values for {len(fields)} fields")
        def value_of(a):
            # a constant of the transport class (`cls.X` / `self.X` / `SOCKS5UDPTransport.X`) stands for its value
            p_ = ap(a) or ""
            if ser.cls is not None and p_.count(".") == 1 and p_.split(".")[0] in ("cls", "self", ser.cls.name):
                node = repo.class_attr(ser.cls, p_.split(".")[1])
                if node is not None:
                    return ev.ev(node)
            return ev.ev(a)
        for c, a in zip(fields, args):
            segs.append(Seg(order, c, enum_int(value_of(a))))
    return ser, segs, rets[0]


def r1(ctx):
    repo = ctx.repo
    ctx.rule("C06.R1", "SOCKS5 UDP framing: the parser, evaluated on the emitted header layout and constants, accepts "
                       "it, recovers the emitted address/port, strips exactly the header; rejects rsv/frag != 0 and "
                       "unknown address types")
    ser, segs, ret = emitted_header(ctx)
    ctx.floor("C06.R1", "emitted header fields", len(segs), 5)
    pk = msg_param(ser)
    total = sum(s.size for s in segs)
    ctx.ob("C06.R1", "emit: every header field is in network byte order", all(s.order == "!" for s in segs), ctx.w(ser, ret),
           f"orders {[s.order for s in segs]}")
    pf, _ = socks_parser(repo)
    dparam = msg_param(pf)
    interp = SocksParse(ctx, pf)
    where = pf.where

    def parse(header: List[Seg]):
        env = {dparam: Bytes(header + [Seg("", "PAYLOAD", Sym("PAYLOAD"))])}
        try:
            return interp.run(pf.node.body, env), None
        except Mismatch as m:
            return None, str(m)
    out, err = parse(segs)
    ok_shape = out is not None and out[0] == "return" and isinstance(out[1], tuple) and len(out[1]) == 2 \
        and isinstance(out[1][0], tuple) and len(out[1][0]) == 2
    ctx.ob("C06.R1", "parser accepts the emitted header (field widths, order, constants)", err is None and ok_shape, where,
           err or f"parser result on the emitted header is {out[1] if out else None!r}")
    if err is None and ok_shape:
        (host, port), rest = out[1]
        ctx.ob("C06.R1", f"parser recovers the emitted host {pk}.far_addr[0]",
               isinstance(host, Sym) and host.text == f"{pk}.far_addr[0]", where, f"host decodes to {host!r}")
        ctx.ob("C06.R1", f"parser recovers the emitted port {pk}.far_addr[1]",
               isinstance(port, Sym) and port.text == f"{pk}.far_addr[1]", where, f"port decodes to {port!r}")
        ctx.ob("C06.R1", f"parser strips exactly the {total}-byte header",
               isinstance(rest, Bytes) and [s.code for s in rest.segs] == ["PAYLOAD"], where,
               f"payload handed on is {rest.segs if isinstance(rest, Bytes) else rest!r}")
        # rejections: which constant fields does the parser look at?
        const_idx = [i for i, s in enumerate(segs) if isinstance(s.value, int)]
        ctx.floor("C06.R1", "constant header fields (rsv, frag, atyp)", len(const_idx), 3)
        names = ["rsv", "frag", "atyp"]
        for j, i in enumerate(const_idx[:3]):
            bads = [segs[i].value + 1] if j < 2 else [0, 2, 4, 5]
            for bad in bads:
                mut = [Seg(s.order, s.code, bad if k == i else s.value) for k, s in enumerate(segs)]
                o2, e2 = parse(mut)
                rejected = e2 is None and o2 is not None and o2[0] == "return" and o2[1] is None
                ctx.ob("C06.R1", f"parser rejects {names[j]}={bad} with None before using the payload", rejected, where,
                       e2 or f"result {o2[1] if o2 else None!r}: a fragmented / foreign-typed datagram is forwarded "
                       f"as if it were a plain one")
    # the header is put in front of exactly the incoming packets
    bare = [r for r in walk(ser.node) if isinstance(r, ast.Return) and ap(r.value) == f"{pk}.data"]
    for r in bare:
        ctx.ob("C06.R1", "emit: only outgoing packets go out without a header", path_fact(r, f"{pk}.outgoing", ser.node) is True
               or path_fact(r, f"{pk}.incoming", ser.node) is False, ctx.w(ser, r),
               "a packet towards the viewer leaves without its SOCKS header")


# ============================================================================ R2 address / direction roles

def ctor_args(repo, call: ast.Call, cls_name: str, module: Optional[str] = None) -> Dict[str, ast.AST]:
    params = ctor_params(repo, cls_name, module)
    out = {}
    for i, a in enumerate(call.args):
        if i < len(params):
            out[params[i]] = a
    for k in call.keywords:
        if k.arg:
            out[k.arg] = k.value
    return out


def ctor_params(repo, cls_name: str, module: Optional[str] = None) -> List[str]:
    ci = repo.cls(cls_name, module)
    init = repo.lookup_method(ci, "__init__")
    if init is not None:
        params = [a.arg for a in init.node.args.args][1:]
    else:
        # @dataclass: the generated __init__ takes the annotated fields in order (not ClassVar, not field(init=False))
        if not any((ap(d.func) if isinstance(d, ast.Call) else ap(d) or "").split(".")[-1] == "dataclass"
                   for d in ci.node.decorator_list):
            raise AnalysisError(f"{cls_name}.__init__ not found")
        params = []
        for c in reversed(repo.mro(ci)):
            for st in c.node.body:
                if not (isinstance(st, ast.AnnAssign) and isinstance(st.target, ast.Name)):
                    continue
                if "ClassVar" in src(st.annotation):
                    continue
                v = st.value
                if isinstance(v, ast.Call) and call_attr(v) == "field" and \
                        any(k.arg == "init" and isinstance(k.value, ast.Constant) and k.value.value is False for k in v.keywords):
                    continue
                if st.target.id not in params:
                    params.append(st.target.id)
    return params


def r2(ctx):
    repo = ctx.repo
    ctx.rule("C06.R2", "address/direction roles: OUT packets go to the parsed remote address and teach the far->near "
                       "map, IN packets go to the mapped near address; send_datagram swaps by direction; transports "
                       "send to packet.dst_addr; circuits are opened (near=src, far=dst)")
    dr = repo.fn("UDPProxyProtocol.datagram_received")
    dparam, sparam = msg_param(dr, 0), msg_param(dr, 1)
    cfg = CFG(dr.node)
    from .c05 import method_params, resolve_method_call
    pkts = [c for c in calls(dr.node) if call_attr(c) == "UDPPacket"]
    # packets may also be built by a helper of the protocol class that is handed (data, source) and returns the packet
    sites = [(dr, c, dparam, sparam, None) for c in pkts]
    builder_calls = []
    helper_args: Dict[str, Dict[str, Optional[str]]] = {}      # helper -> {its parameter: argument path in datagram_received}
    for hc in calls(dr.node, into_defs=False):
        h = resolve_method_call(repo, dr, hc)
        if h is None or h == dr:
            continue
        built = [c for c in calls(h.node) if call_attr(c) == "UDPPacket"]
        if not built:
            continue
        hp_ = method_params(h)
        amap = {hp_[i]: ap(a_) for i, a_ in enumerate(hc.args) if i < len(hp_)}
        amap.update({k.arg: ap(k.value) for k in hc.keywords if k.arg})
        inv = {v: k for k, v in amap.items() if v}
        if dparam not in inv or sparam not in inv:
            raise AnalysisError(f"{h.qual}: builds a UDPPacket without being handed the datagram and its source")
        builder_calls.append(hc)
        for c in built:
            sites.append((h, c, inv[dparam], inv[sparam], hc))
        helper_args[h.full] = amap
    n_out = n_in = 0
    for fn, c, dp, sp, outer in sites:
        fcfg = cfg if fn == dr else CFG(fn.node)
        a = ctor_args(repo, c, "UDPPacket", BTRANS)
        d = ap(a.get("direction")) or ""
        where = ctx.w(fn, c)
        if d.endswith("Direction.OUT"):
            n_out += 1
            ctx.ob("C06.R2", "datagram_received[OUT]: src_addr is the datagram's source", ap(a.get("src_addr")) == sp, where)
            dst, dat = a.get("dst_addr"), a.get("data")
            # (dst, data) come from the parsed SOCKS datagram
            pfn, pnames = socks_parser(repo)
            rec_fields = None
            for r_ in [x for x in walk(pfn.node) if isinstance(x, ast.Return) and isinstance(x.value, ast.Call)]:
                rec_fields = rec_fields or namedtuple_fields(repo, ap(r_.value.func), pfn.module)

            def is_parse_call(v):
                return isinstance(v, ast.Call) and call_attr(v) in pnames and v.args and ap(v.args[0]) == dp
            parsed_names = {st_.path for st_ in stores(fn.node, into_defs=False) if st_.kind == "assign" and "." not in st_.path
                            and is_parse_call(st_.value) and isinstance(st_.target, ast.Name)}
            unpacked: Dict[str, int] = {}
            for st in walk(fn.node):
                if isinstance(st, ast.Assign) and isinstance(st.targets[0], ast.Tuple):
                    v = st.value
                    if is_parse_call(v) or (isinstance(v, ast.Name) and v.id in parsed_names):
                        for i_, t_ in enumerate(st.targets[0].elts):
                            if isinstance(t_, ast.Name):
                                unpacked[t_.id] = i_

            def elem_index(x, depth=0) -> Optional[int]:
                if isinstance(x, ast.Name):
                    if x.id in unpacked:
                        return unpacked[x.id]
                    v_ = single_assign(fn.node, x.id)
                    return elem_index(v_, depth + 1) if v_ is not None and depth < 3 else None
                if isinstance(x, ast.Attribute) and isinstance(x.value, ast.Name) and x.value.id in parsed_names \
                        and rec_fields and x.attr in rec_fields:
                    return rec_fields.index(x.attr)
                if isinstance(x, ast.Subscript) and isinstance(x.value, ast.Name) and x.value.id in parsed_names \
                        and isinstance(x.slice, ast.Constant) and isinstance(x.slice.value, int):
                    return x.slice.value
                return None
            okp = dst is not None and dat is not None and elem_index(dst) == 0 and elem_index(dat) == 1
            parsed_name = next(iter(parsed_names)) if len(parsed_names) == 1 else None
            ctx.ob("C06.R2", "datagram_received[OUT]: (dst_addr, data) are the (address, payload) parsed from the SOCKS header",
                   okp, where, f"dst={norm(dst) if dst is not None else None} data={norm(dat) if dat is not None else None}")
            if parsed_name:
                ctx.ob("C06.R2", "datagram_received[OUT]: only a successfully parsed datagram is forwarded",
                       path_fact(c, parsed_name, fn.node) is True, where,
                       "packet built although the SOCKS header was rejected")
            fromclient = equal_fact(c, {f"{sp}[0]", "self.socks_client_addr[0]"}, fn.node, norm) is True or \
                (outer is not None and equal_fact(outer, {f"{sparam}[0]", "self.socks_client_addr[0]"}, dr.node, norm) is True)
            ctx.ob("C06.R2", "datagram_received[OUT]: only datagrams from the SOCKS client's host are treated as outbound",
                   fromclient, where, "direction inference no longer tied to the association's client address")
            # the learning store (direct, or inside a self.-helper given (remote, source)) lies on every path that
            # builds this packet and hands it on
            learn_nodes = []
            for s_ in stores(fn.node):
                if s_.kind == "setitem" and s_.path == "self.far_to_near_map" and ap(s_.target.slice) == ap(dst) \
                        and ap(s_.value) == sp:
                    learn_nodes.extend(fcfg.nodes_for(s_.node))
            for hc in calls(fn.node, into_defs=False):
                callee = resolve_method_call(repo, fn, hc)
                if callee is None or callee == fn:
                    continue
                params = method_params(callee)
                argmap = {params[i]: ap(a) for i, a in enumerate(hc.args) if i < len(params)}
                argmap.update({k.arg: ap(k.value) for k in hc.keywords if k.arg})
                for s_ in stores(callee.node):
                    if s_.kind == "setitem" and s_.path == "self.far_to_near_map" and \
                            argmap.get(ap(s_.target.slice)) == ap(dst) and argmap.get(ap(s_.value)) == sp:
                        learn_nodes.extend(cfg_nodes(fcfg, hc))
            # what is learnt as a far address must not be a near (SOCKS client side) endpoint: not the sender itself,
            # not an address already known as near - else the direction inference flips for that endpoint for good
            learn_sites = [s_.node for s_ in stores(fn.node) if s_.kind == "setitem" and s_.path == "self.far_to_near_map"
                           and ap(s_.target.slice) == ap(dst) and ap(s_.value) == sp]
            learn_sites += [hc for hc in calls(fn.node, into_defs=False)
                            if any(n in learn_nodes for n in cfg_nodes(fcfg, hc)) and not any(hc is x for x in learn_sites)
                            and call_attr(hc) not in (None,) and isinstance(hc.func, ast.Attribute) and ap(hc.func.value) == "self"]
            for ls in learn_sites:
                not_self = equal_fact(ls, {ap(dst), sp}, fn.node, ap) is False
                not_near = any(isinstance(e, ast.Compare) and len(e.ops) == 1 and ap(e.left) == ap(dst) and
                               ((isinstance(e.ops[0], ast.In) and not pol) or (isinstance(e.ops[0], ast.NotIn) and pol))
                               and (norm(e.comparators[0]).startswith("self.far_to_near_map.values(") or
                                    "near" in (ap(e.comparators[0]) or ""))
                               for e, pol in facts(ls, fn.node))
                ctx.ob("C06.R2", "datagram_received[OUT]: the address learnt as far is known not to be a near endpoint",
                       not_self and not_near, ctx.w(fn, ls),
                       f"`{norm(ls)}` is reached without knowing that {ap(dst)} is neither the sender ({'known' if not_self else 'unknown'}) "
                       f"nor an address already learnt as near ({'known' if not_near else 'unknown'}): one discarded datagram "
                       f"addressed to the viewer's own endpoint makes every later datagram of the viewer look inbound")
            cn = cfg_nodes(fcfg, c)
            before = fcfg.reachable([fcfg.entry], avoid=lambda n: n in learn_nodes)
            after = fcfg.reachable(cn, avoid=lambda n: n in learn_nodes)
            if fn == dr:
                handle_nodes = [n for h in find_calls(fn.node, "handle_proxied_packet", into_defs=False) for n in cfg_nodes(fcfg, h)]
            else:   # the packet leaves the helper through its returns
                handle_nodes = [n for r_ in walk(fn.node) if isinstance(r_, ast.Return) and r_.value is not None
                                and not (isinstance(r_.value, ast.Constant) and r_.value.value is None) for n in fcfg.nodes_for(r_)]
            okl = bool(learn_nodes) and not (any(n in before for n in cn) and any(n in after for n in handle_nodes))
            ctx.ob("C06.R2", "datagram_received[OUT]: far_to_near_map[remote] = source is recorded with the packet", okl, where,
                   "replies from that simulator cannot be routed back to this viewer")
        elif d.endswith("Direction.IN"):
            n_in += 1
            ctx.ob("C06.R2", "datagram_received[IN]: src_addr is the datagram's source", ap(a.get("src_addr")) == sp, where)
            ctx.ob("C06.R2", "datagram_received[IN]: data is the raw datagram", ap(a.get("data")) == dp, where)
            dst = a.get("dst_addr")
            v = single_assign(fn.node, dst.id) if isinstance(dst, ast.Name) else None
            key_name = sp
            if v is None and isinstance(dst, ast.Name) and fn != dr:
                # the mapped near address is looked up by datagram_received and handed to the builder helper
                outer_name = helper_args.get(fn.full, {}).get(dst.id)
                if outer_name and "." not in outer_name:
                    v = single_assign(dr.node, outer_name)
                    key_name = sparam
            okm = isinstance(v, ast.Call) and ap(v.func) == "self.far_to_near_map.get" and v.args and ap(v.args[0]) == key_name
            ctx.ob("C06.R2", "datagram_received[IN]: dst_addr is far_to_near_map[source]", bool(okm), where,
                   f"dst_addr is {norm(dst) if dst is not None else None}")
            if isinstance(dst, ast.Name):
                ctx.ob("C06.R2", "datagram_received[IN]: datagrams from unknown hosts are discarded",
                       path_fact(c, dst.id, fn.node) is True, where, "packet built without a known near address")
        else:
            raise AnalysisError(f"datagram_received: UDPPacket with unknown direction {d!r}")
    ctx.floor("C06.R2", "OUT packet constructions", n_out, 1)
    ctx.floor("C06.R2", "IN packet constructions", n_in, 1)
    hps = find_calls(dr.node, "handle_proxied_packet", into_defs=False)
    ctx.ob("C06.R2", "datagram_received hands the packet to handle_proxied_packet", len(hps) >= 1, dr.where)
    pk_nodes = [n for c in pkts + builder_calls for n in cfg_nodes(cfg, c)]
    reach = cfg.reachable([cfg.entry], avoid=lambda n: n in pk_nodes)
    for h in hps:
        ctx.ob("C06.R2", "datagram_received: handle_proxied_packet only ever sees a packet built above",
               not any(n in reach for n in cfg_nodes(cfg, h)), ctx.w(dr, h),
               "a discard branch (non-SOCKS / unknown host) still reaches the handler")
        arg = h.args[0] if h.args else None
        vals = [s.value for s in stores(dr.node) if isinstance(arg, ast.Name) and s.path == arg.id and s.kind == "assign"]
        ctx.ob("C06.R2", "datagram_received: the handled packet is the constructed one",
               bool(vals) and all(any(v is c for c in pkts + builder_calls) for v in vals), ctx.w(dr, h))
        # a builder helper may answer None (rejected datagram): that must never reach the handler
        if builder_calls and isinstance(arg, ast.Name):
            class Nullable(Explorer):
                bad = False

                def on_stmt(self_, s_, st_):
                    if isinstance(s_, ast.Assign) and len(s_.targets) == 1 and ap(s_.targets[0]) == arg.id:
                        self_.simple(s_, st_)
                        if any(s_.value is bc for bc in builder_calls):
                            outs_ = []
                            for isnone in (True, False):
                                s2 = st_.copy()
                                assume(ast.Compare(left=ast.Name(id=arg.id, ctx=ast.Load()), ops=[ast.Is()],
                                                   comparators=[ast.Constant(value=None)]), isnone, s2)
                                if not isnone:
                                    assume(ast.Name(id=arg.id, ctx=ast.Load()), True, s2)
                                outs_.append(("fall", None, s2))
                            return outs_
                        assume(ast.Name(id=arg.id, ctx=ast.Load()), True, st_)
                        return [("fall", None, st_)]
                    if any(x is h for x in ast.walk(s_)) and not isinstance(s_, (ast.If, ast.For, ast.While, ast.Try, ast.With)):
                        if tv(ast.Name(id=arg.id, ctx=ast.Load()), st_) is not True:
                            self_.bad = True
                    return None
            nx = Nullable()
            nx.explore(dr.node.body, St())
            ctx.ob("C06.R2", "datagram_received: a datagram the packet builder rejected (None) never reaches the handler",
                   not nx.bad, ctx.w(dr, h), "handle_proxied_packet can be called with None")
    # far_to_near_map ownership
    for f, st in writers_of(repo, "far_to_near_map"):
        if f.module.rel == "hippolyzer/lib/proxy/test_utils.py":
            continue  # test harness seeds the map instead of sending a first outbound datagram
        kind = st.kind + (f":{st.method}" if st.method else "")
        helper_of_dr = f.cls is not None and f.cls.name == "UDPProxyProtocol" and f != dr and \
            all(g == dr for g, _ in callers_of(repo, f.name)) and bool(callers_of(repo, f.name))
        ok = (f.qual == "UDPProxyProtocol.__init__" and kind == "assign") or \
            ((f == dr or helper_of_dr) and kind == "setitem")
        ctx.ob("C06.R2", f"{f.qual}: {kind} on far_to_near_map is the constructor or the learning store", ok, ctx.w(f, st.node),
               "the far->near map is written outside address learning: a discard / error path that removes or "
               "rewrites a route disturbs the delivery of later datagrams from that simulator")

    # UDPPacket properties
    ucls = repo.cls("UDPPacket", BTRANS)
    for prop, member in (("outgoing", "Direction.OUT"), ("incoming", "Direction.IN")):
        f = ucls.methods.get(prop)
        ctx.require(f is not None, f"UDPPacket.{prop} vanished")
        rets = [r for r in walk(f.node) if isinstance(r, ast.Return)]
        ok = len(rets) == 1 and isinstance(rets[0].value, ast.Compare) and len(rets[0].value.ops) == 1 and \
            isinstance(rets[0].value.ops[0], (ast.Eq, ast.Is)) and \
            {ap(rets[0].value.left), ap(rets[0].value.comparators[0])} == {"self.direction", member}
        ctx.ob("C06.R2", f"UDPPacket.{prop} is direction == {member}", ok, f.where)
    fa = ucls.methods.get("far_addr")
    ctx.require(fa is not None, "UDPPacket.far_addr vanished")
    def leaves(e):
        if isinstance(e, ast.IfExp):
            return leaves(e.body) + leaves(e.orelse)
        return [e]
    for r in [r for r in walk(fa.node) if isinstance(r, ast.Return) and r.value is not None]:
        for leaf in leaves(r.value):
            og = path_fact(leaf, "self.outgoing", fa.node)
            ic = path_fact(leaf, "self.incoming", fa.node)
            out_side = og is True or ic is False
            in_side = og is False or ic is True
            ctx.require(out_side or in_side, "UDPPacket.far_addr: return not classified by direction")
            want = "self.dst_addr" if out_side else "self.src_addr"
            ctx.ob("C06.R2", f"UDPPacket.far_addr[{'OUT' if out_side else 'IN'}] is {want}", ap(leaf) == want, ctx.w(fa, r),
                   f"returns {norm(leaf)}")
    check_invert(ctx, "C06.R2")

    # Circuit.send_datagram swaps by direction
    sd = repo.fn("Circuit.send_datagram", BCIRC)
    dcls = repo.cls("Direction", BTRANS)
    mem = enum_members(repo, dcls)
    sd_params = [a.arg for a in sd.node.args.args][1:]
    ctx.require(sd_params[:2] == ["data", "direction"], "Circuit.send_datagram signature changed")
    for m in ("OUT", "IN"):
        ev = ConstEval(repo, sd.module)
        env: Dict[str, Any] = {"direction": EnumVal("Direction", m, mem[m])}
        try:
            body = [s for s in sd.node.body if not (isinstance(s, ast.Expr) and isinstance(s.value, ast.Call)
                                                    and call_attr(s.value) == "send_packet")]
            run_block(ev, body, env)
        except AnalysisError as e:
            raise AnalysisError(f"C06.R2 send_datagram[{m}]: {e}")
        built = [v for v in env.values() if isinstance(v, CallVal) and v.func.split(".")[-1] == "UDPPacket"]
        ctx.require(len(built) == 1, f"send_datagram[{m}]: expected one UDPPacket construction")
        kws = dict(zip(ctor_params(repo, "UDPPacket", BTRANS), built[0].args))
        kws.update(dict(built[0].kwargs))
        srcv, dstv = kws.get("src_addr"), kws.get("dst_addr")
        datv, dirv = kws.get("data"), kws.get("direction")
        want = ("self.near_host", "self.host") if m == "OUT" else ("self.host", "self.near_host")
        got = (getattr(srcv, "text", None), getattr(dstv, "text", None))
        ctx.ob("C06.R2", f"Circuit.send_datagram[{m}]: (src, dst) = {want}", got == want, sd.where, f"builds {got}")
        ctx.ob("C06.R2", f"Circuit.send_datagram[{m}]: payload and direction passed through unchanged",
               getattr(datv, "text", None) == "data" and isinstance(dirv, EnumVal) and dirv.name == m, sd.where,
               f"data={datv!r} direction={dirv!r}")
    sp = find_calls(sd.node, "send_packet")
    okp = len(sp) == 1 and sp[0].args and isinstance(sp[0].args[0], ast.Name) and \
        isinstance(single_assign(sd.node, sp[0].args[0].id), ast.Call) and \
        call_attr(single_assign(sd.node, sp[0].args[0].id)) == "UDPPacket"
    ctx.ob("C06.R2", "Circuit.send_datagram hands exactly the built packet to the transport once", bool(okp), sd.where)

    # transports
    for kname, mod in (("SOCKS5UDPTransport", PTRANS), ("SocketUDPTransport", BTRANS)):
        q = f"{kname}.send_packet"
        kcls = repo.cls(kname, mod)
        f = repo.lookup_method(kcls, "send_packet")
        ctx.require(f is not None, f"{kname}: no send_packet along its MRO")
        pk = msg_param(f)
        st_calls = find_calls(f.node, "sendto")
        ctx.ob("C06.R2", f"{q} sends one datagram", len(st_calls) == 1, f.where, f"found {len(st_calls)} sendto calls")
        for c in st_calls:
            ctx.ob("C06.R2", f"{q} targets {pk}.dst_addr", len(c.args) >= 2 and ap(c.args[1]) == f"{pk}.dst_addr", ctx.w(f, c),
                   f"target is {norm(c.args[1]) if len(c.args) > 1 else None}")
            a0 = c.args[0] if c.args else None
            if isinstance(a0, ast.Name) and single_assign(f.node, a0.id) is not None:
                a0 = single_assign(f.node, a0.id)
            # the bytes are the packet's data, framed by the serialize() this class resolves to (the SOCKS transport:
            # the header-adding one C06.R1 reads; the plain one: nothing but <packet>.data)
            okb = False
            if isinstance(a0, ast.Call) and call_attr(a0) == "serialize" and len(a0.args) == 1 and ap(a0.args[0]) == pk \
                    and not a0.keywords and isinstance(a0.func, ast.Attribute) and ap(a0.func.value) in ("self", "cls", kname):
                sz = repo.lookup_method(kcls, "serialize")
                if kname == "SOCKS5UDPTransport":
                    okb = sz is not None and sz == repo.fn("SOCKS5UDPTransport.serialize")
                elif sz is not None:
                    zr = [r for r in walk(sz.node) if isinstance(r, ast.Return)]
                    zp = msg_param(sz)
                    okb = len(zr) == 1 and ap(zr[0].value) == f"{zp}.data"
            elif ap(a0) == f"{pk}.data":
                okb = kname != "SOCKS5UDPTransport"
            ctx.ob("C06.R2", f"{q} sends the packet's own bytes", bool(okb), ctx.w(f, c), f"payload {norm(a0) if a0 is not None else None}")
        # the SOCKS transport sends both ways: a refusal inherited from the plain transport must be switched off by a
        # constant of the class
        if kname == "SOCKS5UDPTransport":
            kev = ConstEval(repo, kcls.module)
            for r_ in [x for x in walk(f.node) if isinstance(x, ast.Raise)]:
                dead = False
                for e, pol in facts(r_, f.node):
                    p_ = ap(e) or ""
                    if p_.count(".") == 1 and p_.split(".")[0] in ("self", "cls", kname):
                        node = repo.class_attr(kcls, p_.split(".")[1])
                        v = kev.ev(node) if node is not None else None
                        if isinstance(v, (bool, int)) and bool(v) != pol:
                            dead = True
                ctx.ob("C06.R2", f"{q} never refuses a packet because of its direction", dead, ctx.w(f, r_),
                       f"`{norm(r_)}` is reachable for the SOCKS transport: datagrams from the simulators (inbound) are not "
                       f"delivered to the viewer")
    # circuits opened with the right peers
    hp = repo.fn("InterceptingLLUDPProxyProtocol.handle_proxied_packet")
    pkp = msg_param(hp)
    for c in find_calls(hp.node, "open_circuit", into_defs=False):
        ok = len(c.args) >= 2 and ap(c.args[0]) == f"{pkp}.src_addr" and ap(c.args[1]) == f"{pkp}.dst_addr"
        ctx.ob("C06.R2", "handle_proxied_packet opens the circuit (near=packet.src_addr, far=packet.dst_addr)", ok, ctx.w(hp, c))
    oc = repo.fn("Session.open_circuit", SESS)
    ocp = [a.arg for a in oc.node.args.args][1:]
    for c in find_calls(oc.node, "ProxiedCircuit"):
        a = ctor_args(repo, c, "ProxiedCircuit")
        ok = ap(a.get("near_host")) == ocp[0] and ap(a.get("far_host")) == ocp[1] and ap(a.get("transport")) == ocp[2]
        ctx.ob("C06.R2", "Session.open_circuit builds the circuit with (near_addr, circuit_addr, transport)", ok, ctx.w(oc, c))
    check_region_lookup(ctx, "C06.R2")


def check_region_lookup(ctx, rule: str):
    """region_by_circuit_addr (shared by proxy and client) answers a region only under the fact that its
    circuit_addr equals the argument - also on a fast path / cache in front of the scan."""
    repo = ctx.repo
    _REPO[0] = repo
    rb = repo.fn("BaseClientSession.region_by_circuit_addr", STATE)
    rparam = msg_param(rb)
    nret = 0
    for r in [r for r in walk(rb.node) if isinstance(r, ast.Return)]:
        if r.value is None or (isinstance(r.value, ast.Constant) and r.value.value is None):
            continue
        nret += 1
        anchor, v, _ = selected_element(rb, r)
        ok = equal_fact(anchor, {f"{v}.circuit_addr", rparam}, rb.node, ap) is True
        ctx.ob(rule, "region_by_circuit_addr returns a region only when its circuit_addr equals the argument", ok, ctx.w(rb, r),
               "a datagram could be attributed to another simulator's region")
    ctx.floor(rule, "region_by_circuit_addr region returns", nret, 1)


def r2_identity(ctx):
    """circuit_addr is the key datagrams are attributed by and the circuit was built for: it is set by the
    region constructors only."""
    repo = ctx.repo
    n = 0
    for f, st in writers_of(repo, "circuit_addr"):
        n += 1
        ok = f.name == "__init__" and st.path == "self.circuit_addr" and st.kind == "assign"
        ctx.ob("C06.R2", f"{f.qual}: {st.kind} on {st.path} happens in the region constructor only", ok, ctx.w(f, st.node),
               "circuit_addr of an existing region is reassigned: its circuit still talks to the old simulator "
               "address while datagrams from the new address are attributed to it (and the old address loses its region)")
    ctx.floor("C06.R2", "circuit_addr writers (region constructors)", n, 2)


_REPO: List[Any] = [None]      # set by the rules that use selected_element (the repo the current run analyses)


def selected_element(fn: FuncInfo, r: ast.Return) -> Tuple[ast.AST, Optional[str], Optional[str]]:
    """For `return x`: (node whose facts describe the returned object, its name there, its name at the return).
    `x = next((c for c in xs if <filters>), None)` is described by the generator element under its filters."""
    val = r.value
    outer = ap(val)
    if isinstance(val, ast.Name):
        v0 = single_assign(fn.node, val.id)
        if isinstance(v0, ast.Call) and ap(v0.func) == "next":
            val = v0
    if isinstance(val, ast.Call) and ap(val.func) == "next" and val.args:
        gen = val.args[0]
        if isinstance(gen, ast.Name) and single_assign(fn.node, gen.id) is not None:
            gen = single_assign(fn.node, gen.id)
        dflt = val.args[1] if len(val.args) > 1 else None
        if not (isinstance(gen, ast.GeneratorExp) and isinstance(gen.elt, ast.Name)
                and isinstance(dflt, ast.Constant) and dflt.value is None):
            raise AnalysisError(f"{fn.qual}: unsupported result {norm(r.value)}")
        return gen.elt, gen.elt.id, outer
    if isinstance(val, ast.Call) and _REPO[0] is not None:
        # `return self._find(lambda x: <cond>)`: a finder helper that returns the first element its predicate
        # parameter accepts - the returned object is described by the lambda body
        from .c05 import method_params, resolve_method_call
        h = resolve_method_call(_REPO[0], fn, val)
        lams = [(i, a) for i, a in enumerate(val.args) if isinstance(a, ast.Lambda)]
        if h is not None and len(lams) == 1 and len(lams[0][1].args.args) == 1:
            params = method_params(h)
            pred = params[lams[0][0]] if lams[0][0] < len(params) else None
            rets = [x for x in walk(h.node) if isinstance(x, ast.Return) and x.value is not None
                    and not (isinstance(x.value, ast.Constant) and x.value.value is None)]
            ok = bool(rets) and pred is not None
            for x in rets:
                v_ = ap(x.value)
                ok = ok and v_ is not None and any(
                    isinstance(e, ast.Call) and ap(e.func) == pred and len(e.args) == 1 and ap(e.args[0]) == v_ and pol
                    for e, pol in facts(x, h.node))
            if ok:
                lam = lams[0][1]
                probe = ast.Pass()
                holder = ast.If(test=lam.body, body=[probe], orelse=[])
                probe._parent = holder
                holder._parent = None
                return probe, lam.args.args[0].arg, outer
    if ap(val) is None:
        raise AnalysisError(f"{fn.qual}: unsupported result {norm(r.value)}")
    return r, ap(val), outer


def equal_fact(node, sides: set, stop, key) -> Optional[bool]:
    """Is `a == b` (sides given as a set of key() texts) known at node?  `==` true and `!=` false both
    establish equality (guard-clause and nested spellings are the same fact)."""
    from .c05 import facts_resolved
    for e, pol in (facts_resolved(node, stop) if stop is not None else facts(node, stop)):
        if isinstance(e, ast.Compare) and len(e.ops) == 1 and isinstance(e.ops[0], (ast.Eq, ast.NotEq)) \
                and {key(e.left), key(e.comparators[0])} == sides:
            return pol if isinstance(e.ops[0], ast.Eq) else not pol
    return None


def _same_block(a, b) -> bool:
    ba, _ = _block_of(a)
    bb, _ = _block_of(b)
    return ba is not None and ba is bb


# ============================================================================ R3 validity dominates effects

EFFECT_CALLS = {"collect_acks", "handle_lludp_message", "handle_region_changed", "drop_message", "mark_dead",
                "track_region_objects", "load_cache", "log_lludp_message"}


def effects_of(hp: FuncInfo, repo=None) -> List[Tuple[ast.AST, str]]:
    """(node inside hp, description) of everything that touches session / region state or forwards: in hp itself,
    and - anchored at the call - in stage helpers of the protocol class that are handed the region."""
    from .c05 import method_params, resolve_method_call
    rvar = lookup_var(hp, "region_by_circuit_addr")

    def direct(fn, rname):
        res = []
        for c in calls(fn.node, into_defs=False):
            a, p = call_attr(c), ap(c.func) or ""
            if a in EFFECT_CALLS or (a == "handle" and p.endswith("message_handler.handle")) or \
                    (a in ("send", "send_reliable") and p.endswith("circuit." + a)):
                res.append((c, norm(c)))
        for st in stores(fn.node, into_defs=False):
            pre = tuple(x for x in ((rname + ".") if rname else None, "self.session.") if x)
            if st.path.startswith(pre) and st.kind in ("assign", "augassign", "setitem", "delitem", "del", "augsetitem"):
                res.append((st.node, f"store {st.path}"))
        return res
    out = direct(hp, rvar)
    if repo is not None:
        for hc in calls(hp.node, into_defs=False):
            h = resolve_method_call(repo, hp, hc)
            if h is None or h == hp:
                continue
            params = method_params(h)
            rname = next((params[i] for i, a_ in enumerate(hc.args) if i < len(params) and ap(a_) == rvar), None)
            out.extend((hc, f"{h.name}: {d}") for _, d in direct(h, rname))
    return out


def r3(ctx):
    repo = ctx.repo
    ctx.rule("C06.R3", "validity checks dominate effects: for incoming datagrams the UDP-ban check, and for all the "
                       "region lookup by far address, precede every handler / state store / forward; sessions are "
                       "claimed and circuits opened only for outgoing UseCircuitCode")
    hp = repo.fn("InterceptingLLUDPProxyProtocol.handle_proxied_packet")
    pk = msg_param(hp)
    cfg = CFG(hp.node)
    effs = effects_of(hp, repo)
    ctx.floor("C06.R3", "effect sites in handle_proxied_packet", len(effs), 8)

    # ---- ban check
    ban_pnodes: List[Any] = []
    ban_desc = None
    inc_paths = {f"{pk}.incoming"}
    out_paths = {f"{pk}.outgoing"}
    for st in stores(hp.node, into_defs=False):
        if st.kind == "assign" and st.value is not None and "." not in st.path and single_assign(hp.node, st.path) is not None:
            if ap(st.value) == f"{pk}.incoming":
                inc_paths.add(st.path)
            elif ap(st.value) == f"{pk}.outgoing":
                out_paths.add(st.path)

    def is_incoming(node, stop=None) -> bool:
        return any(path_fact(node, p, stop or hp.node) is True for p in inc_paths) or \
            any(path_fact(node, p, stop or hp.node) is False for p in out_paths)
    ban_points: List[Tuple[ast.AST, ast.AST]] = []      # (anchor node for facts, statement/expr that is the check)
    for c in calls(hp.node, into_defs=False):
        f = c.func
        target = None
        if isinstance(f, ast.Attribute) and isinstance(f.value, ast.Name) and f.value.id == "self" and hp.cls is not None:
            target = repo.lookup_method(hp.cls, f.attr)
        if target is not None and _raises_when_banned(ctx, target, c):
            ban_points.append((c, c))
    from ..core import always_exits
    for n in walk(hp.node):
        if isinstance(n, ast.If) and always_exits(n.body) and \
                any(isinstance(e, ast.Call) and call_attr(e) == "validate_udp_msg" and not pol for e, pol in atoms(n.test, True)):
            ban_points.append((n, n))
    for anchor, chk in ban_points:
        ban_desc = norm(chk.test if isinstance(chk, ast.If) else chk)
        own = cfg.nodes_for(chk) if isinstance(chk, ast.stmt) else cfg_nodes(cfg, chk)
        if isinstance(chk, ast.If) and any(ap(e) in inc_paths and pol or ap(e) in out_paths and not pol
                                           for e, pol in atoms(chk.test, True)):
            ban_pnodes.extend(own)      # `if packet.incoming and not allowed(...): discard`
        elif is_incoming(anchor):
            # P-node: the enclosing `if packet.incoming` test; inside that branch the check must be unconditional
            # and nothing with an effect may precede it
            for a in ancestors(anchor):
                if isinstance(a, ast.If) and any(ap(e) in inc_paths | out_paths for e, _ in atoms(a.test, True)):
                    ban_pnodes.extend(cfg.nodes_for(a))
                    inner = [("" if pol else "not ") + norm(e) for e, pol in facts(anchor, a)
                             if ap(e) not in inc_paths | out_paths]
                    if inner:
                        ctx.ob("C06.R3", "UDP-ban check runs for every incoming message", False, ctx.w(hp, anchor),
                               f"the check additionally depends on {inner}")
                    blk = a.body if any(any(x is anchor for x in ast.walk(s)) for s in a.body) else a.orelse
                    for s in blk:
                        if any(x is anchor for x in ast.walk(s)):
                            break
                        for e, d in effs:
                            if any(x is e for x in ast.walk(s)):
                                ctx.ob("C06.R3", f"{d} precedes the UDP-ban check inside its branch", False, ctx.w(hp, e))
                    break
        else:
            ban_pnodes.extend(own)
    ctx.ob("C06.R3", "handle_proxied_packet checks the UDP ban list for incoming messages", bool(ban_pnodes), hp.where,
           "no call that raises/returns when validate_udp_msg(message.name) is false: UDP-banned messages are "
           "processed and forwarded")
    if ban_pnodes:
        reach = cfg.reachable([cfg.entry], avoid=lambda n: n in ban_pnodes)
        for e, d in effs:
            if isinstance(e, ast.Call) and call_attr(e) in ("collect_acks", "drop_message"):
                # transport-level ack bookkeeping: the packet was received even if its message is refused (C05.R5
                # wants it in front of the refusal); what must not happen before the ban check is handler / session /
                # region state work and the forward
                continue
            bad = [n for n in (cfg.nodes_for(e) if isinstance(e, ast.stmt) else cfg_nodes(cfg, e)) if n in reach]
            ctx.ob("C06.R3", f"handle_proxied_packet: {d} is dominated by the UDP-ban check", not bad, ctx.w(hp, e),
                   f"reachable without passing `{ban_desc}`: a banned datagram disturbs state before it is discarded")

    # ---- region validity
    rvar = lookup_var(hp, "region_by_circuit_addr")
    reg_assigns = [st for st in stores(hp.node, into_defs=False) if st.path == rvar and st.kind == "assign"]
    for st in reg_assigns:
        v = st.value
        if isinstance(v, ast.Constant) and v.value is None:
            continue
        ok = isinstance(v, ast.Call) and call_attr(v) == "region_by_circuit_addr" and v.args and ap(v.args[0]) == f"{pk}.far_addr"
        ctx.ob("C06.R3", f"handle_proxied_packet: region = {norm(v)} is the lookup by the packet's far address", bool(ok),
               ctx.w(hp, st.node), "the datagram is attributed to a region by something other than its simulator address")
        ctx.ob("C06.R3", f"handle_proxied_packet: region is not reassigned after its validity check ({norm(v)})",
               path_fact(st.node, rvar, hp.node) is not True, ctx.w(hp, st.node))
    ctx.floor("C06.R3", "region lookups", sum(1 for st in reg_assigns if isinstance(st.value, ast.Call)), 1)
    for e, d in effs:
        ctx.ob("C06.R3", f"handle_proxied_packet: {d} happens only for a datagram with a known circuit (region)",
               path_fact(e, rvar, hp.node) is True, ctx.w(hp, e),
               "reachable for an unknown circuit: a discarded datagram disturbs session/region state")
    nderef = 0
    for n in walk(hp.node):
        if isinstance(n, ast.Attribute) and isinstance(n.value, ast.Name) and n.value.id == rvar and isinstance(n.ctx, ast.Load):
            nderef += 1
            ctx.ob("C06.R3", f"handle_proxied_packet: use of region.{n.attr} is dominated by the region check",
                   path_fact(n, rvar, hp.node) is True, ctx.w(hp, n), "region may be None here")
    ctx.floor("C06.R3", "region dereferences", nderef, 2)

    # ---- claim / open only for outgoing UseCircuitCode (self.-helpers of the protocol class are followed)
    for nm in ("claim_session", "open_circuit"):
        chains = helper_chains(repo, hp, lambda c, nm=nm: call_attr(c) == nm, {pk: pk})
        ctx.floor("C06.R3", f"{nm} calls", len(chains), 1)
        for chain in chains:
            fi, c, _ = chain[-1]
            okn = any(name_fact(n, "UseCircuitCode", f.node, xf=(repo, f)) is True for f, n, _ in chain)
            oko = any(names.get(pk) and (path_fact(n, f"{names[pk]}.outgoing", f.node, xf=(repo, f)) is True or
                                         path_fact(n, f"{names[pk]}.incoming", f.node, xf=(repo, f)) is False)
                      for f, n, names in chain)
            ctx.ob("C06.R3", f"handle_proxied_packet: {nm} only for an outgoing UseCircuitCode", okn and oko, ctx.w(fi, c),
                   f"name==UseCircuitCode known: {okn}, outgoing known: {oko}")
            if nm == "claim_session":
                ctx.ob("C06.R3", "handle_proxied_packet: a session is claimed only while none is attached",
                       any(path_fact(n, "self.session", f.node) is False for f, n, _ in chain), ctx.w(fi, c))
    # ---- the ban predicate itself
    vm = repo.fn("MessageDotXML.validate_udp_msg")
    rets = [r for r in walk(vm.node) if isinstance(r, ast.Return)]
    falsy = [r for r in rets if r.value is None or not (isinstance(r.value, ast.Constant) and bool(r.value.value))]
    ctx.ob("C06.R3", "validate_udp_msg can refuse a message", len(falsy) >= 1, vm.where, "the ban predicate is constantly true")
    # the verdict is the message.xml flavor and nothing else: True only for unknown messages or flavor == 'template'
    mname = msg_param(vm)

    def is_flavor_test(e) -> bool:
        if not (isinstance(e, ast.Compare) and len(e.ops) == 1 and isinstance(e.ops[0], ast.Eq)):
            return False
        l, r_ = e.left, e.comparators[0]
        for a_, b_ in ((l, r_), (r_, l)):
            bv = b_.value if isinstance(b_, ast.Constant) else ConstEval(repo, vm.module).ev(b_)
            if bv == "template" and any(isinstance(n_, ast.Constant) and n_.value == "flavor" for n_ in ast.walk(a_)):
                return True
        return False

    def unknown_fact(node) -> bool:
        for e, pol in facts(node, vm.node):
            if isinstance(e, ast.Compare) and len(e.ops) == 1 and ap(e.left) == mname and \
                    (ap(e.comparators[0]) or "").endswith(".messages"):
                if (isinstance(e.ops[0], ast.In) and not pol) or (isinstance(e.ops[0], ast.NotIn) and pol):
                    return True
            nt = is_none_test(e)
            if nt and "." not in nt[0] and ((nt[1] and pol) or (not nt[1] and not pol)):
                v_ = single_assign(vm.node, nt[0])
                if isinstance(v_, ast.Call) and (ap(v_.func) or "").endswith(".messages.get") and v_.args and ap(v_.args[0]) == mname:
                    return True
        return False

    def leaves(e):
        if isinstance(e, ast.IfExp):
            return leaves(e.body) + leaves(e.orelse)
        return [e]
    for r in rets:
        for leaf in (leaves(r.value) if r.value is not None else []):
            if isinstance(leaf, ast.Constant) and not leaf.value:
                continue
            templ = any(is_flavor_test(e) and pol for e, pol in facts(leaf, vm.node))
            if isinstance(leaf, ast.Constant):
                ok = templ or unknown_fact(leaf)
            else:
                ok = is_flavor_test(leaf)
            ctx.ob("C06.R3", "validate_udp_msg allows a message only when message.xml does not know it or its flavor is 'template'",
                   ok, ctx.w(vm, r), f"`{norm(r)}` can allow a message that message.xml lists with a non-template "
                   f"flavor (banned from UDP): it is forwarded instead of discarded")


MSGXML = "hippolyzer/lib/base/message/data/message.xml"


def r3_msgxml(ctx):
    """The ban table itself: the LLSD map parser keeps the last of two equal keys, so a message listed twice
    silently takes the later flavor.  The data file is read as text and parsed with the stdlib XML parser."""
    import os
    import xml.etree.ElementTree as ET
    repo = ctx.repo
    text = repo.overlay.get(MSGXML)
    if text is None:
        path = os.path.join(repo.root, MSGXML)
        if not os.path.exists(path):
            raise AnalysisError(f"anchor data file vanished: {MSGXML}")
        with open(path, encoding="utf8") as f:
            text = f.read()
    try:
        root = ET.fromstring(text)
    except ET.ParseError as e:
        raise AnalysisError(f"{MSGXML} is not well-formed XML: {e}")
    nmaps = nkeys = 0
    top = root.find("map")
    ctx.require(top is not None, f"{MSGXML}: top-level <map> not found")

    def flavor_of(val):
        """What the ban predicate reads from a row: its `flavor` (rows that are not maps: their text)."""
        if val is None:
            return None
        if val.tag != "map":
            return (val.tag, (val.text or "").strip())
        kids = list(val)
        for i in range(0, len(kids) - 1, 2):
            if kids[i].tag == "key" and (kids[i].text or "").strip() == "flavor":
                return ("flavor", (kids[i + 1].text or "").strip())
        return ("flavor", None)

    def visit(m, label):
        nonlocal nmaps, nkeys
        nmaps += 1
        seen: Dict[str, list] = {}
        kids = list(m)
        i = 0
        while i < len(kids):
            k = kids[i]
            if k.tag != "key":
                raise AnalysisError(f"{MSGXML}: map {label} has a value without a key")
            name = (k.text or "").strip()
            nkeys += 1
            val = kids[i + 1] if i + 1 < len(kids) else None
            seen.setdefault(name, []).append(flavor_of(val))
            if val is not None and val.tag == "map":
                visit(val, f"{label}.{name}")
            i += 2
        conflicting = sorted(k_ for k_, vs in seen.items() if len(set(vs)) > 1)
        benign = sorted(k_ for k_, vs in seen.items() if len(vs) > 1 and len(set(vs)) == 1)
        if benign:
            ctx.note(f"message.xml: key(s) {benign} occur more than once in map {label} with the same flavor "
                     f"(the parser keeps the last row; the UDP-ban verdict is unaffected)")
        if label.count(".") >= 2 and not conflicting:
            return      # per-message rows: reported only when they conflict
        ctx.ob("C06.R3", f"message.xml: no key of map {label} is listed twice with different flavors", not conflicting, MSGXML,
               f"key(s) {conflicting} occur twice with different flavors: the LLSD parser keeps the last row, so whether "
               f"the message is banned from UDP depends on which row comes later")
    seen_top = [c.text.strip() for c in top if c.tag == "key" and c.text]
    ctx.require("messages" in seen_top, f"{MSGXML}: no `messages` map")
    # only the tables themselves are obligations (per-message maps are visited for their keys, reported when duplicated)
    visit(top, "<top>")
    ctx.floor("C06.R3", "message.xml keys", nkeys, 100)


def r3_teardown(ctx):
    """A fault on one datagram must not take the association (and with it the session) down: the protocol
    classes never close themselves - teardown belongs to the owner of the SOCKS control connection."""
    repo = ctx.repo
    base = repo.cls("UDPProxyProtocol", SOCKS)
    offenders = []
    n = 0
    for ci in repo.subclasses(base):
        for f in ci.methods.values():
            n += 1
            if f.name in ("close", "__del__"):
                continue
            for c in calls(f.node, into_defs=True):
                p_ = ap(c.func) or ""
                if p_ in ("self.close", "self.transport.close") or call_attr(c) == "close_session":
                    offenders.append((f, c))
    for f, c in offenders:
        ctx.ob("C06.R3", f"{f.qual}: {norm(c)} - protocol callbacks never tear the association down", False, ctx.w(f, c),
               "the association / session is closed from inside a protocol callback (one socket serves the viewer and all "
               "of its simulators): every later datagram on every open circuit is lost")
    ctx.ob("C06.R3", "UDP association teardown is left to the SOCKS control connection (ProxyClientContext.close)",
           not offenders, base.module.rel + f":{base.node.lineno}")
    ctx.floor("C06.R3", "protocol methods scanned for self-teardown", n, 5)


def r3_claim(ctx):
    """A pending session is handed to exactly one UDP association: claim_session returns a session only
    while it is pending, with the requested id, and clears `pending` before returning it."""
    repo = ctx.repo
    _REPO[0] = repo
    cs = repo.fn("SessionManager.claim_session", SESS)
    sid = msg_param(cs)
    cfg = CFG(cs.node)
    nret = 0
    for r in [r for r in walk(cs.node) if isinstance(r, ast.Return)]:
        if r.value is None or (isinstance(r.value, ast.Constant) and r.value.value is None):
            continue
        anchor, inner, v = selected_element(cs, r)
        v = v or inner
        nret += 1
        ctx.ob("C06.R3", "claim_session hands out a session only while it is pending",
               path_fact(anchor, f"{inner}.pending", cs.node) is True, ctx.w(cs, r),
               "an already claimed session is returned again: a second UDP association attaches to a session that "
               "belongs to another viewer connection")
        ctx.ob("C06.R3", "claim_session hands out the session with the requested id",
               equal_fact(anchor, {f"{inner}.id", sid}, cs.node, ap) is True, ctx.w(cs, r))
        # path form: on every path that returns an actual session (not None) `pending` was cleared before
        class Claim(Explorer):
            def on_stmt(self, s_, st_):
                if isinstance(s_, (ast.Assign, ast.AugAssign, ast.AnnAssign, ast.Expr)):
                    for sto in stores(s_, into_defs=False):
                        if sto.path == f"{v}.pending" and isinstance(sto.value, ast.Constant) and sto.value.value is False:
                            st_.data["cleared"] = True
                return None
        uncleared = False
        for kind, node, st_ in Claim().explore(cs.node.body, St(data={"cleared": False})):
            if kind != "return" or node is not r:
                continue
            isnone = tv(ast.Compare(left=ast.Name(id=v, ctx=ast.Load()), ops=[ast.Is()], comparators=[ast.Constant(value=None)]), st_)
            if isnone is True or tv(ast.Name(id=v, ctx=ast.Load()), st_) is False:
                continue
            if not st_.data["cleared"]:
                uncleared = True
        ctx.ob("C06.R3", "claim_session clears `pending` before returning the session", not uncleared, ctx.w(cs, r),
               "the session stays pending: the next association can claim it as well")
    ctx.ob("C06.R3", "claim_session can hand out a session", nret >= 1, cs.where, "no viewer can ever attach")


def helper_chains(repo, start: FuncInfo, is_target, names: Dict[str, str], depth=2):
    """Call chains [(fn, node, names)] from `start` through self.-helper calls to calls satisfying is_target.
    `names` maps locals of `start` to the name they carry in each function (arguments passed as plain names)."""
    from .c05 import method_params, resolve_method_call
    out = []

    def rec(fi, nm, prefix, d):
        for c in calls(fi.node, into_defs=False):
            if is_target(c):
                out.append(prefix + [(fi, c, nm)])
                continue
            if d <= 0:
                continue
            callee = resolve_method_call(repo, fi, c)
            if callee is None or callee == fi or any(callee == f for f, _, _ in prefix):
                continue
            params = method_params(callee)
            inv = {v: k for k, v in nm.items()}
            sub = {}
            for i, a in enumerate(c.args):
                if isinstance(a, ast.Name) and a.id in inv and i < len(params):
                    sub[inv[a.id]] = params[i]
            for k in c.keywords:
                if isinstance(k.value, ast.Name) and k.value.id in inv and k.arg:
                    sub[inv[k.value.id]] = k.arg
            rec(callee, sub, prefix + [(fi, c, nm)], d - 1)
    rec(start, dict(names), [], depth)
    return out


def _raises_when_banned(ctx, target: FuncInfo, call: ast.Call) -> bool:
    """`target` raises on every path on which validate_udp_msg(<its message arg>.name) is false."""
    vs = find_calls(target.node, "validate_udp_msg", into_defs=False)
    if not vs:
        return False
    m = msg_param(target)
    if not any(v.args and ap(v.args[0]) == f"{m}.name" for v in vs):
        return False
    if not (call.args and ap(call.args[0])):
        return False

    class Ex(Explorer):
        pass
    outs = Ex().explore(target.node.body, St())
    saw = False
    for kind, node, st in outs:
        banned = any(isinstance(e, ast.Call) and call_attr(e) == "validate_udp_msg" and not pol for e, pol in st.env.values())
        if banned:
            saw = True
            if kind != "raise":
                return False
    return saw


# ============================================================================ R4 at most one forward

FORWARD_CALLS = {"send", "send_reliable", "_send_prepared_message", "send_datagram", "send_packet", "sendto"}


def _is_forward(c: ast.Call) -> bool:
    a, p = call_attr(c), ap(c.func) or ""
    if a in ("send", "send_reliable"):
        return p.endswith("circuit." + a) or p in ("circuit." + a,)
    return a in FORWARD_CALLS


def r4(ctx):
    repo = ctx.repo
    ctx.rule("C06.R4", "at most one forward per datagram, exactly one on the no-addon path: the final circuit.send is "
                       "guarded by `not message.finalized` and by nothing but the validity / addon verdicts")
    hp = repo.fn("InterceptingLLUDPProxyProtocol.handle_proxied_packet")
    cfg = CFG(hp.node)
    rvar = lookup_var(hp, "region_by_circuit_addr")
    handled_vars = {ap(st.target) for st in stores(hp.node, into_defs=False) if st.kind == "assign"
                    and isinstance(st.value, ast.Call) and call_attr(st.value) == "handle_lludp_message"}
    sites: List[Tuple[ast.Call, ast.Call, FuncInfo, List[Tuple[ast.AST, bool]]]] = []   # (node in hp, send call, fn, facts)
    for c in calls(hp.node, into_defs=False):
        if _is_forward(c):
            sites.append((c, c, hp, facts(c, hp.node)))
    helpers = [f for f in class_methods_reachable(repo, hp, depth=2) if f != hp and f.cls is not None
               and f.cls.name == "InterceptingLLUDPProxyProtocol"]
    for h in helpers:
        inner = [c for c in calls(h.node, into_defs=False) if _is_forward(c)]
        if not inner:
            continue
        for c in calls(hp.node, into_defs=False):
            f = c.func
            if isinstance(f, ast.Attribute) and isinstance(f.value, ast.Name) and f.value.id == "self" and f.attr == h.name:
                for ic in inner:
                    sites.append((c, ic, h, facts(c, hp.node) + facts(ic, h.node)))
    ctx.ob("C06.R4", "handle_proxied_packet forwards the datagram (circuit.send)", len(sites) >= 1, hp.where,
           "no forwarding call left: every datagram is swallowed")
    site_nodes = [n for c, _, _, _ in sites for n in cfg_nodes(cfg, c)]
    for c, ic, fn, fs in sites:
        key = f"{fn.qual}: {norm(ic)}"
        after = cfg.reachable(cfg_nodes(cfg, c))
        ctx.ob("C06.R4", f"{key} is the only forward on its path", not any(n in after for n in site_nodes), ctx.w(fn, ic),
               "another forwarding call is reachable afterwards: the datagram can be delivered twice")
        fin = any((ap(e) or "").endswith(".finalized") and not pol for e, pol in fs)
        ctx.ob("C06.R4", f"{key} is guarded by `not message.finalized`", fin, ctx.w(fn, ic),
               "a message an addon already sent or dropped is forwarded again")
        extra = []
        for e, pol in fs:
            p = ap(e) or ""
            if p.endswith(".finalized") and not pol:
                continue
            if p in handled_vars and not pol:
                continue
            if p in (rvar, "self.session") and pol:
                continue
            if isinstance(e, ast.Call) and call_attr(e) == "handle_proxied_packet" and not pol:
                continue
            if isinstance(e, ast.Call) and call_attr(e) == "handle_lludp_message" and not pol:
                continue
            nt = is_none_test(e)
            if nt and ((not nt[1] and pol) or (nt[1] and not pol)):
                continue
            # a compound validity verdict (`not self.session and not self._claim_session(..)` known false): every
            # leaf is the session or a helper of the protocol class that claims the session / opens the circuit
            if isinstance(e, (ast.BoolOp, ast.UnaryOp)):
                def leaves_(x):
                    if isinstance(x, ast.UnaryOp) and isinstance(x.op, ast.Not):
                        return leaves_(x.operand)
                    if isinstance(x, ast.BoolOp):
                        return [y for v in x.values for y in leaves_(v)]
                    return [x]

                def validity_leaf(x):
                    if ap(x) == "self.session":
                        return True
                    if isinstance(x, ast.Call):
                        from .c05 import resolve_method_call
                        h_ = resolve_method_call(repo, fn, x)
                        return h_ is not None and any(call_attr(c_) in ("claim_session", "open_circuit")
                                                      for c_ in calls(h_.node, into_defs=False))
                    return False
                if all(validity_leaf(x) for x in leaves_(e)):
                    continue
            extra.append(("" if pol else "not ") + norm(e))
        ctx.ob("C06.R4", f"{key} happens on the whole no-addon path", not extra, ctx.w(fn, ic),
               f"forwarding additionally depends on {extra}: some valid datagrams are not delivered")
    # a PacketAck is refused (not forwarded) only when blocks were removed from it: one that arrived without any
    # Packets entry is a valid message and is passed on like every other
    from .c05 import tracker_roles as _roles, is_const_sub as _ics
    pm_ = repo.fn("ProxiedCircuit.prepare_message")
    for f_ in _roles(ctx, pm_):
        if f_ == pm_ or not any(st_.kind == "setitem" and _ics(st_.target, "ID") for st_ in stores(f_.node)):
            continue
        m_ = msg_param(f_)
        for r_ in [x for x in walk(f_.node) if isinstance(x, ast.Return) and isinstance(x.value, ast.Constant) and x.value.value is False]:
            def mentions_original(e):
                parts = [e]
                for n_ in ast.walk(e):
                    if isinstance(n_, ast.Name):
                        v_ = single_assign(f_.node, n_.id)
                        if v_ is not None:
                            parts.append(v_)
                return any(_ics(x, "Packets") and ap(x.value) == m_ for p_ in parts for x in ast.walk(p_))
            had = any(pol and mentions_original(e) for e, pol in facts(r_, f_.node))
            ctx.ob("C06.R4", f"{f_.qual}: the PacketAck is refused only when it had blocks to begin with", had, ctx.w(f_, r_),
                   f"`{norm(r_)}` does not depend on {m_}[\"Packets\"] having been non-empty: a PacketAck that arrives with "
                   f"zero Packets entries is swallowed in both directions instead of being forwarded")
    # failures of side work must not lose the datagram: a try in front of the forward whose purpose is to
    # contain such a failure keeps a catch-all handler that does not re-raise
    from ..core import handler_catches_all, handler_reraises
    from .c05 import resolve_method_call as _rmc0
    ntry = 0
    for t in [x for x in walk(hp.node) if isinstance(x, ast.Try) and x.handlers]:
        inside = {id(x) for x in ast.walk(t)}
        if any(id(c) in inside for c, _, _, _ in sites):
            continue      # the forward itself is in there: not side work
        tn = [n_ for st_ in t.body for n_ in cfg.nodes_for(st_)] or cfg.nodes_for(t)
        if not any(n_ in cfg.reachable(tn) for n_ in site_nodes):
            continue      # after the forward
        refusal = False
        for c_ in calls(ast.Module(body=t.body, type_ignores=[]), into_defs=False):
            h_ = _rmc0(repo, hp, c_)
            if h_ is not None and h_ != hp and _raises_when_banned(ctx, h_, c_):
                refusal = True
        if refusal:
            continue      # the UDP-ban refusal: a deliberate discard that re-raises, not side work to contain
        ntry += 1
        contained = any(handler_catches_all(h) and handler_reraises(h) != "always" for h in t.handlers)
        what = norm(t.body[0]) if t.body else "?"
        ctx.ob("C06.R4", f"handle_proxied_packet: failure of `{what}` cannot stop the datagram from being forwarded",
               contained, ctx.w(hp, t),
               f"the handlers {[norm(h.type) if h.type is not None else 'bare' for h in t.handlers]} let other "
               f"exceptions escape handle_proxied_packet before the forward: the datagram is lost")
    from .c05 import resolve_method_call as _rmc
    for hc in calls(hp.node, into_defs=False):
        h_ = _rmc(repo, hp, hc)
        if h_ is None or h_ == hp or not any(n_ in cfg.reachable(cfg_nodes(cfg, hc)) for n_ in site_nodes):
            continue
        for t in [x for x in walk(h_.node) if isinstance(x, ast.Try) and x.handlers]:
            ntry += 1
            contained = any(handler_catches_all(h) and handler_reraises(h) != "always" for h in t.handlers)
            what = norm(t.body[0]) if t.body else "?"
            ctx.ob("C06.R4", f"handle_proxied_packet: failure of `{what}` cannot stop the datagram from being forwarded",
                   contained, ctx.w(h_, t),
                   f"the handlers {[norm(h.type) if h.type is not None else 'bare' for h in t.handlers]} let other "
                   f"exceptions escape handle_proxied_packet before the forward: the datagram is lost")
    ctx.stats["C06.R4.guarded side work"] = ntry
    # ownership of the raw transport
    base = repo.fn("UDPProxyProtocol.handle_proxied_packet", SOCKS)
    allowed = {"Circuit.send_datagram", "UDPProxyProtocol.handle_proxied_packet"}
    n = 0
    for f, c in callers_of(repo, "send_packet"):
        n += 1
        ctx.ob("C06.R4", f"{f.qual}: {norm(c)} is an owner of the raw transport", f.qual in allowed, ctx.w(f, c),
               "a datagram can leave the proxy outside circuit.send / the base pass-through")
    ctx.floor("C06.R4", "send_packet call sites", n, 2)
    bs = find_calls(base.node, "send_packet")
    ctx.ob("C06.R4", "base UDPProxyProtocol.handle_proxied_packet passes the packet through exactly once", len(bs) == 1 and
           bs[0].args and ap(bs[0].args[0]) == msg_param(base), base.where)


# ============================================================================ R5 open_circuit verdict

class _Open(Explorer):
    """Path explorer whose feasibility test is an exhaustive truth table over the atomic conditions met so far
    (so `not a or not b` followed by `a and b`, or a boolean property spelling of either, prune each other)."""

    def __init__(self, repo):
        super().__init__()
        self.repo = repo

    def helper_verdicts(self, h: FuncInfo) -> set:
        """Truth values a helper method of the session can return on its feasible paths."""
        out = set()
        ex2 = _Open(self.repo)
        ex2.fi = h
        for kind, node, _ in ex2.explore(h.node.body, St(data={"cons": []})):
            if kind == "raise":
                continue
            v = node.value if kind == "return" and node is not None else None
            if v is None:
                out.add(False)
            elif isinstance(v, ast.Constant):
                out.add(bool(v.value))
            else:
                out |= {True, False}
        return out

    def branch(self, test, st: St):
        from .c05 import facts_exclude, resolve_method_call
        out = []
        fixed = {}
        fi_ = getattr(self, "fi", None)
        if fi_ is not None:
            for c in calls(test, into_defs=False):
                h = resolve_method_call(self.repo, fi_, c)
                if h is not None and h != fi_:
                    vs = self.helper_verdicts(h)
                    if len(vs) == 1:
                        fixed[id(c)] = (c, next(iter(vs)))
        for val in (True, False):
            cons = list(st.data.get("cons", [])) + [(test, val)] + [(c, v) for c, v in fixed.values()]
            if facts_exclude(self.repo, cons, []):
                continue
            s2 = st.copy()
            s2.data["cons"] = cons
            assume(test, val, s2)
            out.append((val, s2))
        return out

    def simple(self, s, st: St):
        from .c05 import prop_expand
        from ..core import paths_in
        super().simple(s, st)
        written = [sto.path for sto in stores(s, into_defs=False)]
        keep = []
        for e, pol in st.data.get("cons", []):
            mentioned = set()
            for n in ast.walk(e):
                x = prop_expand(self.repo, n) if isinstance(n, ast.Attribute) else n
                mentioned |= paths_in(x)
            if not any(q == w or q.startswith(w + ".") for q in mentioned for w in written):
                keep.append((e, pol))
        st.data["cons"] = keep


def r5(ctx):
    repo = ctx.repo
    ctx.rule("C06.R5", "Session.open_circuit reports success whenever the addressed region has (or just got) a "
                       "circuit - its falsy result makes handle_proxied_packet discard the UseCircuitCode datagram")
    hp = repo.fn("InterceptingLLUDPProxyProtocol.handle_proxied_packet")
    discards = [r for r in walk(hp.node) if isinstance(r, ast.Return) and call_fact(r, "open_circuit", hp.node) is False]
    if not discards:
        ctx.ob("C06.R5", "handle_proxied_packet no longer discards on a falsy open_circuit (rule vacuous)", True, hp.where)
        return
    oc = repo.fn("Session.open_circuit", SESS)
    params = [a.arg for a in oc.node.args.args][1:]
    ctx.require(len(params) >= 2, "Session.open_circuit signature changed")
    addr = params[1]
    loops = [n for n in walk(oc.node) if isinstance(n, (ast.For, ast.AsyncFor)) and (ap(n.iter) or "").endswith(".regions")
             and isinstance(n.target, ast.Name)]
    ctx.require(len(loops) == 1, "Session.open_circuit: expected one loop over the session's regions")
    loop = loops[0]
    rv = loop.target.id
    match = None
    for n in walk(loop):
        if isinstance(n, ast.Compare) and len(n.ops) == 1 and isinstance(n.ops[0], (ast.Eq, ast.NotEq)) and \
                {ap(n.left), ap(n.comparators[0])} == {f"{rv}.circuit_addr", addr}:
            match = n
            break
    ctx.require(match is not None, "Session.open_circuit: comparison of region.circuit_addr with the address not found")
    st0 = St()
    eq = ast.Compare(left=match.left, ops=[ast.Eq()], comparators=match.comparators)
    assume(eq, True, st0)
    if isinstance(match.ops[0], ast.NotEq):
        assume(match, False, st0)
    ex = _Open(repo)
    ex.fi = oc
    st0.data["cons"] = [(eq, True)]
    blk, _ = _block_of(loop)
    tail = blk[[i for i, s in enumerate(blk) if s is loop][0] + 1:] if blk is not None else []
    n = 0
    for kind, node, st in ex.explore(loop.body, st0):
        finals = [(kind, node, st)]
        if kind in ("fall", "continue"):
            ctx.ob("C06.R5", "Session.open_circuit[address matches]: no path moves on to other regions undecided", False,
                   ctx.w(oc, loop), "with the addressed region found, a path neither creates a circuit nor reports the "
                   "existing one; it ends in the trailing failure return")
            n += 1
            continue
        if kind == "break":
            finals = ex.explore(tail, st)
        for k2, n2, s2 in finals:
            n += 1
            if k2 == "raise":
                continue
            val = n2.value if k2 == "return" and n2 is not None else None
            truthy = isinstance(val, ast.Constant) and bool(val.value)
            if k2 == "return" and val is not None and not isinstance(val, ast.Constant):
                raise AnalysisError(f"Session.open_circuit: non-constant result {norm(val)}")
            ctx.ob("C06.R5", f"Session.open_circuit[address matches]: `{norm(n2) if n2 is not None else k2}` reports success",
                   truthy, ctx.w(oc, n2 if n2 is not None else loop),
                   "the addressed region exists (circuit created or already alive) but the caller is told to discard "
                   "the datagram: a retransmitted UseCircuitCode never reaches the simulator")
    ctx.floor("C06.R5", "open_circuit paths for a matching region", n, 1)
    ctx.assume("calls made between a test and its use do not change the truthiness of the tested attributes")


def truth_tested_paths(test) -> List[ast.AST]:
    """Sub-expressions of a condition whose *truthiness* decides it (through not / and / or)."""
    if isinstance(test, ast.UnaryOp) and isinstance(test.op, ast.Not):
        return truth_tested_paths(test.operand)
    if isinstance(test, ast.BoolOp):
        return [x for v in test.values for x in truth_tested_paths(v)]
    return [test]


def r6(ctx):
    repo = ctx.repo
    ctx.rule("C06.R6", "packet ids are tested with `is None`, never for truthiness: 0 is a legal wire id, None means "
                       "\"not assigned yet\" (a falsy test re-numbers and re-labels a real packet 0 as injected)")
    fns = []
    for cname, mod in (("ProxiedCircuit", None), ("Circuit", BCIRC), ("InterceptingLLUDPProxyProtocol", None)):
        fns.extend(repo.cls(cname, mod).methods.values())
    n = 0
    for f in fns:
        for node in walk(f.node, into_defs=True):
            tests = []
            if isinstance(node, (ast.If, ast.While, ast.IfExp)):
                tests.append(node.test)
            elif isinstance(node, ast.Assert):
                tests.append(node.test)
            elif isinstance(node, ast.comprehension):
                tests.extend(node.ifs)
            for t in tests:
                for x in truth_tested_paths(t):
                    nt = is_none_test(x)
                    if nt and nt[0].endswith(".packet_id"):
                        n += 1
                        ctx.ob("C06.R6", f"{f.qual}: `{norm(x)}` tests the packet id for None", True, ctx.w(f, x))
                    elif (ap(x) or "").endswith(".packet_id"):
                        n += 1
                        ctx.ob("C06.R6", f"{f.qual}: `{norm(t)}` tests the packet id for None", False, ctx.w(f, x),
                               f"truthiness of `{norm(x)}` is tested: a packet whose id is 0 is treated as having no id")
    ctx.floor("C06.R6", "packet-id presence tests", n, 1)


def _decodes_body(x, m: str) -> bool:
    """x forces the lazily parsed body of message m to be decoded: a block access, .blocks, ensure_parsed()."""
    if isinstance(x, ast.Subscript) and isinstance(x.ctx, ast.Load) and ap(x.value) == m:
        return True
    if isinstance(x, ast.Attribute) and ap(x.value) == m and x.attr in ("blocks", "ensure_parsed", "to_dict", "get_block"):
        return True
    return False


def r3_main_region(ctx):
    """With deferred parsing only the header was validated when the name is known: state that follows the agent
    (Session.main_region) is moved only after the body was decoded, so a truncated datagram - which is discarded
    at its first body access - leaves it alone."""
    repo = ctx.repo
    from .c05 import method_params, parsed_message_vars, resolve_any_call, resolve_method_call
    hp = repo.fn("InterceptingLLUDPProxyProtocol.handle_proxied_packet")
    mvars = parsed_message_vars(repo, hp)
    ctx.require(len(mvars) == 1, f"handle_proxied_packet: expected one local holding the decoded message, found {sorted(mvars)}")
    m = next(iter(mvars))

    def movers(fn):
        out = [st.node for st in stores(fn.node, into_defs=False) if st.kind == "assign" and st.path.endswith(".main_region")]
        for c in calls(fn.node, into_defs=False):
            h = resolve_any_call(repo, fn, c)
            if h is None and isinstance(c.func, ast.Attribute):
                cands = [g for g in repo.funcs.get(c.func.attr, []) if g.cls is not None and
                         any(k.name in ("Session", "BaseClientSession") for k in repo.mro(g.cls))]
                h = cands[0] if len(cands) == 1 else None
            if h is not None and h != fn and (h.cls is None or h.cls != fn.cls) and \
                    any(st.kind == "assign" and st.path == "self.main_region" for st in stores(h.node, into_defs=False)):
                out.append(c)
        return out
    n = 0
    sites = [(hp, mv, m, None) for mv in movers(hp)]
    for hc in calls(hp.node, into_defs=False):
        h = resolve_method_call(repo, hp, hc)
        if h is None or h == hp:
            continue
        ps = method_params(h)
        hm = next((ps[i] for i, a_ in enumerate(hc.args) if i < len(ps) and ap(a_) == m), None) or \
            next((k.arg for k in hc.keywords if ap(k.value) == m), None)
        for mv in movers(h):
            sites.append((h, mv, hm, hc))
    cfg = CFG(hp.node)
    for fn, mv, mname, via in sites:
        n += 1
        ok = False
        levels = [(fn, mv, mname, cfg if fn == hp else CFG(fn.node))] + ([(hp, via, m, cfg)] if via is not None else [])
        for f_, node, mn, g in levels:
            if mn is None:
                continue
            own = cfg_nodes(g, node)
            dec = [k for k in g.nodes if k.ast is not None and k not in own and k.kind in ("stmt", "test", "loop", "with") and
                   any(_decodes_body(x, mn) for x in walk(g._head_expr(k.ast) if k.kind != "stmt" else k.ast, into_defs=False))]
            if own and not any(k in g.reachable([g.entry], avoid=lambda q: q in dec, exc=False) for k in own):
                ok = True
        ctx.ob("C06.R3", "handle_proxied_packet: Session.main_region moves only after the message body was decoded", ok,
               ctx.w(fn, mv),
               f"`{norm(mv)}` is reached on the strength of the message name alone (deferred parsing validated only the "
               f"header): a truncated AgentMovementComplete is discarded at its first body access, but has already "
               f"switched the session's main region")
    ctx.floor("C06.R3", "sites that move Session.main_region", n, 1)


def r4_command_channel(ctx):
    """The command channel is the proxy's UI for chat the user types (viewer -> simulator).  A ChatFromViewer coming
    from the simulator is an ordinary datagram that has to reach the viewer."""
    repo = ctx.repo
    from .c05 import method_params, resolve_method_call, xfacts
    hl = repo.fn("AddonManager.handle_lludp_message")

    def chan_atom(e) -> bool:
        return isinstance(e, ast.Compare) and len(e.ops) == 1 and isinstance(e.ops[0], (ast.Eq, ast.Is)) and \
            any((ap(x) or "").endswith(".COMMAND_CHANNEL") for x in (e.left, e.comparators[0]))

    def direction_known_out(fs, mn) -> bool:
        for e, pol in fs:
            if isinstance(e, ast.Compare) and len(e.ops) == 1 and isinstance(e.ops[0], (ast.Eq, ast.NotEq, ast.Is, ast.IsNot)):
                l, r = ap(e.left) or "", ap(e.comparators[0]) or ""
                if f"{mn}.direction" in (l, r):
                    other = r if l == f"{mn}.direction" else l
                    eq = isinstance(e.ops[0], (ast.Eq, ast.Is)) == pol
                    if (other.endswith("Direction.OUT") and eq) or (other.endswith("Direction.IN") and not eq):
                        return True
        return False
    ps = method_params(hl)
    ctx.require(len(ps) >= 3, "AddonManager.handle_lludp_message: expected (session, region, message)")
    m = ps[2]
    n = 0
    fns = [(hl, m, None)]
    for hc in calls(hl.node, into_defs=False):
        h = resolve_method_call(repo, hl, hc)
        if h is None or h == hl:
            continue
        hps = method_params(h)
        hm = next((hps[i] for i, a_ in enumerate(hc.args) if i < len(hps) and ap(a_) == m), None) or \
            next((k.arg for k in hc.keywords if ap(k.value) == m), None)
        if hm is not None and any(chan_atom(x) for x in walk(h.node)):
            fns.append((h, hm, hc))
    for fn, mn, via in fns:
        swallow = [c for c in calls(fn.node, into_defs=False) if call_attr(c) in ("drop_message", "_handle_command")]
        swallow += [r_ for r_ in walk(fn.node) if isinstance(r_, ast.Return) and isinstance(r_.value, ast.Constant)
                    and r_.value.value is True]
        for sw in swallow:
            fs = xfacts(repo, fn, sw)
            if not any(chan_atom(e) and pol for e, pol in fs):
                continue
            n += 1
            ok = direction_known_out(fs, mn) or (via is not None and direction_known_out(xfacts(repo, hl, via), m))
            ctx.ob("C06.R4", "AddonManager.handle_lludp_message: only chat sent by the viewer is taken for a proxy command",
                   ok, ctx.w(fn, sw),
                   f"`{norm(sw)}` runs for a ChatFromViewer on the command channel whatever its direction: one sent by the "
                   f"simulator is swallowed (and acked on the viewer's behalf) instead of being delivered to the viewer, and "
                   f"its text is run as a proxy command")
    ctx.floor("C06.R4", "command-channel swallow sites", n, 1)


def r2_association(ctx):
    """The UDP association is bound to the address the control connection really comes from, not to anything the
    client says about itself: `socks_client_addr` decides which datagrams are the client's (direction inference)."""
    repo = ctx.repo
    mk = repo.fn("SOCKS5Server._udp_protocol_creator", SOCKS)
    n = 0
    for f in [g for g in repo.all_funcs if g.module is mk.module]:
        for c in find_calls(f.node, "_udp_protocol_creator", into_defs=False):
            if not c.args:
                continue
            n += 1
            a = c.args[0]
            vals = [a]
            if isinstance(a, ast.Name):
                vals = [st.value for st in stores(f.node, into_defs=False) if st.path == a.id and st.value is not None] or [a]

            def peer(v):
                return isinstance(v, ast.Call) and call_attr(v) == "get_extra_info" and v.args and \
                    isinstance(v.args[0], ast.Constant) and v.args[0].value == "peername"
            ctx.ob("C06.R2", f"{f.qual}: the UDP association is bound to the control connection's peer address",
                   all(peer(v) for v in vals), ctx.w(f, c),
                   f"the protocol is created for {[norm(v) for v in vals]}: an address the client announces in its request "
                   f"decides whose datagrams are taken for the viewer's - the real viewer becomes an unknown host, or another "
                   f"host is trusted as the SOCKS client")
    ctx.floor("C06.R2", "UDP association constructions", n, 1)


def run(ctx):
    r1(ctx)
    r2(ctx)
    r2_identity(ctx)
    r2_association(ctx)
    r3(ctx)
    r3_msgxml(ctx)
    r3_teardown(ctx)
    r3_claim(ctx)
    r3_main_region(ctx)
    r4(ctx)
    r4_command_channel(ctx)
    r5(ctx)
    r6(ctx)
    ctx.assume("message content integrity is C01/C02's codec; behaviour across sessions/regions at run time is not decided")
    ctx.note("AddonManager.handle_proxied_packet runs before the datagram is parsed and validated (addon hook; "
             "outside the no-addon quantifier)")
