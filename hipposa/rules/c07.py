"""C07 - addons cannot duplicate, lose or wedge traffic (DESIGN.md section 4, C07).

R1 single guarded dispatch point for addon hooks        R5 one road to the wire
R2 subscriber isolation in Event.notify (CFG)           R6 message_handler.handle failure isolation
R3 ownership typestate of Message + drop atomicity      R7 first-truthy claim in the dispatch loops
R4 forward tail of handle_proxied_packet
"""
from __future__ import annotations

import ast
from typing import Dict, List, Optional, Set, Tuple

from ..cfg import CFG
from ..core import (AnalysisError, FuncInfo, ancestors, ap, atoms, call_attr, calls, enclosing_fn, enclosing_stmt, is_none_test,
                    facts, find_calls, handler_catches_all, handler_names, handler_reraises, norm, parent, src, stores,
                    try_contexts, walk, FUNC_TYPES)
from .common import (call_index, store_index, is_logging_call, cfg_node_calls, cfg_node_expr, cfg_node_fallible, cfg_search, class_methods_reachable,
                     is_benign_call, loops_over, top_fn)

ADDONS = "hippolyzer/lib/proxy/addons.py"
EVENTS = "hippolyzer/lib/base/events.py"
LLUDP = "hippolyzer/lib/proxy/lludp_proxy.py"
MSG = "hippolyzer/lib/base/message/message.py"
SWALLOW = "_SWALLOW_ADDON_EXCEPTIONS"


# --------------------------------------------------------------------------- small helpers

def _is_true(node) -> bool:
    return isinstance(node, ast.Constant) and node.value is True


def _is_false(node) -> bool:
    return isinstance(node, ast.Constant) and node.value is False


def _path_fact(node, path: str, polarity: bool, stop=None) -> bool:
    """A dominating condition that is exactly the truthiness of access path `path`."""
    return any(ap(e) == path and pol == polarity for e, pol in facts(node, stop))


def _suffix_fact(fs, suffix: str, polarity: bool) -> bool:
    return any((ap(e) or "").endswith(suffix) and pol == polarity for e, pol in fs)


def _self_callsites(fns: List[FuncInfo], callee: FuncInfo) -> List[Tuple[FuncInfo, ast.Call]]:
    out = []
    for g in fns:
        if g is callee:
            continue
        for c in find_calls(g.node, callee.name, into_defs=True):
            if isinstance(c.func, ast.Attribute) and ap(c.func.value) in ("self", "cls"):
                out.append((g, c))
    return out


def ifacts(fns: List[FuncInfo], anchor: FuncInfo, fi: FuncInfo, node, depth=0):
    """facts(node) plus - when `fi` is a helper extracted from `anchor` with a single call site - the
    facts that hold at that call site (so guards left behind in the caller still count)."""
    out = list(facts(node, fi.node))
    if fi is not anchor and depth < 3:
        sites = _self_callsites(fns, fi)
        if len(sites) == 1:
            g, c = sites[0]
            out.extend(ifacts(fns, anchor, g, c, depth + 1))
    return out


def _swallowing(node, stop) -> bool:
    """node lies in the body of a try with a catch-all handler that never raises and never leaves."""
    for tc in try_contexts(node, stop):
        if tc.section != "body":
            continue
        for h in tc.node.handlers:
            if handler_catches_all(h) and handler_reraises(h) == "never" and \
                    not any(isinstance(x, ast.Return) for x in walk(h)):
                return True
    return False


def iswallowing(fns, anchor, fi, node, depth=0) -> bool:
    if _swallowing(node, fi.node):
        return True
    if fi is not anchor and depth < 3:
        sites = _self_callsites(fns, fi)
        if len(sites) == 1:
            return iswallowing(fns, anchor, sites[0][0], sites[0][1], depth + 1)
    return False


def _conditional_on_swallow_flag(h: ast.ExceptHandler, stop) -> Tuple[bool, str]:
    """Every raise in handler `h` is control-dependent on `not <..>._SWALLOW_ADDON_EXCEPTIONS`;
    every return in it yields a falsy constant (a failed hook must not claim the message)."""
    for x in walk(h):
        if isinstance(x, ast.Raise):
            if not _suffix_fact(facts(x, stop), "." + SWALLOW, False):
                return False, f"`{norm(x)}` in the handler is not guarded by `not {SWALLOW}`"
        if isinstance(x, ast.Return) and x.value is not None:
            if not (isinstance(x.value, ast.Constant) and not x.value.value):
                return False, f"handler returns `{norm(x.value)}`: a raising hook would claim the message"
    return True, ""


def _eager_uses(h: ast.ExceptHandler, names: Set[str], stop) -> List[ast.AST]:
    """Expressions in handler `h` that eagerly run code of the objects named in `names` (the values
    handed to the hook): %-formatting, f-strings, str()/repr()/format(), method calls on them, or
    passing them to a non-logging call.  Lazy logging arguments (`log("%r", x)`) are benign: logging
    swallows formatting errors.  Uses inside a nested swallowing try are contained."""
    def mentions(e):
        return any(isinstance(n, ast.Name) and n.id in names for n in ast.walk(e))
    out = []
    for x in walk(h):
        bad = False
        if isinstance(x, ast.BinOp) and isinstance(x.op, ast.Mod) and mentions(x.right) and \
                (isinstance(x.left, (ast.Constant, ast.JoinedStr)) or not mentions(x.left)):
            bad = True
        elif isinstance(x, ast.FormattedValue) and mentions(x.value):
            bad = True
        elif isinstance(x, ast.Call) and not is_logging_call(x):
            recv_tainted = isinstance(x.func, ast.Attribute) and mentions(x.func.value)
            arg_tainted = any(mentions(a) for a in x.args) or any(mentions(k.value) for k in x.keywords)
            bad = recv_tainted or arg_tainted
        if bad:
            contained = False
            for tc in try_contexts(x, h):
                if tc.section == "body" and tc.node is not parent(h) and any(
                        handler_catches_all(hh) and handler_reraises(hh) == "never" for hh in tc.node.handlers):
                    contained = True
            if not contained:
                out.append(x)
    # report outermost expressions only
    return [x for x in out if not any(x is not y and any(z is x for z in ast.walk(y)) for y in out)]


def _guard_of(c, stop) -> Optional[ast.ExceptHandler]:
    for tc in try_contexts(c, stop):
        if tc.section == "body":
            for h in tc.node.handlers:
                if handler_catches_all(h):
                    return h
    return None


def _dyn_getattr(c) -> bool:
    return isinstance(c, ast.Call) and ap(c.func) == "getattr" and len(c.args) >= 2 and \
        not isinstance(c.args[1], ast.Constant)


# --------------------------------------------------------------------------- R1

def r1(ctx):
    repo = ctx.repo
    R = "C07.R1"
    ctx.rule(R, "addon-supplied callables are invoked only in AddonManager._try_call_hook, inside a catch-all try "
                "whose re-raise depends on `not _SWALLOW_ADDON_EXCEPTIONS`; every handle_* entry point reaches "
                "hooks only via _call_all_addon_hooks -> _call_module_hooks -> _try_call_hook")
    am = repo.cls("AddonManager", ADDONS)
    am_family = {c.qual for c in repo.mro(am)}      # AddonManager and the base classes its dispatch code may live in

    def in_family(f):
        return f.cls is not None and f.cls.qual in am_family
    am_methods = {}
    for c_ in reversed(repo.mro(am)):
        am_methods.update(c_.methods)
    tch = repo.fn("AddonManager._try_call_hook")
    cmh = repo.fn("AddonManager._call_module_hooks")
    cah = repo.fn("AddonManager._call_all_addon_hooks")

    # -- callables derived from getattr(addon, <dynamic name>) inside _try_call_hook
    tainted: Set[str] = set()
    nested = [d for d in walk(tch.node, into_defs=True) if isinstance(d, FUNC_TYPES) and d is not tch.node]
    for _ in range(6):
        before = len(tainted)
        for st in stores(tch.node, into_defs=True):
            if st.kind != "assign" or st.value is None or not isinstance(st.target, ast.Name):
                continue
            if _dyn_getattr(st.value) or (isinstance(st.value, ast.Name) and st.value.id in tainted):
                tainted.add(st.path)
        for d in nested:
            if any(isinstance(c.func, ast.Name) and c.func.id in tainted for c in calls(d, into_defs=True)):
                tainted.add(d.name)
        if len(tainted) == before:
            break
    hook_calls = [c for c in calls(tch.node, into_defs=True)
                  if (isinstance(c.func, ast.Name) and c.func.id in tainted) or _dyn_getattr(c.func)]
    outer = [c for c in hook_calls if enclosing_fn(c) is tch.node]
    inner = [c for c in hook_calls if enclosing_fn(c) is not tch.node]
    ctx.floor(R, "hook invocations in _try_call_hook", len(outer), 1)
    for c in outer:
        h = _guard_of(c, tch.node)
        ctx.ob(R, f"{tch.qual}: {norm(c)} inside a catch-all try", h is not None, ctx.w(tch, c),
               "a raising addon hook would propagate into the proxy's packet handling")
        if h is not None:
            ok, why = _conditional_on_swallow_flag(h, tch.node)
            ctx.ob(R, f"{tch.qual}: handler of {norm(c)} re-raises only when not swallowing", ok, ctx.w(tch, h), why)
            # whatever the callers do with the result (`if ret:`) happens outside this try: the result must have been
            # truth-tested in here, so that a value whose __bool__ raises is this addon's failure
            tc_try = parent(h)
            res_names = set()
            st_c = enclosing_stmt(c)
            if isinstance(st_c, ast.Assign) and st_c.value is c:
                res_names = {ap(t) for t in st_c.targets}
            for r_ in [x for st_ in tc_try.body for x in walk(st_) if isinstance(x, ast.Return) and x.value is not None]:
                raw = r_.value is c or (ap(r_.value) in res_names)
                if not (raw or any(x is c for x in ast.walk(r_.value)) or
                        any(isinstance(x, ast.Name) and x.id in res_names for x in ast.walk(r_.value))):
                    continue
                tested = not raw or any(ap(e) in res_names for e, _ in facts(r_, tch.node))
                ctx.ob(R, f"{tch.qual}: result of {norm(c)} is truth-tested inside the guarded region before it is returned",
                       tested, ctx.w(tch, r_), "the dispatch loops test `if ret:` outside the try: a hook result whose truth value "
                       "raises (numpy array ...) escapes the isolation - later hooks, the logger and the forward do not run")
            # the handler itself must not be able to fail on the values handed to the hook
            passed = {n.id for a in list(c.args) + [k.value for k in c.keywords] for n in ast.walk(a)
                      if isinstance(n, ast.Name)}
            eager = _eager_uses(h, passed, tch.node)
            for x in eager:
                ctx.ob(R, f"{tch.qual}: handler evaluates `{norm(x)}` on the hook's arguments", False, ctx.w(tch, x),
                       "formatting / calling into hook arguments inside the except block can raise (repr of a message "
                       "parses it lazily): the exception escapes the dispatch point; pass them as lazy logging args")
            ctx.ob(R, f"{tch.qual}: handler of {norm(c)} cannot fail on the hook's arguments", not eager, ctx.w(tch, h))
    for c in inner:
        d = enclosing_fn(c)
        name = getattr(d, "name", "<lambda>")
        uses = [n for n in walk(tch.node, into_defs=True) if isinstance(n, ast.Name) and n.id == name
                and isinstance(n.ctx, ast.Load)]
        ok = name in tainted and bool(uses) and all(
            (isinstance(parent(u), ast.Assign) and parent(u).value is u) or
            (isinstance(parent(u), ast.Call) and parent(u).func is u) for u in uses)
        ctx.ob(R, f"{tch.qual}: wrapper {name} calling {norm(c.func)} is only invoked as the guarded hook", ok,
               ctx.w(tch, c), "the wrapper around the addon callable escapes the guarded call")

    # -- dispatch chain and hook-name literals
    hook_names: Set[str] = set()
    # callee name -> position of the hook-name argument (after cls); forwarders (AddonManager methods that pass
    # their own parameter on as the hook name) are discovered and treated as dispatchers too
    dispatchers = {"_call_all_addon_hooks": 0, "_call_module_hooks": 1, "_try_call_hook": 1}
    work = list(dispatchers)
    while work:
        dname = work.pop()
        argi = dispatchers[dname]
        dfn = am_methods.get(dname)
        dparams = [a.arg for a in dfn.node.args.args][1:] if dfn is not None else []
        for f, c in call_index(repo).get(dname, []):
            inside = in_family(f)
            ctx.ob(R, f"{f.qual}: {dname} called from inside AddonManager", inside, ctx.w(f, c),
                   "hook dispatch primitive used outside AddonManager")
            if dname == "_try_call_hook":
                ctx.ob(R, f"{f.qual}: _try_call_hook called only by _call_module_hooks", f.qual == cmh.qual, ctx.w(f, c))
            a = None
            if len(c.args) > argi and not any(isinstance(x, ast.Starred) for x in c.args[:argi + 1]):
                a = c.args[argi]
            elif argi < len(dparams):
                a = next((k.value for k in c.keywords if k.arg == dparams[argi]), None)
            if a is None:
                raise AnalysisError(f"{R}: cannot locate the hook-name argument of {norm(c)} in {f.qual}")
            if isinstance(a, ast.Constant) and isinstance(a.value, str):
                hook_names.add(a.value)
                continue
            fparams = [x.arg for x in f.node.args.args][1:] if inside else []
            if isinstance(a, ast.Name) and a.id in fparams and enclosing_fn(c) is f.node:
                if f.name not in dispatchers:
                    dispatchers[f.name] = fparams.index(a.id)
                    work.append(f.name)
                continue
            raise AnalysisError(f"{R}: hook name {src(a)} in {f.qual} is neither a literal nor a parameter "
                                f"forwarded by an AddonManager method")
    ctx.floor(R, "hook names", len(hook_names), 14)
    ctx.ob(R, "_call_all_addon_hooks dispatches through cls._call_module_hooks",
           any(ap(c.func) == "cls._call_module_hooks" for c in calls(cah.node)), cah.where)
    ctx.ob(R, "_call_module_hooks dispatches through cls._try_call_hook",
           any(ap(c.func) == "cls._try_call_hook" for c in calls(cmh.node)), cmh.where)

    entries = [f for n, f in sorted(am_methods.items()) if n.startswith("handle_")]
    ctx.floor(R, "handle_* entry points", len(entries), 13)
    for f in entries:
        reach = class_methods_reachable(repo, f, depth=3)
        cs = [c for g in reach for c in find_calls(g.node, "_call_all_addon_hooks") if ap(c.func) == "cls._call_all_addon_hooks"]
        ctx.ob(R, f"{f.qual} dispatches via cls._call_all_addon_hooks", len(cs) >= 1, f.where,
               "entry point does not go through the guarded dispatch chain")

    # -- bookkeeping that runs unguarded on the packet path (reload checks etc. reachable from the entry points)
    #    must not fail on a missing key: an exception there skips every hook, the logger and the forward
    dict_attrs = set()
    for st in [st for c_ in repo.mro(am) for st in c_.node.body]:
        tgt = st.targets[0] if isinstance(st, ast.Assign) and len(st.targets) == 1 else \
            st.target if isinstance(st, ast.AnnAssign) else None
        if not isinstance(tgt, ast.Name):
            continue
        ann = src(st.annotation) if isinstance(st, ast.AnnAssign) else ""
        val = st.value
        if ann.split("[")[0].split(".")[-1] in ("Dict", "dict", "DefaultDict", "defaultdict", "MutableMapping") or \
                isinstance(val, ast.Dict) or (isinstance(val, ast.Call) and (ap(val.func) or "").split(".")[-1] in ("dict", "defaultdict")):
            dict_attrs.add(tgt.id)
    pre = []
    for f in entries:
        for g in class_methods_reachable(repo, f, depth=3):
            if g not in pre and in_family(g):
                pre.append(g)

    def is_table(e):
        p_ = ap(e) or ""
        return p_.split(".")[0] in ("cls", "self", "AddonManager") and p_.count(".") == 1 and p_.split(".")[1] in dict_attrs

    def has_membership(node, table, key):
        for e, pol in facts(node):
            if isinstance(e, ast.Compare) and len(e.ops) == 1 and ap(e.comparators[0]) == ap(table) and norm(e.left) == norm(key):
                if (isinstance(e.ops[0], ast.In) and pol) or (isinstance(e.ops[0], ast.NotIn) and not pol):
                    return True
        return False
    n_partial = 0
    for g in pre:
        for x in walk(g.node, into_defs=True):
            table = key = None
            if isinstance(x, ast.Call) and isinstance(x.func, ast.Attribute) and x.func.attr == "pop" and is_table(x.func.value) \
                    and len(x.args) == 1 and not x.keywords:
                table, key = x.func.value, x.args[0]
            elif isinstance(x, ast.Delete):
                for t_ in x.targets:
                    if isinstance(t_, ast.Subscript) and is_table(t_.value):
                        table, key = t_.value, t_.slice
            if table is None:
                continue
            n_partial += 1
            ctx.ob(R, f"{g.qual}: `{norm(x)}` cannot fail on a missing key", has_membership(x, table, key), ctx.w(g, x),
                   "KeyError here escapes the handle_* entry point (it runs outside _try_call_hook): no hook runs, the "
                   "message is neither logged nor forwarded; give pop() a default or test membership first")
    io_fns = list(pre)
    for g in pre:
        for c in calls(g.node, into_defs=True):
            if isinstance(c.func, ast.Name):
                cs_ = [h_ for h_ in repo.funcs.get(c.func.id, []) if h_.cls is None and h_.parent_fn is None and
                       (h_.module is g.module or g.module.imports.get(c.func.id, "").endswith("." + c.func.id))]
                if len(cs_) == 1 and cs_[0] not in io_fns:
                    io_fns.append(cs_[0])
    OS_CALLS = {"os.stat", "os.lstat", "os.path.getmtime", "os.path.getsize", "os.listdir", "os.scandir", "open", "os.readlink"}
    OS_CATCH = {"*", "OSError", "EnvironmentError", "IOError", "Exception", "BaseException"}
    n_io = 0
    for g in io_fns:
        for c in calls(g.node, into_defs=True):
            if (ap(c.func) or "") not in OS_CALLS:
                continue
            if any(tc.section == "body" and any(handler_catches_all(h_) and handler_reraises(h_) != "always"
                                                for h_ in tc.node.handlers) for tc in try_contexts(c)):
                n_io += 1
                continue
            n_io += 1
            caught = any(tc.section == "body" and any(set(handler_names(h_)) & OS_CATCH and handler_reraises(h_) != "always"
                                                      for h_ in tc.node.handlers) for tc in try_contexts(c))
            ctx.ob(R, f"{g.qual}: `{norm(c)}` on the bare pre-dispatch path is contained for every OSError", caught, ctx.w(g, c),
                   "only some OSError subclasses are handled: ENOTDIR / EACCES / ELOOP on an addon's dependency path escape "
                   "the handle_* entry point for every message until the path is repaired")
    ctx.ob(R, "pre-dispatch bookkeeping of the entry points checked for partial dict operations", True, ADDONS,
           f"{len(pre)} functions, {len(dict_attrs)} dict tables, {n_partial} pop/del sites without default")

    # -- helpers the entry points call bare (outside any try, before dispatch) must not raise on that call shape:
    #    an explicit `raise` in them is either contained by a handler inside the helper, or depends on a
    #    parameter that is falsy for every bare call from an entry point (explicit constant or the default)
    chain = {cah.qual, cmh.qual, tch.qual}
    bare: Dict[str, List[Tuple[FuncInfo, ast.Call]]] = {}
    for f in entries:
        for c in calls(f.node, into_defs=False):
            if isinstance(c.func, ast.Attribute) and ap(c.func.value) == "cls" and not try_contexts(c, f.node):
                g = am_methods.get(c.func.attr)
                if g is not None and g.qual not in chain and g not in entries and g.name not in dispatchers:
                    bare.setdefault(g.name, []).append((f, c))
    n_raise = 0
    for gname, sites in sorted(bare.items()):
        g = am_methods[gname]
        gparams = [a.arg for a in g.node.args.args][1:]
        defaults = dict(zip(reversed(gparams), reversed(g.node.args.defaults)))
        for a, d in zip(g.node.args.kwonlyargs, g.node.args.kw_defaults):
            gparams.append(a.arg)
            if d is not None:
                defaults[a.arg] = d
        for x in [x for x in walk(g.node) if isinstance(x, ast.Raise)]:
            contained = any(tc.section == "body" and any(
                (handler_catches_all(h) and handler_reraises(h) != "always") for h in tc.node.handlers)
                for tc in try_contexts(x, g.node))
            if contained:
                continue
            if _suffix_fact(facts(x, g.node), "." + SWALLOW, False):
                continue     # deliberate: exceptions are only let through when the proxy is told not to swallow them
            n_raise += 1
            ok, why = False, "the raise is unconditional on the call shape"
            for e, pol in facts(x, g.node):
                pn = ap(e)
                if pn in gparams and pol:
                    vals = []
                    for f, c in sites:
                        idx_ = gparams.index(pn)
                        arg = c.args[idx_] if idx_ < len(c.args) else next((k.value for k in c.keywords if k.arg == pn), defaults.get(pn))
                        vals.append(arg)
                    if vals and all(isinstance(v_, ast.Constant) and not v_.value for v_ in vals):
                        ok = True
                    else:
                        why = (f"depends on parameter `{pn}`, which is {[norm(v_) if v_ is not None else 'required' for v_ in vals]} "
                               f"for the bare calls from {sorted({f.qual for f, _ in sites})}")
            ctx.ob(R, f"{g.qual}: `{norm(x)}` cannot escape a bare call from a handle_* entry point", ok, ctx.w(g, x),
                   "" if ok else f"{why}: the exception leaves the entry point before any hook ran; the message is not "
                   f"logged or forwarded")
    ctx.ob(R, "helpers called bare by the entry points checked for escaping raises", True, ADDONS,
           f"{sorted(bare)}: {n_raise} uncontained raise statement(s)")

    # -- no other place obtains or calls a hook
    n_sites = 0
    idx = call_index(repo)

    in_am = in_family
    for f, c in idx.get("getattr", []):
        if ap(c.func) != "getattr" or len(c.args) < 2:
            continue
        if in_am(f) and f.qual != tch.qual and _dyn_getattr(c):
            ctx.ob(R, f"{f.qual}: dynamic {norm(c)} outside _try_call_hook", False, ctx.w(f, c),
                   "addon attribute looked up by name outside the guarded dispatch point")
        if isinstance(c.args[1], ast.Constant) and c.args[1].value in hook_names and f.qual != tch.qual:
            ctx.ob(R, f"{f.qual}: {norm(c)} fetches a hook outside _try_call_hook", False, ctx.w(f, c))
    for hn in sorted(hook_names):
        for f, c in idx.get(hn, []):
            if not isinstance(c.func, ast.Attribute):
                continue
            n_sites += 1
            recv = c.func.value
            rp = ap(recv)
            ok = rp == "AddonManager" or rp == "self" or (rp == "cls" and in_am(f)) or \
                (isinstance(recv, ast.Call) and ap(recv.func) == "super")
            if not ok:
                ctx.ob(R, f"{f.qual}: direct hook call {norm(c.func)}(...)", False, ctx.w(f, c),
                       "hook invoked on an object directly, bypassing _try_call_hook's exception guard")
    ctx.floor(R, "hook-named call sites scanned", n_sites, 10)
    ctx.ob(R, "no direct hook invocation outside AddonManager dispatch", True, ADDONS, f"{n_sites} hook-named call sites")

    # -- the proxy's own command channel calls addon command callables: same guard
    cmd_calls = [(f, c) for f, c in call_index(repo).get("_handle_command", [])]
    ctx.floor(R, "_handle_command call sites", len(cmd_calls), 1)
    for f, c in cmd_calls:
        h = _guard_of(c, f.node)
        ok, why = (False, "not inside a catch-all try") if h is None else _conditional_on_swallow_flag(h, f.node)
        ctx.ob(R, f"{f.qual}: {norm(c.func)}(...) guarded like a hook", ok, ctx.w(f, c), why)


# --------------------------------------------------------------------------- R2

def _raise_evidence(repo, cls, mname: str, depth=3, seen=None) -> Optional[Tuple[str, Set[str]]]:
    """Why a call of self.<mname> may raise: explicit raise/assert statements in the method (or in
    self-methods it calls) -> (description, exception class names; '*' when not a plain class).
    None when there is no evidence (the rule then does not treat the call as fallible)."""
    seen = seen if seen is not None else set()
    m = repo.lookup_method(cls, mname) if cls is not None else None
    if m is None or m.full in seen or isinstance(m.node, ast.AsyncFunctionDef):
        return None      # calling a coroutine function only creates the coroutine, none of its body runs
    seen.add(m.full)
    text, names = None, set()

    def escaping(node, raised: Set[str]) -> Set[str]:
        """Exception class names from `raised` that no try in this method (with `node` in its body) handles."""
        left = set(raised)
        for tc in try_contexts(node, m.node):
            if tc.section != "body":
                continue
            for h in tc.node.handlers:
                if handler_reraises(h) == "always":
                    continue
                if handler_catches_all(h):
                    return set()
                left -= set(handler_names(h))
        return left
    for x in walk(m.node):
        if isinstance(x, ast.Assert):
            got = escaping(x, {"AssertionError"})
            if got:
                text = text or f"{m.qual} contains `{norm(x)}`"
                names |= got
        elif isinstance(x, ast.Raise):
            exc = x.exc.func if isinstance(x.exc, ast.Call) else x.exc
            got = escaping(x, {(ap(exc) or "*").split(".")[-1] if exc is not None else "*"})
            if got:
                text = text or f"{m.qual} contains `{norm(x)}`"
                names |= got
    if depth > 0:
        for c in calls(m.node):
            if isinstance(c.func, ast.Attribute) and ap(c.func.value) in ("self", "cls"):
                r = _raise_evidence(repo, cls, c.func.attr, depth - 1, seen)
                if r:
                    got = escaping(c, r[1])
                    if got:
                        text = text or r[0]
                        names |= got
    return (text, names) if text else None


def _propagate_taint(root_stmts, tainted: Set[str]) -> Set[str]:
    """Names unpacked/aliased (without a call) from subscriber-tuple names are subscriber-supplied too."""
    tainted = set(tainted)
    for _ in range(4):
        for stmt in root_stmts:
            for st in stores(stmt, into_defs=False):
                if st.kind == "assign" and st.value is not None and isinstance(st.target, ast.Name) and \
                        not any(isinstance(x, ast.Call) for x in ast.walk(st.value)) and \
                        any(isinstance(x, ast.Name) and x.id in tainted for x in ast.walk(st.value)):
                    tainted.add(st.path)
    return tainted


_ROLE_ATTRS = {"handler", "predicate"}   # record fields of a subscriber that hold subscriber-supplied callables


def _is_sub_call(c, tainted) -> bool:
    f = c.func
    if isinstance(f, ast.Name):
        return f.id in tainted
    # record style (NamedTuple / object): sub.handler(...), sub.predicate(...)
    return isinstance(f, ast.Attribute) and isinstance(f.value, ast.Name) and f.value.id in tainted and f.attr in _ROLE_ATTRS


def _sub_calls(stmts, tainted):
    return [c for st in stmts for c in calls(st, into_defs=True) if _is_sub_call(c, tainted)]


def _subscriber_loops(fi: FuncInfo) -> List[ast.For]:
    """for-loops of fi over self.subscribers, a copy of it, or a local alias / snapshot of it."""
    from .common import origin
    out = []
    for n in walk(fi.node, into_defs=False):
        if not isinstance(n, (ast.For, ast.AsyncFor)):
            continue
        base = n.iter
        for _ in range(6):
            if isinstance(base, ast.Call) and base.args and not isinstance(base.func, ast.Attribute):
                base = base.args[0]              # list(x), reversed(x), tuple(x)
            elif isinstance(base, ast.Call) and isinstance(base.func, ast.Attribute) and base.func.attr == "copy":
                base = base.func.value           # x.copy()
            elif isinstance(base, ast.Subscript):
                base = base.value                # x[:]
            elif isinstance(base, ast.Name):
                o = origin(fi.node, base)
                if o is base:
                    break
                base = o                         # subs = self.subscribers[:]
            else:
                break
        if (ap(base) or "").endswith(".subscribers"):
            out.append(n)
    return out


def _record_layout(repo, notify_fi: FuncInfo) -> List[str]:
    """Field order of a subscriber record as built by Event.subscribe (names of the parameters stored)."""
    sub = repo.lookup_method(notify_fi.cls, "subscribe") if notify_fi.cls is not None else None
    if sub is None:
        return []
    params = {a.arg for a in sub.node.args.args + sub.node.args.kwonlyargs}
    if sub.node.args.vararg:
        params.add(sub.node.args.vararg.arg)
    if sub.node.args.kwarg:
        params.add(sub.node.args.kwarg.arg)
    best = []
    for x in walk(sub.node):
        elts = None
        if isinstance(x, ast.Tuple) and isinstance(x.ctx, ast.Load):
            elts = x.elts
        elif isinstance(x, ast.Call) and not x.keywords and len(x.args) >= 3:
            elts = x.args
        if elts and all(isinstance(e, ast.Name) and e.id in params for e in elts) and len(elts) > len(best):
            best = [e.id for e in elts]
    return best


def _one_shot_obligation(ctx, R, repo, nf, fi, cfg, loop, head, sync, deferred, tainted):
    """A one-shot subscriber is unsubscribed whether or not its handler succeeds: an unsubscribe guarded by
    exactly `one_shot` either dominates every invocation of the handler role, or lies on every way (exceptional
    ones included) from the invocation back to the loop head."""
    layout = _record_layout(repo, nf)
    root = loop if loop is not None else fi.node
    body = loop.body if loop is not None else fi.node.body
    # the local that carries the record's one_shot field / the handler field
    os_names, handler_names_ = {"one_shot"}, set()
    for st in body:
        for s_ in stores(st, into_defs=False):
            tgt = parent(s_.target)
            if isinstance(tgt, ast.Tuple) and len(tgt.elts) == len(layout):
                i = next((i for i, e in enumerate(tgt.elts) if e is s_.target), None)
                if i is not None and layout[i] == "one_shot":
                    os_names.add(s_.path)
                if i is not None and layout[i] == "handler":
                    handler_names_.add(s_.path)
    if loop is not None and isinstance(loop.target, ast.Tuple) and len(loop.target.elts) == len(layout):
        for i, e in enumerate(loop.target.elts):
            if layout[i] == "one_shot" and ap(e):
                os_names.add(ap(e))
            if layout[i] == "handler" and ap(e):
                handler_names_.add(ap(e))

    def is_os(e):
        p = ap(e) or ""
        return p in os_names or p.endswith(".one_shot")

    def handler_role(c):
        f = c.func
        if isinstance(f, ast.Attribute):
            return f.attr == "handler"
        return not handler_names_ and f.id == "handler" or f.id in handler_names_
    invocations = [c for c in sync if handler_role(c)]
    tasks = [c for st in body for c in calls(st) if call_attr(c) == "create_logged_task"]
    if not any(is_os(x) for st in body for x in ast.walk(st)):
        return    # this Event implementation has no one-shot subscriptions
    # unsubscribe statements guarded by exactly `one_shot`
    gates = []
    unsub_methods = {"unsubscribe"}
    if fi.cls is not None:
        for _ in range(2):
            for nm, mm in fi.cls.methods.items():
                if nm not in unsub_methods and any(isinstance(c.func, ast.Attribute) and ap(c.func.value) == "self"
                                                   and c.func.attr in unsub_methods for c in calls(mm.node)):
                    unsub_methods.add(nm)
    unsub_calls = [c for st in body for c in calls(st) if call_attr(c) in unsub_methods and enclosing_fn(c) is fi.node]

    def gate_nodes_for(inv):
        """Unsubscribe statements whose only condition beyond those the invocation itself runs under is `one_shot`."""
        common = {(norm(e), pol) for e, pol in facts(inv, root)}
        gates = []
        for c in unsub_calls:
            extra = [(e, pol) for e, pol in facts(c, root) if (norm(e), pol) not in common]
            if extra and all(is_os(e) and pol for e, pol in extra):
                for a in ancestors(c):
                    if isinstance(a, ast.If) and any(is_os(e) and pol for e, pol in atoms(a.test, True)):
                        gates.append(a)
                        break
        return {n for n in cfg.nodes if any(n.ast is g for g in gates)}
    start = [head] if head is not None else [cfg.entry]

    def back(n):
        return n is head or (head is None and (n is cfg.exit or n is cfg.raise_exit))
    for c in invocations + tasks:
        gate_nodes = gate_nodes_for(c)
        cn = set(cfg.stmt_nodes_containing(c))
        before = cfg_search(cfg, start, target=lambda n: n in cn, avoid=lambda n: n in gate_nodes, follow_exc=lambda n: False)
        after = cfg_search(cfg, list(cn), target=back, avoid=lambda n: n in gate_nodes, follow_exc=lambda n: n in cn or
                           any(isinstance(x, ast.Raise) for x in ([cfg_node_expr(cfg, n)] if cfg_node_expr(cfg, n) is not None else [])))
        ok = bool(gate_nodes) and (before is None or after is None)
        ctx.ob(R, f"{fi.qual}: one-shot subscriber is unsubscribed whether or not {norm(c.func)}(...) succeeds", ok,
               ctx.w(fi, c), "the one-shot removal depends on the handler returning (or on another condition): a one-shot "
               "handler that raises stays subscribed and keeps taking later messages",
               cfg.describe_path(after) if (not ok and after) else None)


def r2(ctx):
    repo = ctx.repo
    R = "C07.R2"
    ctx.rule(R, "Event.notify: no subscriber-supplied callable (handler, predicate) and no raising bookkeeping "
                "call in the notify loop can end the iteration (CFG: its exceptional edge reaches neither the "
                "function's raise exit nor its normal exit without returning to the loop head); async handlers "
                "run in create_logged_task")
    nf = repo.fn("Event.notify")
    loops = _subscriber_loops(nf)
    ctx.floor(R, "subscriber loops in Event.notify", len(loops), 1)
    for loop in loops:
        tainted = _propagate_taint(loop.body, {n.id for n in ast.walk(loop.target) if isinstance(n, ast.Name)})
        # scope: the loop body itself, or a self-method the body was extracted into
        fi, stmts, in_loop = nf, loop.body, True
        if not _sub_calls(stmts, tainted):
            for c in [c for st in loop.body for c in calls(st)]:
                if isinstance(c.func, attr_t) and ap(c.func.value) in ("self", "cls") and nf.cls is not None:
                    m = repo.lookup_method(nf.cls, c.func.attr)
                    if m is None:
                        continue
                    params = [a.arg for a in m.node.args.args][1:]
                    t2 = {params[i] for i, a in enumerate(c.args) if i < len(params) and ap(a) in tainted}
                    t2 = _propagate_taint(m.node.body, t2)
                    if _sub_calls(m.node.body, t2):
                        contained = _swallowing(c, loop)
                        ctx.ob(R, f"{nf.qual}: per-subscriber helper {norm(c.func)} located", True, ctx.w(nf, c))
                        fi, stmts, tainted, in_loop = m, m.node.body, t2, False
                        if contained:
                            stmts = None
                        break
        if stmts is None:
            continue  # the helper call itself is isolated by a swallowing try inside the loop
        cfg = CFG(fi.node)
        sub_calls = _sub_calls(stmts, tainted)
        sync = [c for c in sub_calls if enclosing_fn(c) is fi.node]
        deferred = [c for c in sub_calls if enclosing_fn(c) is not fi.node]
        # closures defined outside the loop body (hoisted wrapper) see the loop variables by name
        for d in walk(fi.node, into_defs=True):
            if isinstance(d, FUNC_TYPES) and d is not fi.node:
                for c in calls(d, into_defs=True):
                    if _is_sub_call(c, tainted) and not any(c is x for x in sub_calls):
                        sub_calls.append(c)
                        deferred.append(c)
        # subscriber callables handed to a helper of the class (predicate test / async runner extracted from the loop)
        delegated = []
        for c in [c for st in stmts for c in calls(st) if enclosing_fn(c) is fi.node]:
            if isinstance(c.func, attr_t) and ap(c.func.value) in ("self", "cls") and fi.cls is not None:
                hm = repo.lookup_method(fi.cls, c.func.attr)
                if hm is None or hm is fi:
                    continue
                hp = [a.arg for a in hm.node.args.args][1:]
                tp = {hp[i] for i, a in enumerate(c.args) if i < len(hp) and isinstance(a, ast.Name) and a.id in tainted}
                for hc in [x for x in calls(hm.node) if isinstance(x.func, ast.Name) and x.func.id in tp]:
                    delegated.append((hm, hc, c))
        ctx.floor(R, "subscriber callable invocations", len(sub_calls) + len(delegated), 2)
        book = []
        for c in [c for st in stmts for c in calls(st)]:
            if isinstance(c.func, attr_t) and ap(c.func.value) in ("self", "cls"):
                ev = _raise_evidence(repo, fi.cls, c.func.attr)
                if ev:
                    book.append((c, ev[0], ev[1]))
        head = None
        if in_loop:
            heads = [n for n in cfg.nodes_for(loop) if n.kind == "loop"]
            ctx.require(len(heads) == 1, f"{R}: loop head not found in CFG")
            head = heads[0]
        interesting = {id(c) for c in sync} | {id(c) for c, _, _ in book}

        def make_follow(exc_names, cfg=cfg, interesting=interesting):
            def follow(n):
                if n.kind == "handler" and n.label == "dispatch":
                    # typed handlers only: the exception travels on unless every evidenced class is named
                    caught = {nm for h in n.ast.handlers for nm in handler_names(h)}
                    return not (exc_names and "*" not in exc_names and exc_names <= caught)
                e = cfg_node_expr(cfg, n)
                if e is None:
                    return False
                return any(isinstance(x, (ast.Raise, ast.Assert)) or id(x) in interesting for x in walk(e))
            return follow

        def cond_of(c, root=(loop if in_loop else fi.node)):
            for a in ancestors(c):
                if a is root:
                    break
                if isinstance(a, ast.If):
                    return norm(a.test)
            return "-"

        loop_nodes = {id(x) for x in ast.walk(loop)} if in_loop else None

        def handler_ctx(n):
            # the node belongs to exception handling (dispatch, handler body, finally copy), i.e. the
            # exception under study is still being processed there
            if n.kind == "handler" or n.label.startswith("finally"):
                return True
            if n.ast is None:
                return False
            prev = n.ast
            for a in ancestors(n.ast):
                if isinstance(a, ast.ExceptHandler):
                    return True
                if isinstance(a, ast.Try) and any(prev is st for st in a.finalbody):
                    return True
                if isinstance(a, FUNC_TYPES):
                    break
                prev = a
            return False

        def leaves(n, cfg=cfg, in_loop=in_loop, loop_nodes=loop_nodes):
            # inside the loop: any way out of the loop that does not go back to the loop head;
            # in an extracted per-subscriber helper: an exception leaving the helper
            if n is cfg.raise_exit:
                return True
            if not in_loop:
                return False
            return n is cfg.exit or (n.ast is not None and id(n.ast) not in loop_nodes)

        def contained(n, head=head, cfg=cfg):
            # back at the loop head, or ordinary control flow resumed after a handler completed
            if n is head:
                return True
            if n in (cfg.exit, cfg.raise_exit) or leaves(n):
                return False
            return not handler_ctx(n)

        for c, kind, why, names in [(c, "subscriber callable", "", {"*"}) for c in sync] + \
                [(c, "bookkeeping", w, nm) for c, w, nm in book]:
            starts = cfg.stmt_nodes_containing(c)
            ctx.require(bool(starts), f"{R}: call {norm(c)} has no CFG node")
            path = cfg_search(cfg, starts, target=leaves, avoid=contained,
                              follow_exc=make_follow(names), start_edges="exc")
            msg = ""
            if path:
                msg = (f"an exception from this {kind} call leaves notify(): later subscribers are not notified"
                       + (f" ({why})" if why else ""))
            ctx.ob(R, f"{fi.qual}: {norm(c)} under [{cond_of(c)}] cannot end the subscriber loop", path is None,
                   ctx.w(fi, c), msg, cfg.describe_path(path) if path else None)
        for c in sync:
            ctx.ob(R, f"{fi.qual}: {norm(c)} inside a swallowing catch-all try within the loop",
                   _swallowing(c, loop if in_loop else fi.node), ctx.w(fi, c),
                   "subscriber callable not isolated by try/except inside the loop")
        for hm, hc, c in delegated:
            if isinstance(hm.node, ast.AsyncFunctionDef):
                outer = parent(c)
                ok = isinstance(outer, ast.Call) and call_attr(outer) == "create_logged_task" and any(a is c for a in outer.args)
                ctx.ob(R, f"{hm.qual}: deferred {norm(hc)} (coroutine started for each subscriber of {fi.qual}) runs in "
                          f"create_logged_task", ok, ctx.w(fi, c), "async handler not isolated in its own logged task")
                continue
            contained = any(tc.section == "body" and any(handler_catches_all(h_) and handler_reraises(h_) == "never"
                                                         for h_ in tc.node.handlers) for tc in try_contexts(hc, hm.node))
            ok = contained or _swallowing(c, loop if in_loop else fi.node)
            ctx.ob(R, f"{hm.qual}: {norm(hc)} (run for each subscriber of {fi.qual}) is isolated", ok, ctx.w(hm, hc),
                   "a raising subscriber callable propagates through the helper into the notify loop")
        _one_shot_obligation(ctx, R, repo, nf, fi, cfg, loop if in_loop else None, head, sync, deferred, tainted)
        for c in deferred:
            d = enclosing_fn(c)
            name = getattr(d, "name", None)
            uses = [n for n in walk(fi.node, into_defs=True) if isinstance(n, ast.Name) and n.id == name
                    and isinstance(n.ctx, ast.Load)]
            ok = isinstance(d, ast.AsyncFunctionDef) and bool(uses)
            for u in uses:
                cur = u
                pc_ = parent(cur)
                if isinstance(pc_, ast.Call) and pc_.func is not cur and call_attr(pc_) == "partial" and any(a is cur for a in pc_.args):
                    cur = pc_        # functools.partial(wrapper, ...) binds the loop values, the result is what gets called
                curs = [cur]
                asg = parent(cur)
                if isinstance(asg, ast.Assign) and asg.value is cur and len(asg.targets) == 1 and isinstance(asg.targets[0], ast.Name):
                    curs = [n for n in walk(fi.node, into_defs=True) if isinstance(n, ast.Name) and n.id == asg.targets[0].id
                            and isinstance(n.ctx, ast.Load)]
                    ok = ok and bool(curs)
                for cur in curs:
                    call = parent(cur)
                    outer = parent(call) if isinstance(call, ast.Call) and call.func is cur else None
                    ok = ok and isinstance(outer, ast.Call) and call_attr(outer) == "create_logged_task"
            ctx.ob(R, f"{fi.qual}: deferred {norm(c)} runs in create_logged_task", ok, ctx.w(fi, c),
                   "async handler not isolated in its own logged task")


attr_t = ast.Attribute


# --------------------------------------------------------------------------- R3

FLAG_OWNERS = {
    # attr -> value kind -> allowed writer functions (Appendix A.1)
    "finalized": {"True": {"Circuit.prepare_message", "ProxiedCircuit.prepare_message", "ProxiedCircuit.drop_message"},
                  "False": {"Message.__init__", "Message.take"}, "other": set()},
    "queued": {"True": {"Message.take"},
               "False": {"Message.__init__", "Message.take", "Circuit.prepare_message"}, "other": set()},
    "dropped": {"True": {"ProxiedCircuit.drop_message"},
                "False": {"Message.__init__", "Message.take"}, "other": {"Message.from_dict"}},
}


def _finalize_stmt(repo, f: FuncInfo, st, recv: str) -> bool:
    """`recv.finalized = True`, or a call of a self-method whose body unconditionally does so for the
    parameter that receives `recv`."""
    if isinstance(st, ast.Assign) and _is_true(st.value) and any(ap(t) == f"{recv}.finalized" for t in st.targets):
        return True
    if isinstance(st, ast.Expr) and isinstance(st.value, ast.Call):
        c = st.value
        if isinstance(c.func, ast.Attribute) and ap(c.func.value) in ("self", "cls") and f.cls is not None:
            m = repo.lookup_method(f.cls, c.func.attr)
            if m is not None and m is not f:
                params = [a.arg for a in m.node.args.args][1:]
                for i, a in enumerate(c.args):
                    if ap(a) == recv and i < len(params):
                        return any(_finalize_stmt(repo, m, s, params[i]) for s in m.node.body)
    return False


def _owner_or_private_helper(repo, f: FuncInfo, owners: Set[str], family: Set[str], depth=2) -> bool:
    """f is a tabled owner, or a private helper method of the Message family every call site of which
    (by name, whole tree) lies in an owner / in such a helper."""
    if f.qual in owners:
        return True
    if depth <= 0 or f.cls is None or f.cls.qual not in family or not f.name.startswith("_") or f.name.startswith("__"):
        return False
    sites = call_index(repo).get(f.name, [])
    return bool(sites) and all(_owner_or_private_helper(repo, g, owners, family, depth - 1) for g, _ in sites)


def r3(ctx):
    repo = ctx.repo
    R = "C07.R3"
    ctx.rule(R, "Message ownership typestate: finalized/queued/dropped written only by their owners; "
                "`finalized = True` dominated by a not-finalized guard; take() flags the original only when not "
                "finalized and resets flags only on the copy; drop_message finalizes before anything can fail "
                "(no exit after `dropped = True`, and no wire send, without `finalized = True`)")
    msg_cls = repo.cls("Message", MSG)
    msg_family = {c.qual for c in repo.subclasses(msg_cls)}
    counts: Dict[str, int] = {}
    for attr, table in FLAG_OWNERS.items():
        for f, st in store_index(repo).get(attr, []):
            if st.kind not in ("assign", "augassign", "del"):
                continue
            base = st.path.rsplit(".", 1)[0]
            if base in ("self", "cls") and (f.cls is None or f.cls.qual not in msg_family):
                continue  # another class's own attribute of the same name
            kind = "True" if _is_true(st.value) else "False" if _is_false(st.value) else "other"
            if st.kind != "assign":
                kind = "other"
            counts[f"{attr}={kind}"] = counts.get(f"{attr}={kind}", 0) + 1
            where = ctx.w(f, st.node)
            shown = kind if kind != "other" else (norm(st.value) if st.value is not None else st.kind)
            ctx.ob(R, f"{f.qual}: {st.path} = {shown} by an owner", _owner_or_private_helper(repo, f, table[kind], msg_family),
                   where, f"Message.{attr} written outside its owner table {sorted(table[kind])}")
            if attr == "finalized" and kind == "True":
                ctx.ob(R, f"{f.qual}: {st.path} = True dominated by `not {base}.finalized`",
                       _path_fact(st.node, f"{base}.finalized", False, f.node), where,
                       "a finalized (sent or dropped) message could be sent or dropped again")
    ctx.floor(R, "finalized=True stores", counts.get("finalized=True", 0), 3)
    ctx.floor(R, "queued=True stores", counts.get("queued=True", 0), 1)
    ctx.floor(R, "dropped=True stores", counts.get("dropped=True", 0), 1)

    # take(): the copy is reset
    from .common import inlined_funcinfo
    take = inlined_funcinfo(repo, repo.fn("Message.take"))     # private helpers (also those run on the copy) spliced in
    for st in stores(take.node, into_defs=False):
        if "." not in st.path or st.kind not in ("assign", "augassign", "del"):
            continue
        base, attr = st.path.rsplit(".", 1)
        if base == "self" and attr in FLAG_OWNERS:
            shown = "True" if _is_true(st.value) else "False" if _is_false(st.value) else \
                (norm(st.value) if st.value is not None else st.kind)
            ok = attr == "queued" and _is_true(st.value) and _path_fact(st.node, "self.finalized", False, take.node)
            ctx.ob(R, f"Message.take: {st.path} = {shown} only marks the unfinalized original as queued", ok,
                   ctx.w(take, st.node), "take() must touch the original only by `queued = True` under `not self.finalized`")
    tcfg = CFG(take.node)
    for n in [n for n in tcfg.nodes if n.kind == "stmt" and isinstance(n.ast, ast.Assign) and _is_true(n.ast.value)
              and any(ap(t) == "self.queued" for t in n.ast.targets)]:
        path = cfg_search(tcfg, [n], target=lambda x: x is tcfg.raise_exit, follow_exc=lambda x: cfg_node_fallible(tcfg, x),
                          start_edges="normal")
        ctx.ob(R, "Message.take: nothing can fail after the original was marked queued", path is None, ctx.w(take, n.ast),
               "take() condemns the original (queued => dropped and acked) before the copy exists: if the copy fails "
               "(deepcopy of something hanging off the message) the hook's error is swallowed and the message is lost",
               tcfg.describe_path(path) if path else None)
    copy_resets = {}
    for st in stores(take.node, into_defs=False):
        if st.kind == "assign" and "." in st.path and not st.path.startswith("self."):
            base, attr = st.path.rsplit(".", 1)
            if attr in FLAG_OWNERS and _is_false(st.value):
                copy_resets.setdefault(base, set()).add(attr)
    rets = [n for n in walk(take.node) if isinstance(n, ast.Return) and n.value is not None]
    ret_names = {ap(r.value) for r in rets}
    ok = len(ret_names) == 1 and copy_resets.get(next(iter(ret_names)), set()) >= set(FLAG_OWNERS)
    ctx.ob(R, "Message.take: returned copy has finalized/queued/dropped reset", ok, take.where,
           f"returned {sorted(map(str, ret_names))}, resets {copy_resets}")

    # drop_message atomicity
    dm = repo.fn("ProxiedCircuit.drop_message")
    params = [a.arg for a in dm.node.args.args]
    ctx.require(len(params) >= 2, "drop_message lost its message parameter")
    recv = params[1]
    cfg = CFG(dm.node)

    def is_fin(n):
        return n.kind == "stmt" and n.ast is not None and _finalize_stmt(repo, dm, n.ast, recv)
    fin_nodes = [n for n in cfg.nodes if is_fin(n)]
    ctx.floor(R, "finalize statements in drop_message", len(fin_nodes), 1)
    drop_nodes = [n for n in cfg.nodes if n.kind == "stmt" and isinstance(n.ast, ast.Assign) and _is_true(n.ast.value)
                  and any(ap(t) == f"{recv}.dropped" for t in n.ast.targets)]
    ctx.floor(R, "`dropped = True` stores in drop_message", len(drop_nodes), 1)
    for n in drop_nodes:
        # already finalized when the drop flag is set (finalize store dominates) ...
        path = cfg_search(cfg, [cfg.entry], target=lambda x, n=n: x is n, avoid=is_fin,
                          follow_exc=lambda x: cfg_node_fallible(cfg, x))
        if path is not None:
            # ... or finalized on every way out afterwards, exceptional ways included
            path = cfg_search(cfg, [n], target=lambda x: x is cfg.exit or x is cfg.raise_exit, avoid=is_fin,
                              follow_exc=lambda x: cfg_node_fallible(cfg, x))
        ctx.ob(R, f"{dm.qual}: every exit after `{norm(n.ast)}` passes `{recv}.finalized = True`", path is None,
               ctx.w(dm, n.ast), "a failing call after the drop leaves the message dropped but not finalized: "
               "handle_proxied_packet's tail would still forward it", cfg.describe_path(path) if path else None)
    # every way drop_message() completes normally records the drop (also for a message that has no packet id yet)
    path = cfg_search(cfg, [cfg.entry], target=lambda x: x is cfg.exit, avoid=is_fin, follow_exc=lambda x: False)
    ctx.ob(R, f"{dm.qual}: every normal completion passes `{recv}.finalized = True`", path is None, dm.where,
           "drop_message returns normally without finalizing the message (e.g. for a taken copy that has no packet id): the "
           "drop is forgotten, the message can be dropped again and sent afterwards without the re-send / re-drop error",
           cfg.describe_path(path) if path else None)
    drop_all = {n for n in cfg.nodes if n.kind == "stmt" and isinstance(n.ast, ast.Assign) and _is_true(n.ast.value)
                and any(ap(t) == f"{recv}.dropped" for t in n.ast.targets)}
    path = cfg_search(cfg, [cfg.entry], target=lambda x: x is cfg.exit, avoid=lambda x: x in drop_all, follow_exc=lambda x: False)
    ctx.ob(R, f"{dm.qual}: every normal completion passes `{recv}.dropped = True`", path is None, dm.where,
           "drop_message returns normally without marking the message dropped", cfg.describe_path(path) if path else None)
    # the proxy's own drops run after hook points that may already have sent or dropped the message
    n_own = 0
    for f_, c_ in call_index(repo).get("drop_message", []):
        if not c_.args or (f_.cls is not None and any(k.name in ("Circuit", "ProxiedCircuit") for k in repo.mro(f_.cls))):
            continue
        x_ = ap(c_.args[0])
        if not x_:
            continue
        n_own += 1
        fn_ = f_.node
        for a_ in ancestors(c_):
            if isinstance(a_, FUNC_TYPES):
                fn_ = a_
                break
        ok = _path_fact(c_, f"{x_}.finalized", False, fn_)
        if not ok and x_ not in [a.arg for a in fn_.args.args]:
            # the message object is created in this function: the guard is needed only after a hook point saw it
            fcfg_ = CFG(fn_)
            hp_nodes = [n for n in fcfg_.nodes for cc in cfg_node_calls(fcfg_, n)
                        if any(ap(a) == x_ for a in cc.args) and ((call_attr(cc) or "") == "handle" or
                                                                  (call_attr(cc) or "").startswith("handle_")
                                                                  or (call_attr(cc) or "") == "_call_all_addon_hooks")]
            dn_ = set(fcfg_.stmt_nodes_containing(c_))
            if not any(n in fcfg_.reachable([h_], exc=True) for h_ in hp_nodes for n in dn_):
                ok = True
        if not ok and f_.cls is not None:
            sites_ = [(g_, cc) for g_, cc in call_index(repo).get(f_.name, []) if isinstance(cc.func, ast.Attribute)
                      and ap(cc.func.value) in ("self", "cls") and g_.cls is not None and g_.cls == f_.cls]
            params_ = [a.arg for a in f_.node.args.args][1:]
            if sites_ and x_ in params_:
                i_ = params_.index(x_)
                ok = all(i_ < len(cc.args) and ap(cc.args[i_]) and _path_fact(cc, f"{ap(cc.args[i_])}.finalized", False, g_.node)
                         for g_, cc in sites_)
        cond = "-"
        for a_ in ancestors(c_):
            if isinstance(a_, ast.If):
                cond = norm(a_.test)
                break
        ctx.ob(R, f"{f_.qual}: {norm(c_)} under [{cond}] only while {x_} is not finalized", ok, ctx.w(f_, c_),
               "hooks / subscribers that ran before may have sent or dropped the message: drop_message() on a finalized "
               "message raises out of the packet handler (logger and post-hook bookkeeping skipped, command not dispatched)")
    ctx.floor(R, "drop_message call sites of the proxy itself", n_own, 2)
    wire = _wire_methods(repo, dm.cls)
    ctx.floor(R, "methods of the circuit that reach send_packet", len(wire), 3)
    for c in calls(dm.node):
        if isinstance(c.func, ast.Attribute) and ap(c.func.value) == "self" and c.func.attr in wire:
            targets = set(cfg.stmt_nodes_containing(c))
            path = cfg_search(cfg, [cfg.entry], target=lambda x: x in targets, avoid=is_fin,
                              follow_exc=lambda x: cfg_node_fallible(cfg, x))
            ctx.ob(R, f"{dm.qual}: {norm(c)} dominated by `{recv}.finalized = True`", path is None, ctx.w(dm, c),
                   "acks for the dropped message go out before the message is finalized; if sending fails the "
                   "dropped message is still forwardable", cfg.describe_path(path) if path else None)


def _wire_methods(repo, cls) -> Set[str]:
    out = set()
    if cls is None:
        return out
    for c in repo.mro(cls):
        for name, m in c.methods.items():
            if name in out:
                continue
            for g in class_methods_reachable(repo, repo.lookup_method(cls, name) or m, depth=4):
                if find_calls(g.node, "send_packet"):
                    out.add(name)
                    break
    return out


# --------------------------------------------------------------------------- R4 / R6

def r4_r6(ctx):
    repo = ctx.repo
    R4, R6 = "C07.R4", "C07.R6"
    ctx.rule(R4, "forward tail of InterceptingLLUDPProxyProtocol.handle_proxied_packet: claimed packets/messages "
                 "return before the send, a queued original is dropped, one final send guarded by `not finalized`")
    ctx.rule(R6, "both message_handler.handle(message) calls sit in swallowing catch-all try blocks")
    hp = repo.fn("InterceptingLLUDPProxyProtocol.handle_proxied_packet")
    fns = class_methods_reachable(repo, hp, depth=2)
    fns = [f for f in fns if f.cls is not None and f.cls == hp.cls]

    def sites(pred):
        return [(f, c) for f in fns for c in calls(f.node, into_defs=True) if pred(c)]

    # hook result
    hook = sites(lambda c: ap(c.func) == "AddonManager.handle_lludp_message")
    ctx.ob(R4, "handle_proxied_packet consults AddonManager.handle_lludp_message exactly once", len(hook) == 1, hp.where,
           f"found {len(hook)}")
    handled_names = set()
    for f, c in hook:
        st = enclosing_stmt(c)
        if isinstance(st, ast.Assign) and st.value is c:
            handled_names |= {ap(t) for t in st.targets}

    SENDS = {"send", "send_reliable", "_send_prepared_message", "send_datagram", "send_packet", "sendto"}
    sends = sites(lambda c: isinstance(c.func, ast.Attribute) and c.func.attr in SENDS
                  and not (isinstance(c.func.value, ast.Call) and ap(c.func.value.func) == "super"))
    ctx.ob(R4, "exactly one send call in the proxied-packet path", len(sends) == 1, hp.where,
           f"found {[norm(c) for _, c in sends]}: more than one send site can put the datagram on the wire twice")
    for f, c in sends:
        fs = ifacts(fns, hp, f, c)
        key = f"{norm(c)}"
        ctx.ob(R4, f"{key} guarded by `not message.finalized`", _suffix_fact(fs, ".finalized", False), ctx.w(f, c),
               "a message already sent or dropped by a hook would be sent again")
        claimed = any((ap(e) in handled_names and not pol) or
                      (isinstance(e, ast.Call) and ap(e.func) == "AddonManager.handle_lludp_message" and not pol)
                      for e, pol in fs)
        ctx.ob(R4, f"{key} skipped when handle_lludp_message returned truthy", claimed, ctx.w(f, c),
               "a truthy hook result (claim) must return before the send")
        pkt = any(isinstance(e, ast.Call) and ap(e.func) == "AddonManager.handle_proxied_packet" and not pol
                  for e, pol in fs)
        ctx.ob(R4, f"{key} skipped when handle_proxied_packet hook claimed the packet", pkt, ctx.w(f, c))
    drops = sites(lambda c: call_attr(c) == "drop_message")
    # the tail is what runs after the lludp hook: a drop before any hook point (e.g. a refused datagram) is not the tail's
    if len(hook) == 1:
        hfn, hcall = hook[0]
        hcfg_ = CFG(hfn.node)
        after_hook = hcfg_.reachable(hcfg_.stmt_nodes_containing(hcall), exc=True)
        drops = [(f, c) for f, c in drops if f is not hfn or any(n in after_hook for n in hcfg_.stmt_nodes_containing(c))]
    ctx.ob(R4, "a queued (taken) original is dropped", any(_suffix_fact(ifacts(fns, hp, f, c), ".queued", True)
                                                          for f, c in drops), hp.where,
           "no drop_message under `message.queued`: the taken original is never acked/finalized")
    for f, c in drops:
        ctx.ob(R4, f"{norm(c)} guarded by `message.queued`", _suffix_fact(ifacts(fns, hp, f, c), ".queued", True),
               ctx.w(f, c), "unconditional drop loses messages nobody claimed")
        for hf, hc in hook:
            if hf is f:
                # conditions added between the hook call and the drop: exactly `message.queued`
                base = {(norm(e), pol) for e, pol in facts(enclosing_stmt(hc), f.node)}
                extra = {(norm(e), pol) for e, pol in facts(c, f.node)} - base
                ok = any(k.endswith(".queued") and pol for k, pol in extra) and all(
                    (k.endswith(".queued") and pol) or (k.endswith(".finalized") and not pol) for k, pol in extra)
                ctx.ob(R4, f"{norm(c)} happens for every queued original that is not finalized yet", ok, ctx.w(f, c),
                       f"drop additionally depends on {sorted(k if p else 'not ' + k for k, p in extra)}: some taken "
                       f"originals are neither dropped nor acked and the tail then tries to send a queued message")

    handles = sites(lambda c: (ap(c.func) or "").endswith("message_handler.handle"))
    ctx.floor(R6, "message_handler.handle calls", len(handles), 2)
    for f, c in handles:
        ctx.ob(R6, f"{hp.qual}: {norm(c)} isolated", iswallowing(fns, hp, f, c), ctx.w(f, c),
               "a raising subscriber would abort packet handling: hooks, logging and forwarding are skipped")


# --------------------------------------------------------------------------- R5

WIRE_OWNERS = {
    "send_packet": {"Circuit.send_datagram", "UDPProxyProtocol.handle_proxied_packet"},
    "send_datagram": {"Circuit._send_prepared_message", "ProxiedCircuit._send_prepared_message"},
    "_send_prepared_message": {"Circuit.send", "Circuit.resend_unacked"},
}


def _owned_by_callers(repo, f: FuncInfo, owners: Set[str], depth=3) -> bool:
    """f is a tabled owner, or a private method (of a class an owner lives in) every call site of which - by
    name over the whole tree, invoked on self/cls - lies in an owner or in such a helper."""
    if f.qual in owners:
        return True
    owner_classes = {o.split(".")[0] for o in owners}
    if depth <= 0 or f.cls is None or not f.name.startswith("_") or f.name.startswith("__") or \
            not any(c.name in owner_classes for c in repo.mro(f.cls)):
        return False
    sites = call_index(repo).get(f.name, [])
    return bool(sites) and all(isinstance(c.func, ast.Attribute) and ap(c.func.value) in ("self", "cls")
                               and _owned_by_callers(repo, g, owners, depth - 1) for g, c in sites)


def r5(ctx):
    repo = ctx.repo
    R = "C07.R5"
    ctx.rule(R, "one road to the wire inside hippolyzer/: send_packet <- send_datagram <- _send_prepared_message <- "
                "send (after a truthy prepare_message) / resend_unacked; sendto only inside send_packet")
    for callee, owners in WIRE_OWNERS.items():
        cs = call_index(repo).get(callee, [])
        ctx.floor(R, f"{callee} call sites", len(cs), 1)
        for f, c in cs:
            ctx.ob(R, f"{f.qual}: {norm(c.func)}(...) by an owner of {callee}", _owned_by_callers(repo, f, owners), ctx.w(f, c),
                   f"{callee} called outside {sorted(owners)}: a second road to the wire bypasses the finalized guard")
    cs = call_index(repo).get("sendto", [])
    ctx.floor(R, "sendto call sites", len(cs), 1)
    for f, c in cs:
        ctx.ob(R, f"{f.qual}: {norm(c.func)}(...) only inside a send_packet implementation", f.name == "send_packet",
               ctx.w(f, c), "raw transport write outside send_packet")
    send = repo.fn("Circuit.send")
    for c in find_calls(send.node, "_send_prepared_message"):
        ok = any(isinstance(e, ast.Call) and call_attr(e) == "prepare_message" and pol for e, pol in facts(c, send.node))
        ctx.ob(R, "Circuit.send: _send_prepared_message only after a truthy prepare_message", ok, ctx.w(send, c),
               "prepare_message is where the finalized guard lives; sending without it allows re-sends")


# --------------------------------------------------------------------------- R7

def r7(ctx):
    repo = ctx.repo
    R = "C07.R7"
    ctx.rule(R, "_call_all_addon_hooks / _call_module_hooks stop at the first truthy hook result and return it")
    for qual, callee in (("AddonManager._call_all_addon_hooks", "_call_module_hooks"),
                         ("AddonManager._call_module_hooks", "_try_call_hook")):
        f = repo.fn(qual)
        loops = [l for l in walk(f.node) if isinstance(l, (ast.For, ast.While))]
        found = False
        detail = "no dispatch call inside a loop"
        for loop in loops:
            for c in find_calls(loop, callee, into_defs=False):
                st = enclosing_stmt(c)
                names = {ap(t) for t in st.targets} if isinstance(st, ast.Assign) and st.value is c else set()
                for n in walk(loop):
                    if not isinstance(n, ast.If) or not n.body:
                        continue
                    pos = [e for e, pol in atoms(n.test, True) if pol]
                    if not any(ap(e) in names or e is c for e in pos) or len(pos) != 1:
                        continue
                    last = n.body[-1]
                    if isinstance(last, ast.Return) and last.value is not None and \
                            (ap(last.value) in names or last.value is c):
                        found = True
                    elif isinstance(last, ast.Break):
                        # collected into a local, returned after the loop
                        saved = {s.path for s in stores(ast.Module(body=n.body, type_ignores=[]), into_defs=False)
                                 if s.kind == "assign" and s.value is not None and ap(s.value) in names}
                        rets = {ap(r.value) for r in walk(f.node) if isinstance(r, ast.Return) and r.value is not None}
                        found = found or bool(saved & rets)
                        detail = "break without returning the collected result"
                    else:
                        detail = "truthy result does not leave the loop"
        ctx.ob(R, f"{qual}: first truthy result of {callee} leaves the loop and is returned", found, f.where,
               f"{detail}: a claimed message would still be offered to later addons / the claim would be lost")


# --------------------------------------------------------------------------- R8

MH = "hippolyzer/lib/base/message/message_handler.py"


def r8(ctx):
    repo = ctx.repo
    R = "C07.R8"
    ctx.rule(R, "MessageHandler: a taking subscriber (its body calls .take(); a closure or an instance of a callable "
                "class) registered on several notifiers is removed from every one of them - by a loop over the same "
                "notifier collection on every normal path of the subscriber itself, or in a finally of the registering "
                "method (one-shot / truthy-return unsubscription only removes it from the Event that fired)")
    from .common import inlined_funcinfo
    mh = repo.cls("MessageHandler", MH)
    found = 0
    for name, m0 in sorted(mh.methods.items()):
        m = inlined_funcinfo(repo, m0)
        # candidate subscribers: (name it is referred to by in m, body, how the body refers to itself, ctor call or None)
        cands = []
        for h in [d for d in walk(m.node, into_defs=True) if isinstance(d, FUNC_TYPES) and d is not m.node]:
            cands.append((h.name, h, h.name, None))
        for st in stores(m.node, into_defs=False):
            if st.kind == "assign" and isinstance(st.target, ast.Name) and isinstance(st.value, ast.Call):
                ci = repo.resolve_class(ap(st.value.func) or "", m.module)
                call_m = repo.lookup_method(ci, "__call__") if ci is not None else None
                if call_m is not None:
                    selfname = call_m.node.args.args[0].arg if call_m.node.args.args else "self"
                    cands.append((st.path, call_m.node, selfname, (ci, st.value)))
        for ref, body, selfref, ctor in cands:
            if not any(call_attr(c) == "take" and not c.args for c in calls(body)):
                continue
            # where is it registered?
            colls = set()
            for loop in [l for l in walk(m.node) if isinstance(l, (ast.For, ast.AsyncFor)) and isinstance(l.iter, ast.Name)]:
                lv = ap(loop.target)
                for c in find_calls(loop, "subscribe", into_defs=False):
                    if c.args and ap(c.args[0]) == ref and isinstance(c.func, ast.Attribute) and ap(c.func.value) == lv:
                        colls.add(loop.iter.id)
            for st in stores(m.node, into_defs=False):
                if st.kind == "assign" and isinstance(st.target, ast.Name) and isinstance(st.value, ast.Call) and \
                        any(ap(a) == ref for a in st.value.args) and "subscribe" in (call_attr(st.value) or ""):
                    colls.add(st.path)   # notifiers = self._subscribe_all(names, handler, ...)
            if not colls:
                continue
            for _ in range(3):   # plain aliases of the collection (x = notifiers)
                for st in stores(m.node, into_defs=False):
                    if st.kind == "assign" and isinstance(st.target, ast.Name) and isinstance(st.value, ast.Name) \
                            and st.value.id in colls:
                        colls.add(st.path)
            found += 1
            # the collection as the subscriber's own body sees it
            inner_colls = set(colls)
            if ctor is not None:
                ci, call = ctor
                inner_colls = set()
                init = repo.lookup_method(ci, "__init__")
                if init is not None:
                    iparams = [a.arg for a in init.node.args.args][1:]
                    bound = dict(zip(iparams, [ap(a) for a in call.args]))
                    bound.update({k.arg: ap(k.value) for k in call.keywords if k.arg})
                    isel = init.node.args.args[0].arg
                    for st in stores(init.node, into_defs=False):
                        if st.kind == "assign" and st.path.startswith(isel + ".") and isinstance(st.value, ast.Name) \
                                and bound.get(st.value.id) in colls:
                            inner_colls.add(selfref + "." + st.path.split(".", 1)[1])

            def unsub_loops(root, who, names):
                """Loops `for n in <coll>: n.unsubscribe(<who>)`, or calls of a helper whose body is such a loop
                over one of its parameters (`self._unsubscribe_all(<coll>, <who>)`)."""
                out = []
                for loop in [l for l in walk(root, into_defs=False) if isinstance(l, (ast.For, ast.AsyncFor))]:
                    if ap(loop.iter) in names:
                        lv = ap(loop.target)
                        if any(c.args and ap(c.args[0]) == who and isinstance(c.func, ast.Attribute)
                               and ap(c.func.value) == lv for c in find_calls(loop, "unsubscribe", into_defs=False)):
                            out.append(loop)
                for c in calls(root, into_defs=False):
                    hm = None
                    if isinstance(c.func, ast.Attribute) and ap(c.func.value) in ("self", "cls"):
                        hm = repo.lookup_method(mh, c.func.attr)
                    elif isinstance(c.func, ast.Name):
                        cs_ = [g for g in repo.funcs.get(c.func.id, []) if g.module is m.module and g.cls is None and g.parent_fn is None]
                        hm = cs_[0] if len(cs_) == 1 else None
                    if hm is None:
                        continue
                    hp = [a.arg for a in hm.node.args.args]
                    if hm.cls is not None and not any((ap(d) or "") == "staticmethod" for d in hm.node.decorator_list):
                        hp = hp[1:]
                    bound = dict(zip(hp, [ap(a) for a in c.args]))
                    bound.update({k.arg: ap(k.value) for k in c.keywords if k.arg})
                    for loop in [l for l in hm.node.body if isinstance(l, (ast.For, ast.AsyncFor))]:
                        lv = ap(loop.target)
                        if bound.get(ap(loop.iter) or "") in names and any(
                                cc.args and bound.get(ap(cc.args[0]) or "") == who and isinstance(cc.func, ast.Attribute)
                                and ap(cc.func.value) == lv for cc in find_calls(loop, "unsubscribe", into_defs=False)):
                            out.append(c)
                return out
            # (a) inside the subscriber, on every normal path
            ok_a = False
            inner = unsub_loops(body, selfref, inner_colls)
            if inner:
                hcfg = CFG(body)
                pn = {n for n in hcfg.nodes if (n.kind == "loop" and any(n.ast is l for l in inner)) or
                      any(isinstance(l, ast.Call) and n in hcfg.stmt_nodes_containing(l) for l in inner)}
                ok_a = cfg_search(hcfg, [hcfg.entry], target=lambda n: n is hcfg.exit, avoid=lambda n: n in pn,
                                  follow_exc=lambda n: False) is None
            # (b) in a finally of the registering method
            ok_b = any(any(isinstance(a, ast.Try) and any(l is s_ or any(l is x for x in ast.walk(s_)) for s_ in a.finalbody)
                           for a in ancestors(l)) for l in unsub_loops(m.node, ref, colls))
            # what was taken is handed to its consumer on every way out: take() condemns the original, so a copy that is
            # discarded (hand-over failing into a handler that swallows it, early return) is a message nobody owns
            bcfg = CFG(body)
            take_calls = [c for c in calls(body) if call_attr(c) == "take" and not c.args]
            taken_names = set()
            for tk in take_calls:
                st_ = enclosing_stmt(tk)
                if isinstance(st_, ast.Assign) and st_.value is tk:
                    taken_names |= {ap(t) for t in st_.targets}
            handovers = [c for c in calls(body) if call_attr(c) in ("put_nowait", "put", "set_result", "append", "send")
                         and any(ap(a) in taken_names for a in c.args)]
            hn = {n for c in handovers for n in bcfg.stmt_nodes_containing(c)}
            for tk in take_calls:
                lost = cfg_search(bcfg, bcfg.stmt_nodes_containing(tk), target=lambda n: n is bcfg.exit,
                                  avoid=lambda n: n in hn, follow_exc=lambda n: False, start_edges="normal")
                if lost is None and hn:
                    lost = cfg_search(bcfg, list(hn), target=lambda n: n is bcfg.exit, avoid=lambda n: n in hn,
                                      follow_exc=lambda n: False, start_edges="exc")
                ctx.ob(R, f"{m.qual}: what subscriber {ref} takes is handed over on every way out", lost is None and bool(hn),
                       ctx.w(m, tk), "a path completes the subscriber after take() without the copy reaching its queue / "
                       "future (e.g. the hand-over fails into a handler that only logs): the original is dropped, nobody "
                       "holds a copy", bcfg.describe_path(lost) if lost else None)
            for c in handovers:
                qn = ap(c.func.value) if isinstance(c.func, ast.Attribute) else None
                for st_ in stores(m.node, into_defs=False):
                    if st_.path == qn and st_.kind == "assign" and isinstance(st_.value, ast.Call) and \
                            (ap(st_.value.func) or "").split(".")[-1] in ("Queue", "LifoQueue", "PriorityQueue", "deque"):
                        bound = [a for a in st_.value.args] + [k.value for k in st_.value.keywords if k.arg in ("maxsize", "maxlen")]
                        unbounded = all(isinstance(b_, ast.Constant) and not b_.value for b_ in bound)
                        ctx.ob(R, f"{m.qual}: the buffer taken messages are parked in ({qn}) is unbounded", unbounded,
                               ctx.w(m, st_.node), "a bounded buffer refuses (or silently evicts) copies of messages whose "
                               "originals were already condemned by take()")
            # a subscriber that completes a future takes the message only while somebody still waits for it
            futs = {ap(c.func.value) for c in calls(body) if call_attr(c) == "set_result" and isinstance(c.func, ast.Attribute)
                    and ap(c.func.value)}
            takes_once = False
            if futs:
                lives = []

                def not_done_facts(node):
                    from .common import single_def
                    out_ = []
                    for e, pol in facts(node, body):
                        d_ = single_def(body, e.id) if isinstance(e, ast.Name) else None
                        out_.extend(atoms(d_, pol) if d_ is not None else [(e, pol)])
                    return {ap(e.func.value) for e, pol in out_ if not pol and isinstance(e, ast.Call) and not e.args
                            and isinstance(e.func, ast.Attribute) and e.func.attr == "done"}
                for tk in [c for c in calls(body) if call_attr(c) == "take" and not c.args]:
                    from .common import single_def
                    fs_ = []
                    for e, pol in facts(tk, body):
                        d_ = single_def(body, e.id) if isinstance(e, ast.Name) else None
                        fs_.extend(atoms(d_, pol) if d_ is not None else [(e, pol)])   # waiting = not fut.done()
                    live = any(not pol and isinstance(e, ast.Call) and not e.args and isinstance(e.func, ast.Attribute)
                               and e.func.attr == "done" and ap(e.func.value) in futs for e, pol in fs_)
                    lives.append(live)
                    ctx.ob(R, f"{m.qual}: subscriber {ref} takes `{norm(tk)}` only for a waiter that is still there", live,
                           ctx.w(m, tk), f"take() is not dominated by `not {sorted(futs)[0]}.done()`: after the waiter was "
                           f"cancelled / timed out the still-subscribed handler takes the next matching message (queued => "
                           f"dropped from the wire) although nobody receives it")
            # a subscriber that takes only while its future is pending and completes that future under the same test
            # takes at most once: a stale registration that fires again neither takes nor completes anything
            if futs and lives and all(lives):
                sets = [c for c in calls(body) if call_attr(c) == "set_result" and isinstance(c.func, ast.Attribute)]
                takes_once = bool(sets) and all(ap(c.func.value) in not_done_facts(c) for c in sets)
            if takes_once and not (ok_a or ok_b):
                ctx.note(f"C07.R8: {m.qual}: subscriber {ref} is not removed from every notifier, but it takes at most once "
                         f"(take and set_result both under `not <future>.done()`): stale registrations are harmless")
            ctx.ob(R, f"{m.qual}: taking subscriber {ref} is removed from every notifier it was registered on",
                   ok_a or ok_b or takes_once, ctx.w(m, body if ctor is None else ctor[1]),
                   "the subscriber stays registered under the other message names: it keeps take()ing messages / flows "
                   "that nobody consumes (never forwarded, never handed back)")
    ctx.floor(R, "taking subscribers registered on several notifiers", found, 2)


# --------------------------------------------------------------------------- R9

def r9(ctx):
    repo = ctx.repo
    R = "C07.R9"
    ctx.rule(R, "AddonManager.handle_lludp_message: a claim the manager makes itself (`return <truthy constant>`, i.e. not "
                "a hook's verdict) is reached only after drop_message(message) - on every path, exceptional ones "
                "included; otherwise the tail of handle_proxied_packet neither sends nor drops/acks the message")
    from .common import inlined_funcinfo, single_def
    f0 = repo.fn("AddonManager.handle_lludp_message")
    params = [a.arg for a in f0.node.args.args]
    ctx.require(len(params) >= 2, f"{R}: handle_lludp_message lost its parameters")
    _r9_function(ctx, R, repo, f0, params[-1], 2, True)


def _r9_function(ctx, R, repo, f0, msg, depth, top) -> bool:
    """The R9 obligations for one function that may claim `msg` by returning a truthy constant; returns whether all
    of them hold (so that a caller's `if helper(..): return True` can rely on the helper having dropped)."""
    from .common import inlined_funcinfo, single_def
    f = inlined_funcinfo(repo, f0, depth=2)   # claims made in split-off helpers that can be spliced in
    all_ok = [True]
    _ob = ctx.ob

    def ob(rule, inst, ok, *a, **k):
        all_ok[0] = all_ok[0] and bool(ok)
        _ob(rule, inst, ok, *a, **k)
    cfg = CFG(f.node)
    drops = {n for n in cfg.nodes for c in cfg_node_calls(cfg, n) if call_attr(c) == "drop_message" and c.args and ap(c.args[0]) == msg}
    # `if not <msg>.finalized: drop_message(<msg>)`: the message is dropped here or was already sent / dropped
    # (the caller forwards only `if not message.finalized`), so passing this test is as good as the drop
    for n in list(cfg.nodes):
        if n.kind == "test" and isinstance(n.ast, ast.If) and not n.ast.orelse:
            at = atoms(n.ast.test, True)
            if len(at) == 1 and ap(at[0][0]) == f"{msg}.finalized" and at[0][1] is False and any(
                    call_attr(c) == "drop_message" and c.args and ap(c.args[0]) == msg for st_ in n.ast.body for c in calls(st_)):
                drops.add(n)
    rets = [n for n in cfg.nodes if n.kind == "stmt" and isinstance(n.ast, ast.Return) and isinstance(n.ast.value, ast.Constant)
            and n.ast.value.value]
    if top:
        ctx.floor(R, "own claims (return <truthy constant>)", len({id(n.ast) for n in rets}), 1)
    # `if <helper>(.., msg, ..): return True` where the helper could not be spliced in (several value returns): the helper
    # is held to the same obligations, and when it meets them its truthy verdict stands for "dropped"
    if depth > 0 and f0.cls is not None:
        for x in [x for x in walk(f.node) if isinstance(x, ast.If) and x.body]:
            t = x.test
            if isinstance(t, ast.Call) and isinstance(t.func, ast.Attribute) and ap(t.func.value) in ("cls", "self"):
                h = repo.lookup_method(f0.cls, t.func.attr)
                if h is None or h is f0:
                    continue
                hp = [a.arg for a in h.node.args.args][1:]
                hm = next((hp[i] for i, a in enumerate(t.args) if i < len(hp) and ap(a) == msg), None)
                if hm is None:
                    continue
                claims = [r_ for r_ in walk(h.node) if isinstance(r_, ast.Return) and isinstance(r_.value, ast.Constant) and r_.value.value]
                if claims and _r9_function(ctx, R, repo, h, hm, depth - 1, False):
                    for n in cfg.nodes:
                        if n.ast is x.body[0]:
                            drops.add(n)
    loops = [l for l in walk(f.node) if isinstance(l, (ast.For, ast.AsyncFor))]
    # a message is dropped / sent once: not once per sub-item (command, block, ...) of that same message
    derived = {msg}
    for _ in range(5):
        for st in stores(f.node, into_defs=False):
            if st.kind == "assign" and isinstance(st.target, ast.Name) and st.value is not None and \
                    any(isinstance(x, ast.Name) and x.id in derived for x in ast.walk(st.value)):
                derived.add(st.path)
    n_loop_sinks = 0
    for l in loops:
        if not any(isinstance(x, ast.Name) and x.id in derived for x in ast.walk(l.iter)):
            continue
        heads = {n for n in cfg.nodes_for(l) if n.kind == "loop"}
        for c in [c for st_ in l.body for c in calls(st_) if call_attr(c) in ("drop_message", "send", "send_reliable")
                  and c.args and ap(c.args[0]) == msg]:
            n_loop_sinks += 1
            cn = cfg.stmt_nodes_containing(c)
            again = cfg_search(cfg, cn, target=lambda n: n in heads, follow_exc=lambda n: False, start_edges="normal")
            ob(R, f"{f.qual}: {norm(c)} inside `for {norm(l.target)} in {norm(l.iter)}` leaves the loop", again is None,
                   ctx.w(f, c), f"the loop runs once per item of the same message and goes on after the call: the second "
                   f"{call_attr(c)} of an already finalized message raises (swallowed as a hook failure) and a message of "
                   f"which only some items were handled is dropped all the same", cfg.describe_path(again) if again else None)
    ob(R, f"{f.qual}: no per-item drop/send of the message inside loops over its own contents", True, f.where,
           f"{n_loop_sinks} call(s) inside such loops")
    seen_keys = set()
    for r in rets:
        if id(r.ast) in seen_keys:
            continue
        seen_keys.add(id(r.ast))
        flags = {e.id for e, pol in facts(r.ast, f.node) if isinstance(e, ast.Name) and pol}
        for _ in range(4):    # a flag that is a plain copy of another local (result of an inlined helper)
            for g_ in list(flags):
                d = single_def(f.node, g_)
                if isinstance(d, ast.Name):
                    flags.add(d.id)
        # a local flag that was cleared cannot let the return through any more
        kill = {n for n in cfg.nodes if n.kind == "stmt" and isinstance(n.ast, ast.Assign) and len(n.ast.targets) == 1
                and isinstance(n.ast.targets[0], ast.Name) and n.ast.targets[0].id in flags
                and isinstance(n.ast.value, ast.Constant) and not n.ast.value.value}
        # loops that are known to run at least once when the return is reached: the claim is conditional on the
        # iterated list being non-empty, directly or through a flag initialised from bool(list) / len(list)
        nonempty_names = set(flags)
        for st in stores(f.node, into_defs=False):
            if st.kind == "assign" and st.path in flags and st.value is not None and not isinstance(st.value, ast.Constant):
                nonempty_names |= {x.id for x in ast.walk(st.value) if isinstance(x, ast.Name)}
        must_enter = {id(l): l for l in loops if isinstance(l.iter, ast.Name) and l.iter.id in nonempty_names}
        body_ids = {lid: {id(x) for st in l.body for x in ast.walk(st)} for lid, l in must_enter.items()}
        from collections import deque
        start = (cfg.entry, frozenset())
        prev = {start: None}
        dq = deque([start])
        hit = None
        while dq and hit is None:
            n, entered = dq.popleft()
            succs = list(n.succs) + (list(n.exc_succs) if cfg_node_fallible(cfg, n) else [])
            for t in succs:
                if t in drops or t in kill:
                    continue
                ent = entered
                if n.kind == "loop" and n.ast is not None and id(n.ast) in must_enter:
                    in_body = t.ast is not None and id(t.ast) in body_ids[id(n.ast)]
                    if in_body:
                        ent = entered | {id(n.ast)}
                    elif id(n.ast) not in entered:
                        continue      # leaving a loop that is known to iterate at least once without entering it
                st_ = (t, ent)
                if st_ in prev:
                    continue
                prev[st_] = (n, entered)
                if t is r:
                    hit = st_
                    break
                dq.append(st_)
        path = None
        if hit is not None:
            path, cur = [], hit
            while cur is not None:
                path.append(cur[0])
                cur = prev[cur]
            path.reverse()
        cond = "-"
        for a in ancestors(r.ast):
            if isinstance(a, ast.If):
                cond = norm(a.test)
                break
        ob(R, f"{f.qual}: `{norm(r.ast)}` under [{cond}] only after {msg} was dropped", path is None, ctx.w(f, r.ast),
               "the message is claimed (truthy return) on a path that never drops it: handle_proxied_packet returns "
               "without sending, dropping or acking it", cfg.describe_path(path) if path else None)
    return all_ok[0]


# --------------------------------------------------------------------------- R10

_STR_ONLY = {"startswith", "endswith", "split", "rsplit", "partition", "rpartition", "index", "rindex", "find", "rfind",
             "strip", "lstrip", "rstrip", "removeprefix", "removesuffix", "replace", "count"}
_RE_OPTIONAL = {"match", "fullmatch", "search"}


def _forward_path(repo, entry: FuncInfo, depth=2) -> List[FuncInfo]:
    """entry plus the repo functions it calls outside any try body (cls./self. methods, Class.method of a repo
    class, same-module functions): code whose exception escapes the entry point."""
    out, frontier = [entry], [entry]
    for _ in range(depth):
        nxt = []
        for f in frontier:
            for c in calls(f.node, into_defs=False):
                if any(tc.section == "body" and any(handler_catches_all(h) for h in tc.node.handlers)
                       for tc in try_contexts(c, f.node)):
                    continue
                fn, cand = c.func, None
                if isinstance(fn, ast.Attribute):
                    rp = ap(fn.value)
                    if rp in ("self", "cls") and f.cls is not None:
                        cand = repo.lookup_method(f.cls, fn.attr)
                    elif rp:
                        ci = repo.resolve_class(rp, f.module)
                        cand = repo.lookup_method(ci, fn.attr) if ci is not None else None
                elif isinstance(fn, ast.Name):
                    cs_ = [g for g in repo.funcs.get(fn.id, []) if g.cls is None and g.parent_fn is None and g.module is f.module]
                    cand = cs_[0] if len(cs_) == 1 else None
                if cand is not None and cand not in out:
                    out.append(cand)
                    nxt.append(cand)
        frontier = nxt
    return out


def r10(ctx):
    repo = ctx.repo
    R = "C07.R10"
    ctx.rule(R, "the part of handle_lludp_message (and of the helpers it calls outside a try) that runs before dispatch "
                "contains no partial operation on wire data: a str-only method with a str argument on a value read from "
                "a message block needs a dominating isinstance(x, str) (such a value can be JankStringyBytes); the "
                "result of re.match/fullmatch/search is tested before it is used; a weakref.proxy field is never used "
                "as a truth value in the scheduler the entry points call")
    from .common import origin
    entry = repo.fn("AddonManager.handle_lludp_message")
    fns = _forward_path(repo, entry, depth=2)
    ctx.floor(R, "functions on the pre-dispatch path of handle_lludp_message", len(fns), 3)
    n_str = n_re = 0

    def unguarded(node, f):
        return not any(tc.section == "body" and any(handler_catches_all(h) for h in tc.node.handlers)
                       for tc in try_contexts(node, f.node))
    for f in fns:
        def block_read(e):
            e = origin(f.node, e)
            return isinstance(e, ast.Subscript) and isinstance(e.value, ast.Subscript)
        for c in calls(f.node, into_defs=False):
            if not (isinstance(c.func, ast.Attribute) and unguarded(c, f)):
                continue
            recv = c.func.value
            if c.func.attr in _STR_ONLY and c.args and isinstance(c.args[0], ast.Constant) and isinstance(c.args[0].value, str) \
                    and block_read(recv):
                n_str += 1
                ok = any(pol and isinstance(e, ast.Call) and ap(e.func) == "isinstance" and len(e.args) == 2
                         and norm(e.args[0]) == norm(recv) and "str" in norm(e.args[1]) for e, pol in facts(c, f.node))
                ctx.ob(R, f"{f.qual}: `{norm(c)}` on message data only after isinstance({norm(recv)}, str)", ok, ctx.w(f, c),
                       "a variable that could not be decoded as text arrives as JankStringyBytes: a str argument raises "
                       "TypeError here, outside any try - no hook runs, the message is neither logged nor forwarded")
        # Optional regex results
        for st in stores(f.node, into_defs=False):
            if st.kind == "assign" and isinstance(st.target, ast.Name) and isinstance(st.value, ast.Call) and \
                    isinstance(st.value.func, ast.Attribute) and st.value.func.attr in _RE_OPTIONAL and unguarded(st.node, f):
                nm = st.path
                for x in walk(f.node):
                    use = None
                    if isinstance(x, ast.Subscript) and isinstance(x.value, ast.Name) and x.value.id == nm:
                        use = x
                    elif isinstance(x, ast.Attribute) and isinstance(x.value, ast.Name) and x.value.id == nm:
                        use = x
                    if use is None:
                        continue
                    n_re += 1
                    ok = False
                    for e, pol in facts(use, f.node):
                        nt = is_none_test(e)
                        if (ap(e) == nm and pol) or (nt is not None and nt[0] == nm and pol != nt[1]):
                            ok = True
                    ctx.ob(R, f"{f.qual}: `{norm(use)}` only after `{nm}` matched", ok, ctx.w(f, use),
                           f"`{norm(st.value)}` returns None when the text does not match: TypeError outside any try on "
                           f"the packet path")
    ctx.ob(R, "pre-dispatch path of handle_lludp_message checked for partial operations on wire data", True, entry.where,
           f"{[g.qual for g in fns]}: {n_str} str-only call(s) on block values, {n_re} regex result use(s)")

    # weakref.proxy fields of the task scheduler (kill_matching_tasks is called bare from handle_* entry points)
    am = repo.cls("AddonManager", ADDONS)
    sched = repo.class_attr(am, "SCHEDULER")
    sc = repo.resolve_class(ap(sched.func) or "", am.module) if isinstance(sched, ast.Call) else None
    ctx.require(sc is not None, f"{R}: class of AddonManager.SCHEDULER not resolved")
    mod = sc.module
    proxies = set()
    for x in ast.walk(mod.tree):
        if isinstance(x, (ast.Assign, ast.AnnAssign)) and x.value is not None:
            tg = x.targets[0] if isinstance(x, ast.Assign) else x.target
            if isinstance(tg, ast.Attribute) and any(isinstance(y, ast.Call) and (ap(y.func) or "").endswith("weakref.proxy")
                                                       for y in ast.walk(x.value)):
                proxies.add(tg.attr)
    n_truth = 0
    for x in ast.walk(mod.tree):
        tests = []
        if isinstance(x, (ast.If, ast.While, ast.IfExp)):
            tests = [x.test]
        elif isinstance(x, ast.BoolOp):
            tests = x.values
        elif isinstance(x, ast.UnaryOp) and isinstance(x.op, ast.Not):
            tests = [x.operand]
        for t in tests:
            if isinstance(t, ast.Attribute) and t.attr in proxies and not (isinstance(t.value, ast.Name) and t.value.id == "self"
                                                                          and False):
                n_truth += 1
                ctx.ob(R, f"{mod.rel}: weakref.proxy field `{norm(t)}` is not used as a truth value", False,
                       f"{mod.rel}:{t.lineno}", "bool() of a dead weakref.proxy raises ReferenceError (it never means 'gone'): "
                       "kill_matching_tasks runs bare inside handle_region_changed / handle_session_closed")
    # ... nor dereferenced outside a try that handles ReferenceError: every attribute access on a dead proxy raises
    for f_ in [f_ for f_ in repo.all_funcs if f_.module is mod and f_.parent_fn is None]:
        for x in walk(f_.node, into_defs=True):
            if isinstance(x, ast.Attribute) and isinstance(x.value, ast.Attribute) and x.value.attr in proxies and \
                    not (isinstance(x.value.value, ast.Name) and x.value.value.id == "weakref"):
                handled = any(tc.section == "body" and any(
                    (handler_catches_all(h_) or "ReferenceError" in handler_names(h_)) and handler_reraises(h_) != "always"
                    for h_ in tc.node.handlers) for tc in try_contexts(x))
                n_truth += 0 if handled else 1
                ctx.ob(R, f"{f_.qual}: `{norm(x)}` does not dereference a weakref.proxy field outside a ReferenceError handler",
                       handled, ctx.w(f_, x), "attribute access on a dead weakref.proxy raises ReferenceError: "
                       "kill_matching_tasks runs bare inside handle_region_changed / handle_session_closed")
    ctx.ob(R, f"{sc.name}: weakref.proxy fields {sorted(proxies)} never truth-tested or dereferenced bare", n_truth == 0,
           f"{mod.rel}:{sc.node.lineno}")


r4 = r6 = r4_r6


def run(ctx):
    r8(ctx)
    r9(ctx)
    r10(ctx)
    r1(ctx)
    r2(ctx)
    r3(ctx)
    r4_r6(ctx)
    r5(ctx)
    r7(ctx)
    ctx.assume("addon hooks and subscribers are external code: may raise anything, may call any public API")
    ctx.assume("the product of hook behaviours x ownership operations is not explored; only necessary structure")
    ctx.note("C07.R5 scope is hippolyzer/ only: addons that call send_datagram themselves "
             "(addon_examples/find_packet_bugs.py) produce their own traffic")
